/-
C17 — the layer below the deserializers: WHICH result metadata the rows of a RESULT::Rows response are
type-checked and decoded against (`Model/C17Meta.lean` ← `RawMetadataAndRawRows::deserialize` /
`deserialize_metadata`, `Connection::calculate_cached_metadata_params` / `handle_result_metadata_new_id`).

The property's text: "reading a column into a Rust type it does not fit is refused with a type-check error for every
such pair; no bytes of a mismatched value are ever reinterpreted".  `Props/C17.lean` proves that of `type_check`
against GIVEN column specs; here: the specs given to it are the ones the row bytes are laid out in — whenever the
response carries metadata it is THAT metadata, whatever metadata is cached, with or without the metadata-changed flag,
with or without the extension; the cached metadata is in force only for a response that carries none.
-/
import ScyllaVerif.Model.C17Meta

namespace ScyllaVerif.Props.C17Meta
open ScyllaVerif.Cql ScyllaVerif.Carrier ScyllaVerif.C17Meta

/-- A response that carries metadata is read with THAT metadata: whatever is cached, whether or not the
metadata-changed flag is set / honoured. -/
theorem sent_metadata_in_force (cached : Option Meta) (p : Presence) (s : Sent) (hp : p ≠ .noMetadata) :
    colsInForce cached p s = s.cols := by
  cases cached <;> cases p <;> simp_all [colsInForce, deserializeMetadata, Holder.inner, parseSent]

/-- … and the id it announces is the one the response carries, iff the flag is honoured. -/
theorem sent_metadata_id (cached : Option Meta) (p : Presence) (s : Sent) (hp : p ≠ .noMetadata) :
    (deserializeMetadata cached p s).inner.id = if p = .metadataWithNewId then some s.newId else none := by
  cases cached <;> cases p <;> simp_all [deserializeMetadata, Holder.inner, parseSent]

/-- The cached metadata is put in force ONLY for a response that carries no metadata. -/
theorem shared_cached_iff (cached : Option Meta) (p : Presence) (s : Sent) (c : Meta) :
    deserializeMetadata cached p s = .sharedCached c ↔ cached = some c ∧ p = .noMetadata := by
  cases cached <;> cases p <;> simp [deserializeMetadata]

/-- No metadata sent and none cached: the empty metadata (no column). -/
theorem mock_empty_iff (cached : Option Meta) (p : Presence) (s : Sent) :
    deserializeMetadata cached p s = .mockEmpty ↔ cached = none ∧ p = .noMetadata := by
  cases cached <;> cases p <;> simp [deserializeMetadata]

/-- The metadata in force IS the layout of the row bytes (for a server that encodes per the metadata it sends and,
when asked to skip it, per the client's), for every combination of cache, flags and sent metadata. -/
theorem in_force_is_layout (cached : Option Meta) (p : Presence) (s : Sent) :
    colsInForce cached p s = layoutCols cached p s := by
  cases cached <;> cases p <;> simp [colsInForce, layoutCols, deserializeMetadata, Holder.inner, parseSent]

/-- The metadata-changed flag is honoured only under the negotiated extension … -/
theorem changed_flag_needs_extension (flags : Nat) : parsePresence false flags ≠ some .metadataWithNewId := by
  unfold parsePresence
  cases (flags &&& 0x0004 != 0) <;> simp [presenceOf]

/-- … and whether a response counts as carrying metadata depends on flag 0x0004 alone. -/
theorem presence_no_metadata_iff (ext : Bool) (flags : Nat) (p : Presence) (h : parsePresence ext flags = some p) :
    p = .noMetadata ↔ flags &&& 0x0004 ≠ 0 := by
  unfold parsePresence at h
  have hb : (flags &&& 0x0004 ≠ 0) ↔ (flags &&& 0x0004 != 0) = true := by simp
  rw [hb]
  generalize (flags &&& 0x0004 != 0) = a at h
  generalize (ext && (flags &&& 0x0008 != 0)) = b at h
  cases a <;> cases b <;> simp [presenceOf] at h <;> subst h <;> simp

/-- `IdPresentForEmptyMetadata` exactly when both flags are set and the second is honoured. -/
theorem presence_refused_iff (ext : Bool) (flags : Nat) :
    parsePresence ext flags = none ↔ (flags &&& 0x0004 ≠ 0 ∧ ext = true ∧ flags &&& 0x0008 ≠ 0) := by
  unfold parsePresence
  have hb : (flags &&& 0x0004 ≠ 0) ↔ (flags &&& 0x0004 != 0) = true := by simp
  have hc : (flags &&& 0x0008 ≠ 0) ↔ (flags &&& 0x0008 != 0) = true := by simp
  rw [hb, hc]
  generalize (flags &&& 0x0004 != 0) = a
  generalize (flags &&& 0x0008 != 0) = b
  cases a <;> cases b <;> cases ext <;> simp [presenceOf]

/-- No reinterpretation through the choice of metadata: `rows_iter::<R>()` on the parsed response hands out a typed
iterator exactly when `R` fits the LAYOUT of the row bytes, and refuses with `R::type_check`'s error otherwise. -/
theorem typed_iter_checks_layout (rc : RowCarrier) (cached : Option Meta) (p : Presence) (s : Sent) (rows : Nat) :
    typedIterNew rc ((colsInForce cached p s).map (·.2)) rows
      = typedIterNew rc ((layoutCols cached p s).map (·.2)) rows := by
  rw [in_force_is_layout]

theorem misfit_layout_refused (rc : RowCarrier) (cached : Option Meta) (p : Presence) (s : Sent) (rows : Nat) (e : TcErr)
    (h : tcheckRow rc ((layoutCols cached p s).map (·.2)) = some e) :
    typedIterNew rc ((colsInForce cached p s).map (·.2)) rows = .error e := by
  rw [in_force_is_layout]; simp [typedIterNew, h]

/-- A STALE cache cannot leak: a response that carries metadata and whose layout `R` does not fit is refused even if
`R` fits the cached metadata. -/
theorem stale_cache_cannot_pass (rc : RowCarrier) (c : Meta) (p : Presence) (s : Sent) (rows : Nat) (e : TcErr)
    (hp : p ≠ .noMetadata) (_hfit : tcheckRow rc (c.cols.map (·.2)) = none)
    (h : tcheckRow rc (s.cols.map (·.2)) = some e) :
    typedIterNew rc ((colsInForce (some c) p s).map (·.2)) rows = .error e := by
  rw [sent_metadata_in_force _ _ _ hp]; simp [typedIterNew, h]

/-- The pager: over ANY sequence of pages (any flags, any sent metadata, any use_cached / extension setting, any
statement metadata to start from) every page that carries metadata is read with its OWN metadata. -/
theorem pages_in_force_own (useCached ext : Bool) :
    ∀ (rs : List PageResp) (stmt : Meta) (cs : List Cols), pagesInForce useCached ext stmt rs = some cs →
      cs.length = rs.length ∧
      ∀ (k : Nat) (hk : k < rs.length) (hc : k < cs.length), rs[k].flags &&& 0x0004 = 0 → cs[k] = rs[k].sent.cols := by
  intro rs
  induction rs with
  | nil => intro stmt cs h; simp [pagesInForce] at h; subst h; simp
  | cons r rs ih =>
    intro stmt cs h
    unfold pagesInForce at h
    split at h
    · simp at h
    · rename_i p hp
      split at h
      · simp at h
      · rename_i cs' hcs'
        simp at h; subst h
        have ⟨hl, hall⟩ := ih _ _ hcs'
        refine ⟨by simp [hl], ?_⟩
        intro k hk hc hflag
        cases k with
        | zero =>
          simp only [List.getElem_cons_zero] at hflag ⊢
          have hne : p ≠ .noMetadata := by
            intro hpn
            have := (presence_no_metadata_iff ext r.flags p hp).1 hpn
            exact this hflag
          exact sent_metadata_in_force _ p r.sent hne
        | succ k =>
          simp only [List.getElem_cons_succ] at hflag ⊢
          exact hall k (by simpa using hk) (by simpa using hc) hflag

/-- A NO_METADATA page is read with the statement's CURRENT metadata when skipping was requested, with the empty
metadata otherwise (head of the list; the tail is the same statement about the updated statement metadata). -/
theorem nometa_page_in_force (useCached ext : Bool) (stmt : Meta) (r : PageResp) (rs : List PageResp) (cs : List Cols)
    (hp : parsePresence ext r.flags = some .noMetadata)
    (h : pagesInForce useCached ext stmt (r :: rs) = some cs) :
    cs.head? = some (if skipMetadata useCached ext stmt then stmt.cols else []) := by
  unfold pagesInForce at h
  rw [hp] at h
  simp only at h
  split at h
  · simp at h
  · simp at h; subst h
    unfold cachedMetadata
    split <;> simp [deserializeMetadata, Holder.inner]

/-! non-vacuity: cached `(int, int)`, the server sends `(int, text)` WITHOUT the metadata-changed flag: the sent
metadata is in force, `(i32, i32)` is refused, `(i32, String)` is accepted. -/
private def cachedM : Meta := ⟨none, [("a", .native .int), ("b", .native .int)]⟩
private def sentM : Sent := ⟨7, [("a", .native .int), ("b", .native .text)]⟩
example : parsePresence false 0x0001 = some .justMetadata := by decide
example : parsePresence false 0x0009 = some .justMetadata := by decide
example : parsePresence true 0x0009 = some .metadataWithNewId := by decide
example : parsePresence true 0x000C = none := by decide
example : (colsInForce (some cachedM) .justMetadata sentM).map (·.1) = ["a", "b"] := by decide
example : (tcheckRow (.cols [.scalar .i32, .scalar .i32]) (cachedM.cols.map (·.2))).isNone = true := by decide
example : (tcheckRow (.cols [.scalar .i32, .scalar .i32]) ((colsInForce (some cachedM) .justMetadata sentM).map (·.2))).isSome = true := by
  decide
example : (tcheckRow (.cols [.scalar .i32, .scalar .str]) ((colsInForce (some cachedM) .justMetadata sentM).map (·.2))).isNone = true := by
  decide
example : (pagesInForce true false cachedM [⟨0x0004, default⟩, ⟨0x0001, sentM⟩, ⟨0x0004, default⟩]).map (·.map (·.length))
    = some [2, 2, 2] := by decide

end ScyllaVerif.Props.C17Meta

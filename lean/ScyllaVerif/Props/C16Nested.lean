/-
C16, audit item 5: a by-name derived struct with a UDT-typed field whose Rust type is itself a by-name derived
struct.  The descriptor interpreter (`Model/Derive.lean`) has NO nested-struct constructor: a nested UDT value is an
opaque payload of the outer field.  The statement is therefore proved for the COMPOSITION `outer ∘ inner` of two
descriptor interpreters: the inner struct is serialized against the inner UDT's field list, its cells are packed into
the outer field's payload by an arbitrary encoding `enc` with left inverse `dec` (the `[i32 len][bytes]` framing is
C01's subject), the outer struct is serialized against the outer field list; deserialization runs the outer
interpreter, unpacks the nested field's payload and runs the inner interpreter on it.
-/
import ScyllaVerif.Props.C16

namespace ScyllaVerif.Props.C16
open ScyllaVerif.Derive

/-- the outer struct's (field, value) list: the UDT-typed field `fu` carries the payload `x` -/
def outerVals (pre : List (Field × Val)) (fu : Field) (x : Bytes) (post : List (Field × Val)) : List (Field × Val) :=
  pre ++ (fu, some x) :: post

/-- serialize the inner struct against the inner UDT's field list, pack, serialize the outer struct -/
def serNested (enc : List Cell → Bytes) (d di : Desc) (pre : List (Field × Val)) (fu : Field)
    (post : List (Field × Val)) (ifvs : List (Field × Val)) (db idb : List Col) : Except Err (List Cell) :=
  match serValue di ifvs idb with
  | .error x => .error x
  | .ok ic => serValue d (outerVals pre fu (enc ic) post) db

/-- deserialize the outer struct, unpack its `k`-th field and deserialize the inner struct from it; the result is
(outer fields before the nested one, the nested struct's fields, outer fields after it) -/
def deserNested (dec : Bytes → List Cell) (d di : Desc) (k : Nat) (db idb : List Col) (cells : List Cell) :
    Except Err (List Val × List Val × List Val) :=
  match deserValue d db cells with
  | .error x => .error x
  | .ok vs =>
    match vs[k]? with
    | some (some x) =>
      (match deserValue di idb (dec x) with
       | .error e => .error e
       | .ok ivs => .ok (vs.take k, ivs, vs.drop (k + 1)))
    | _ => .error .dvFieldDeserFailed

private theorem deserNested_step (dec : Bytes → List Cell) (d di : Desc) (db idb : List Col) (cells : List Cell)
    (A B : List Val) (x : Bytes) (ivs : List Val)
    (h : deserValue d db cells = .ok (A ++ some x :: B)) (hi : deserValue di idb (dec x) = .ok ivs) :
    deserNested dec d di A.length db idb cells = .ok (A, ivs, B) := by
  unfold deserNested
  rw [h]
  simp [hi]

private theorem contains_perm {l l' : List String} (hp : l.Perm l') (n : String) : l'.contains n = l.contains n := by
  rw [Bool.eq_iff_iff]
  simp [hp.mem_iff]

/-- the value a by-name round trip returns for a field: skipped or unlisted ↦ default, else the value bound -/
def rtVal (db : List Col) (p : Field × Val) : Val :=
  if p.1.skip || !(names db).contains p.1.col then defaultVal p.1 else p.2

private theorem rtVal_perm {db db' : List Col} (hp : db.Perm db') (p : Field × Val) : rtVal db' p = rtVal db p := by
  unfold rtVal names
  rw [contains_perm (hp.map _)]

/-- **nested_byname_any_order** (composition `outer ∘ inner`): for ANY permutation `db'` of the outer field list and,
at the same time, ANY permutation `idb'` of the inner UDT's field list, whatever the two serializations write is read
back by the composed deserializer as the SAME triple in both orders, and that triple is the identity on the bound
values (skipped / unlisted `allow_missing` fields ↦ their defaults) at both levels.  The hypotheses are those of
`byname_roundtrip` at each level, stated for the first order only (they transfer along the permutations). -/
theorem nested_byname_any_order (enc : List Cell → Bytes) (dec : Bytes → List Cell) (hdec : ∀ cs, dec (enc cs) = cs)
    (d di : Desc) (pre post : List (Field × Val)) (fu : Field) (ifvs : List (Field × Val))
    (db db' idb idb' : List Col) (hp : db.Perm db') (hpi : idb.Perm idb')
    (hfl : d.flavor = .byName) (hfli : di.flavor = .byName)
    (hfields : ∀ x, d.fields = (outerVals pre fu x post).map (·.1)) (hfieldsi : di.fields = ifvs.map (·.1))
    (hv : ∀ x, ValidNames (outerVals pre fu x post)) (hvi : ValidNames ifvs)
    (hdb : (names db).Nodup) (hdbi : (names idb).Nodup)
    (htypes : ∀ x, ∀ c ∈ db, ∀ f v, fieldFor (outerVals pre fu x post) c.name = some (f, v) → f.ty = c.ty)
    (htypesi : ∀ c ∈ idb, ∀ f v, fieldFor ifvs c.name = some (f, v) → f.ty = c.ty)
    (hwt : ∀ p ∈ pre ++ post, WellTyped p.1 p.2) (hwti : ∀ p ∈ ifvs, WellTyped p.1 p.2)
    (hu : fu.skip = false) (hut : fu.ty = .udt) (hucol : fu.col ∈ names db)
    (oc oc' : List Cell)
    (hs : serNested enc d di pre fu post ifvs db idb = .ok oc)
    (hs' : serNested enc d di pre fu post ifvs db' idb' = .ok oc') :
    deserNested dec d di pre.length db idb oc = .ok (pre.map (rtVal db), ifvs.map (rtVal idb), post.map (rtVal db)) ∧
    deserNested dec d di pre.length db' idb' oc' = .ok (pre.map (rtVal db), ifvs.map (rtVal idb), post.map (rtVal db)) := by
  -- one order, generically
  have key : ∀ (e ie : List Col), db.Perm e → idb.Perm ie → ∀ c, serNested enc d di pre fu post ifvs e ie = .ok c →
      deserNested dec d di pre.length e ie c = .ok (pre.map (rtVal db), ifvs.map (rtVal idb), post.map (rtVal db)) := by
    intro e ie hpe hpie c hser
    unfold serNested at hser
    cases hic : serValue di ifvs ie with
    | error x => rw [hic] at hser; cases hser
    | ok ic =>
      rw [hic] at hser
      simp only [] at hser
      have hne : (names e).Nodup := ((hpe.map _).nodup_iff).mp hdb
      have hnie : (names ie).Nodup := ((hpie.map _).nodup_iff).mp hdbi
      -- inner round trip
      have hin := byname_roundtrip di ifvs ie ic hfli hfieldsi hvi hnie
        (fun c hc f v h => htypesi c (hpie.mem_iff.mpr hc) f v h) hwti hic
      -- outer round trip
      have hwto : ∀ p ∈ outerVals pre fu (enc ic) post, WellTyped p.1 p.2 := by
        intro p hp'
        unfold outerVals at hp'
        rcases List.mem_append.mp hp' with h | h
        · exact hwt p (List.mem_append_left _ h)
        · rcases List.mem_cons.mp h with rfl | h
          · show decodeOk fu.ty (enc ic) = true
            rw [hut]; rfl
          · exact hwt p (List.mem_append_right _ h)
      have hout := byname_roundtrip d (outerVals pre fu (enc ic) post) e c hfl (hfields _) (hv _) hne
        (fun c hc f v h => htypes _ c (hpe.mem_iff.mpr hc) f v h) hwto hser
      have hmap : (outerVals pre fu (enc ic) post).map
            (fun p => if p.1.skip || !(names e).contains p.1.col then defaultVal p.1 else p.2) =
          pre.map (rtVal db) ++ some (enc ic) :: post.map (rtVal db) := by
        have hfun : (fun p : Field × Val => if p.1.skip || !(names e).contains p.1.col then defaultVal p.1 else p.2)
            = rtVal db := by
          funext p
          exact rtVal_perm hpe p
        rw [hfun]
        unfold outerVals
        rw [List.map_append, List.map_cons]
        congr 2
        unfold rtVal
        simp [hu, hucol]
      rw [hmap] at hout
      have hin' : deserValue di ie (dec (enc ic)) = .ok (ifvs.map (rtVal idb)) := by
        rw [hdec, hin]
        congr 1
        apply List.map_congr_left
        intro p _
        exact rtVal_perm hpie p
      have := deserNested_step dec d di e ie c _ _ _ _ hout hin'
      rw [List.length_map] at this
      exact this
  exact ⟨key db idb (List.Perm.refl _) (List.Perm.refl _) oc hs, key db' idb' hp hpi oc' hs'⟩

/-- the outer serializer's verdict on a column does not depend on the nested field's payload bytes -/
private theorem colAccepted_payload (forbid : Bool) (pre post : List (Field × Val)) (fu : Field) (x x' : Bytes)
    (c : Col) :
    ColAccepted forbid (outerVals pre fu x post) c ↔ ColAccepted forbid (outerVals pre fu x' post) c := by
  unfold ColAccepted fieldFor outerVals
  simp only [List.find?_append, List.find?_cons]
  cases List.find? (fun p : Field × Val => !p.1.skip && p.1.col == c.name) pre with
  | some p => simp
  | none =>
    simp only [Option.none_or]
    by_cases h : (!fu.skip && fu.col == c.name) = true <;> simp [h]

private theorem requiredPresent_payload (pre post : List (Field × Val)) (fu : Field) (x x' : Bytes) (db : List Col) :
    RequiredPresent (outerVals pre fu x post) db ↔ RequiredPresent (outerVals pre fu x' post) db := by
  unfold RequiredPresent outerVals
  simp only [List.mem_append, List.mem_cons, or_imp, forall_and, forall_eq]

private theorem serValue_byName (d : Desc) (fvs : List (Field × Val)) (db : List Col) (hfl : d.flavor = .byName) :
    serValue d fvs db = serValueByName d fvs db := by
  unfold serValue; rw [hfl]

/-- **nested_byname_accepts_iff**: the composed serializer accepts one order of the outer field list and of the inner
UDT's field list iff it accepts ANY other order at both levels at once (the payload of the nested field differs
between the two inner orders; the outer verdict does not look at it). -/
theorem nested_byname_accepts_iff (enc : List Cell → Bytes) (d di : Desc) (pre post : List (Field × Val)) (fu : Field)
    (ifvs : List (Field × Val)) (db db' idb idb' : List Col) (hp : db.Perm db') (hpi : idb.Perm idb')
    (hfl : d.flavor = .byName) (hfli : di.flavor = .byName)
    (hv : ∀ x, ValidNames (outerVals pre fu x post)) (hvi : ValidNames ifvs) :
    (∃ c, serNested enc d di pre fu post ifvs db idb = .ok c) ↔
      (∃ c, serNested enc d di pre fu post ifvs db' idb' = .ok c) := by
  have key : ∀ (e e' ie ie' : List Col), e.Perm e' → ie.Perm ie' →
      (∃ c, serNested enc d di pre fu post ifvs e ie = .ok c) →
      (∃ c, serNested enc d di pre fu post ifvs e' ie' = .ok c) := by
    intro e e' ie ie' hpe hpie ⟨c, h⟩
    unfold serNested at h ⊢
    cases hic : serValue di ifvs ie with
    | error x => rw [hic] at h; cases h
    | ok ic =>
      rw [hic] at h
      simp only [] at h
      rw [serValue_byName di ifvs ie hfli] at hic
      obtain ⟨ic', hic'⟩ := (serValueByName_perm_accepts di ifvs ie ie' hvi hpie).mp ⟨ic, hic⟩
      rw [serValue_byName di ifvs ie' hfli, hic']
      simp only []
      rw [serValue_byName d _ e hfl] at h
      obtain ⟨hacc, hreq⟩ := (serValueByName_accepts_iff d _ e (hv _)).mp ⟨c, h⟩
      rw [serValue_byName d _ e' hfl]
      apply (serValueByName_accepts_iff d _ e' (hv _)).mpr
      refine ⟨fun col hc => (colAccepted_payload _ pre post fu (enc ic) (enc ic') col).mp
        (hacc col (hpe.mem_iff.mpr hc)), ?_⟩
      have hreq' := (requiredPresent_payload pre post fu (enc ic) (enc ic') e).mp hreq
      intro p hp' hs ha
      exact ((hpe.map _).mem_iff).mp (hreq' p hp' hs ha)
  exact ⟨key db db' idb idb' hp hpi, key db' db idb' idb hp.symm hpi.symm⟩

/-- the per-level form (a fixed value list at each level; `serValueByName_perm_accepts` twice); the full statement
over the composition is `nested_byname_accepts_iff` above -/
theorem nested_byname_accepts_partial (d di : Desc) (fvs ifvs : List (Field × Val)) (db db' idb idb' : List Col)
    (hv : ValidNames fvs) (hvi : ValidNames ifvs) (hp : db.Perm db') (hpi : idb.Perm idb') :
    ((∃ c, serValueByName di ifvs idb = .ok c) ↔ (∃ c, serValueByName di ifvs idb' = .ok c)) ∧
    ((∃ c, serValueByName d fvs db = .ok c) ↔ (∃ c, serValueByName d fvs db' = .ok c)) :=
  ⟨serValueByName_perm_accepts di ifvs idb idb' hvi hpi, serValueByName_perm_accepts d fvs db db' hv hp⟩

/-! non-vacuity: outer `{k: i32, u: U2}` against `(u, k)` and `(k, u)`, inner `U2 {a: i32, b: String}` against `(a, b)`
and `(b, a)`; `enc` / `dec` = a toy packing of two cells -/
section Example
private def fA : Field := { rustName := "a", rename := none, ty := .int, opt := false, skip := false, allowMissing := false, defaultWhenNull := false }
private def fB : Field := { fA with rustName := "b", ty := .text }
private def fK : Field := { fA with rustName := "k" }
private def fU : Field := { fA with rustName := "u", ty := .udt }
private def dIn : Desc := { flavor := .byName, skipNameChecks := false, forbidExcess := false, fields := [fA, fB] }
private def dOut : Desc := { flavor := .byName, skipNameChecks := false, forbidExcess := false, fields := [fK, fU] }
private def ivals : List (Field × Val) := [(fA, some [0, 0, 0, 7]), (fB, some [104, 105])]
private def encT (cs : List Cell) : Bytes :=
  cs.flatMap (fun c => match c with | none => [255] | some b => (b.length.toUInt8 :: b))
private def idbAB : List Col := [⟨"a", .int⟩, ⟨"b", .text⟩]
private def idbBA : List Col := [⟨"b", .text⟩, ⟨"a", .int⟩]
private def dbKU : List Col := [⟨"k", .int⟩, ⟨"u", .udt⟩]
private def dbUK : List Col := [⟨"u", .udt⟩, ⟨"k", .int⟩]

-- the two orders write DIFFERENT bytes (inner cells swapped inside the payload, outer cells swapped) …
example : serNested encT dOut dIn [(fK, some [0, 0, 0, 1])] fU [] ivals dbKU idbAB
    = .ok [some [0, 0, 0, 1], some [4, 0, 0, 0, 7, 2, 104, 105]] := by rfl
example : serNested encT dOut dIn [(fK, some [0, 0, 0, 1])] fU [] ivals dbUK idbBA
    = .ok [some [2, 104, 105, 4, 0, 0, 0, 7], some [0, 0, 0, 1]] := by rfl
-- … and the composed deserializer (unpacking by hand here) reads the same struct back from both
example : deserNested (fun _ => [some [0, 0, 0, 7], some [104, 105]]) dOut dIn 1 dbKU idbAB
      [some [0, 0, 0, 1], some [4, 0, 0, 0, 7, 2, 104, 105]]
    = .ok ([some [0, 0, 0, 1]], [some [0, 0, 0, 7], some [104, 105]], []) := by rfl
example : deserNested (fun _ => [some [104, 105], some [0, 0, 0, 7]]) dOut dIn 1 dbUK idbBA
      [some [2, 104, 105, 4, 0, 0, 0, 7], some [0, 0, 0, 1]]
    = .ok ([some [0, 0, 0, 1]], [some [0, 0, 0, 7], some [104, 105]], []) := by rfl
example : dbKU.Perm dbUK ∧ idbAB.Perm idbBA := ⟨List.Perm.swap _ _ _, List.Perm.swap _ _ _⟩
end Example

end ScyllaVerif.Props.C16

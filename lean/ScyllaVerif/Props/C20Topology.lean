import ScyllaVerif.Model.KeyspaceTopology
import ScyllaVerif.Props.C20
/-! C20, the metadata-refresh layer: `ClusterState::calculate_new_topology` (cluster/state.rs:275-341), the place where
`Node` objects - and with them connection pools - are created from `node_config.used_keyspace`.

Model: Model/KeyspaceTopology.lean (`arm`, `nodeFor`, `walk`, `refreshEvents`, `refresh`). What the property demands of
this layer: whatever the fetched peer list and the host filter say, every pool the refresh CREATES starts with the
session keyspace as its current keyspace (brand-new host, host re-created because its datacenter / rack changed or
because the filter now accepts it), every pool it KEEPS is untouched, and the session-level statement
`cluster_published_has_keyspace` survives any number of refreshes interleaved with everything else. -/
namespace ScyllaVerif.Props.C20Topology
open ScyllaVerif.Keyspace ScyllaVerif.KeyspaceTopology

variable {K : Type}

/-! ### The decision logic of the match, stated outright -/

/-- **arm_create_iff**: a pool is built (`Node::new(.., node_config.used_keyspace, ..)`) exactly for an accepted peer
whose host is unknown, or known but disabled, or known with another datacenter or rack. -/
theorem arm_create_iff (p : Peer) (old : Option NodeObj) :
    arm p old = .create ↔
      p.accepted = true ∧ (old = none ∨ ∃ n, old = some n ∧ (n.enabled = false ∨ n.dc ≠ p.dc ∨ n.rack ≠ p.rack)) := by
  cases old with
  | none => cases h : p.accepted <;> simp [arm, h]
  | some n =>
    cases h : p.accepted <;> cases he : n.enabled <;> simp [arm, h, he]
    · split <;> simp
    · by_cases hd : n.dc = p.dc <;> by_cases hr : n.rack = p.rack <;> simp [hd, hr]
      split <;> simp

/-- **arm_reuses_pool_iff**: the old pool lives on (same `Arc<Node>`, or `inherit_with_ip_changed`) exactly for an
accepted peer whose host is known, enabled and in the same datacenter and rack. -/
theorem arm_reuses_pool_iff (p : Peer) (old : Option NodeObj) :
    (arm p old = .keep ∨ arm p old = .inheritIp) ↔
      p.accepted = true ∧ ∃ n, old = some n ∧ n.enabled = true ∧ n.dc = p.dc ∧ n.rack = p.rack := by
  cases old with
  | none => cases h : p.accepted <;> simp [arm, h]
  | some n =>
    cases h : p.accepted <;> cases he : n.enabled <;> simp [arm, h, he]
    · split <;> simp
    · by_cases hd : n.dc = p.dc <;> by_cases hr : n.rack = p.rack <;> simp [hd, hr]
      exact Decidable.em _

/-- **arm_disabled_iff**: a peer the host filter rejects never gets (or keeps) a pool, whatever is known. -/
theorem arm_disabled_iff (p : Peer) (old : Option NodeObj) :
    (arm p old = .keepDisabled ∨ arm p old = .newDisabled) ↔ p.accepted = false := by
  cases old with
  | none => cases h : p.accepted <;> simp [arm, h]
  | some n =>
    cases h : p.accepted <;> simp [arm, h]
    · intros; exact Decidable.em _
    · split
      · split <;> simp
      · simp

example : arm ⟨7, 1, 0, 0, true⟩ (some ⟨7, 1, 0, 1, true, 3⟩) = .create ∧            -- rack changed
    arm ⟨7, 1, 1, 0, true⟩ (some ⟨7, 1, 0, 0, true, 3⟩) = .create ∧                    -- datacenter changed
    arm ⟨7, 1, 0, 0, true⟩ (some ⟨7, 1, 0, 0, false, 3⟩) = .create ∧                   -- was rejected by the filter
    arm ⟨7, 1, 0, 0, true⟩ none = .create ∧ arm ⟨7, 2, 0, 0, true⟩ (some ⟨7, 1, 0, 0, true, 3⟩) = .inheritIp ∧
    arm ⟨7, 1, 0, 0, false⟩ (some ⟨7, 1, 0, 0, true, 3⟩) = .newDisabled := by decide

/-- **nodeFor_create**: the `create` arm yields an enabled node object on the FRESH cluster node and the event
`addNode .. false`, i.e. (`new_nodes_inherit`) a pool `Pool.init .. usedKs`. -/
theorem nodeFor_create (ps : Bool) (tg : Nat) (p : Peer) (old : Option NodeObj) (fresh : Nat)
    (h : arm p old = .create) :
    nodeFor (K := K) ps tg p old fresh =
      ({ host := p.host, addr := p.addr, dc := p.dc, rack := p.rack, enabled := true, pool := fresh },
       some (.addNode ps tg false)) := by
  unfold nodeFor
  rw [h]

/-- **nodeFor_reuse**: the `keep` / `inheritIp` arms create nothing and keep the pool of the old object. -/
theorem nodeFor_reuse (ps : Bool) (tg : Nat) (p : Peer) (n : NodeObj) (fresh : Nat)
    (h : arm p (some n) = .keep ∨ arm p (some n) = .inheritIp) :
    (nodeFor (K := K) ps tg p (some n) fresh).2 = none ∧ (nodeFor (K := K) ps tg p (some n) fresh).1.pool = n.pool ∧
    (nodeFor (K := K) ps tg p (some n) fresh).1.enabled = n.enabled := by
  unfold nodeFor
  rcases h with h | h <;> rw [h] <;> simp

/-! ### The loop and the cluster events of a refresh -/

private theorem nodeFor_spec (ps : Bool) (tg : Nat) (old : List NodeObj) (s0 : Nat) (hold : ∀ n ∈ old, n.pool < s0)
    (p : Peer) (fresh : Nat) :
    let r := nodeFor (K := K) ps tg p (old.find? (·.host == p.host)) fresh
    (r.2 = none ∧ r.1.pool < s0) ∨ ((∃ f, r.2 = some (.addNode ps tg f)) ∧ r.1.pool = fresh) := by
  intro r
  cases ho : old.find? (·.host == p.host) with
  | none =>
    right
    simp only [r, ho, nodeFor]
    cases arm p none <;> simp
  | some n =>
    have hn : n.pool < s0 := hold n (List.mem_of_find?_eq_some ho)
    simp only [r, ho, nodeFor]
    cases arm p (some n) <;> simp [hn]

private theorem walk_spec (ps : Bool) (tg : Nat) (old : List NodeObj) (s0 : Nat) (hold : ∀ n ∈ old, n.pool < s0) :
    ∀ (peers : List Peer) (fresh : Nat) (acc : List NodeObj) (evs : List (CEv K)),
      fresh = s0 + evs.length → (∀ e ∈ evs, ∃ f, e = CEv.addNode ps tg f) → (∀ n ∈ acc, n.pool < s0 + evs.length) →
      (∀ e ∈ (walk ps tg old peers fresh acc evs).2, ∃ f, e = CEv.addNode ps tg f) ∧
      (∀ n ∈ (walk ps tg old peers fresh acc evs).1, n.pool < s0 + (walk ps tg old peers fresh acc evs).2.length) := by
  intro peers
  induction peers with
  | nil =>
    intro fresh acc evs _ hev hacc
    simp only [walk, List.mem_reverse, List.length_reverse]
    exact ⟨hev, hacc⟩
  | cons p rest ih =>
    intro fresh acc evs hfresh hev hacc
    have hs := nodeFor_spec (K := K) ps tg old s0 hold p fresh
    simp only [walk]
    rcases hs with ⟨h2, h1⟩ | ⟨⟨f, h2⟩, h1⟩
    · rw [h2]
      apply ih fresh _ evs hfresh hev
      intro n hn
      rcases List.mem_cons.mp hn with rfl | hn
      · omega
      · exact hacc n (List.mem_filter.mp hn).1
    · rw [h2]
      apply ih (fresh + 1) _ (_ :: evs) (by simp; omega)
      · intro e he
        rcases List.mem_cons.mp he with rfl | he
        · exact ⟨f, rfl⟩
        · exact hev e he
      · intro n hn
        simp only [List.length_cons]
        rcases List.mem_cons.mp hn with rfl | hn
        · omega
        · have := hacc n (List.mem_filter.mp hn).1
          omega

private theorem crun_adds [DecidableEq K] (ps : Bool) (tg : Nat) :
    ∀ (evs : List (CEv K)) (c : Cluster K), (∀ e ∈ evs, ∃ f, e = CEv.addNode ps tg f) →
      (crun c evs).usedKs = c.usedKs ∧ (crun c evs).nNodes = c.nNodes + evs.length ∧
      (∀ m, m < c.nNodes → (crun c evs).pools m = c.pools m) ∧
      (∀ m, c.nNodes ≤ m → m < c.nNodes + evs.length → (crun c evs).pools m = Pool.init ps tg c.usedKs) := by
  intro evs
  induction evs with
  | nil => intro c _; simp [crun]; intro m h1 h2; omega
  | cons e es ih =>
    intro c h
    obtain ⟨f, rfl⟩ := h e (List.mem_cons_self)
    have ih' := ih (cstep c (.addNode ps tg f)) (fun e he => h e (List.mem_cons_of_mem _ he))
    have hu : (cstep c (.addNode ps tg f)).usedKs = c.usedKs := by simp [cstep]
    have hn : (cstep c (.addNode ps tg f)).nNodes = c.nNodes + 1 := by simp [cstep]
    have hp : ∀ m, (cstep c (.addNode ps tg f)).pools m = if m = c.nNodes then Pool.init ps tg c.usedKs else c.pools m := by
      intro m; simp [cstep, setPool]
    simp only [crun, List.foldl_cons] at ih' ⊢
    obtain ⟨a, b, c1, d⟩ := ih'
    refine ⟨by rw [a, hu], by rw [b, hn]; simp; omega, ?_, ?_⟩
    · intro m hm
      rw [c1 m (by omega), hp m, if_neg (by omega)]
    · intro m h1 h2
      by_cases hm : m = c.nNodes
      · rw [c1 m (by omega), hp m, if_pos hm]
      · rw [d m (by omega) (by simp at h2; omega), hu]

private theorem crun_removes [DecidableEq K] : ∀ (ids : List Nat) (c : Cluster K),
    (crun c (ids.map CEv.removeNode)).usedKs = c.usedKs ∧ (crun c (ids.map CEv.removeNode)).pools = c.pools ∧
    (crun c (ids.map CEv.removeNode)).nNodes = c.nNodes := by
  intro ids
  induction ids with
  | nil => intro c; simp [crun]
  | cons i is ih =>
    intro c
    have := ih (cstep c (.removeNode i))
    simp only [crun, List.map_cons, List.foldl_cons] at this ⊢
    simpa [cstep] using this

/-- **refresh_events_are_topology_events**: a refresh never issues a use-keyspace request: its cluster events are
node creations followed by node removals. -/
theorem refresh_events_are_topology_events (ps : Bool) (tg : Nat) (c : Cluster K) (old : List NodeObj)
    (peers : List Peer) : ∀ e ∈ (refreshEvents ps tg c old peers).2, e.isUseKs = false := by
  intro e he
  simp only [refreshEvents, List.mem_append, List.mem_map] at he
  rcases he with he | ⟨i, _, rfl⟩
  · -- creations: `walk` only ever conses `addNode` events
    have : ∀ (peers : List Peer) (fresh : Nat) (acc : List NodeObj) (evs : List (CEv K)),
        (∀ e ∈ evs, e.isUseKs = false) → ∀ e ∈ (walk ps tg old peers fresh acc evs).2, e.isUseKs = false := by
      intro peers
      induction peers with
      | nil => intro _ _ evs h e he; exact h e (by simpa [walk] using he)
      | cons p rest ih =>
        intro fresh acc evs h
        simp only [walk]
        cases hr : (nodeFor (K := K) ps tg p (old.find? (·.host == p.host)) fresh).2 with
        | none => exact ih _ _ _ h
        | some ev =>
          apply ih
          intro e he
          rcases List.mem_cons.mp he with rfl | he
          · unfold nodeFor at hr
            split at hr <;> simp at hr <;> subst hr <;> rfl
          · exact h e he
    exact this peers c.nNodes [] [] (by simp) e he
  · rfl

/-- **refresh_new_pools_inherit** - what the seeded change C20-9 breaks. Whatever the peer list, the host filter and
the previous topology: after the refresh `node_config.used_keyspace` is unchanged, every pool that existed before is
untouched, and the pool of EVERY node object of the new topology that is not one of the old pools - brand-new host,
host whose datacenter or rack changed, host the filter newly accepts (`arm_create_iff`) - is `Pool.init .. usedKs`: its
refiller's current keyspace is the session keyspace, so (`publish_only_with_current_keyspace`,
`published_has_initial_keyspace`) it never publishes a connection without it. -/
theorem refresh_new_pools_inherit [DecidableEq K] (ps : Bool) (tg : Nat) (c : Cluster K) (old : List NodeObj) (peers : List Peer)
    (hold : ∀ n ∈ old, n.pool < c.nNodes) :
    (refresh ps tg c old peers).1.usedKs = c.usedKs ∧
    (∀ m, m < c.nNodes → (refresh ps tg c old peers).1.pools m = c.pools m) ∧
    ∀ n ∈ (refresh ps tg c old peers).2, n.pool < c.nNodes ∨
      ((refresh ps tg c old peers).1.pools n.pool = Pool.init ps tg c.usedKs ∧
       ((refresh ps tg c old peers).1.pools n.pool).currentKs = c.usedKs) := by
  obtain ⟨hadd, hpool⟩ := walk_spec (K := K) ps tg old c.nNodes hold peers c.nNodes [] [] (by simp) (by simp) (by simp)
  obtain ⟨a1, a2, a3, a4⟩ := crun_adds ps tg _ c hadd
  simp only [refresh, refreshEvents, crun, List.foldl_append]
  simp only [crun] at a1 a2 a3 a4
  have hr := crun_removes (K := K)
  simp only [crun] at hr
  refine ⟨by rw [(hr _ _).1, a1], fun m hm => by rw [(hr _ _).2.1, a3 m hm], fun n hn => ?_⟩
  by_cases hlt : n.pool < c.nNodes
  · exact Or.inl hlt
  · right
    have h4 := a4 n.pool (by omega) (hpool n hn)
    rw [(hr _ _).2.1, h4]
    exact ⟨rfl, rfl⟩

/-- The refreshed cluster of a reachable cluster is reachable: a refresh is a run of cluster events. -/
theorem refresh_is_cluster_run [DecidableEq K] (perShard : Bool) (target : Nat) (evs : List (CEv K)) (ps : Bool) (tg : Nat)
    (old : List NodeObj) (peers : List Peer) :
    (refresh ps tg (crun (Cluster.init perShard target : Cluster K) evs) old peers).1 =
      crun (Cluster.init perShard target : Cluster K)
        (evs ++ (refreshEvents ps tg (crun (Cluster.init perShard target : Cluster K) evs) old peers).2) := by
  simp [refresh, crun, List.foldl_append]

/-- **published_has_keyspace_across_refresh**: the session-level statement in any state reached by any history `evs`,
then a metadata refresh with ANY peer list / host-filter answers / previous node objects, then any further history
`evs'` (pool events of the re-created nodes, later requests, later refreshes - a refresh is itself such a history):
when the newest fan-out did not overlap an older one and was answered Ok, every published non-broken connection of
every known node - the nodes the refresh created included - has the keyspace set at the server and nothing in
flight. -/
theorem published_has_keyspace_across_refresh [DecidableEq K] (perShard : Bool) (target : Nat) (evs evs' : List (CEv K))
    (ps : Bool) (tg : Nat) (old : List NodeObj) (peers : List Peer) :
    let c := crun (refresh ps tg (crun (Cluster.init perShard target : Cluster K) evs) old peers).1 evs'
    c.overlap = false → ∀ F, c.fanouts.head? = some F → F.resp = some .ok →
      ∀ n ∈ c.known, ∀ i ∈ (c.pools n).conns, ((c.pools n).net i).broken = false →
        ((c.pools n).net i).unclaimed = false →
        ((c.pools n).net i).serverKs = some F.ks ∧ ((c.pools n).net i).queue = [] := by
  intro c
  have hc : c = crun (Cluster.init perShard target : Cluster K)
      ((evs ++ (refreshEvents ps tg (crun (Cluster.init perShard target : Cluster K) evs) old peers).2) ++ evs') := by
    simp only [c, refresh_is_cluster_run]
    simp [crun, List.foldl_append]
  rw [hc]
  exact ScyllaVerif.Props.C20.cluster_published_has_keyspace perShard target _

/-- Non-vacuity: keyspace 5 set on a one-node cluster (one connection, USE acknowledged), then a refresh in which the
host's rack changed: the node object is re-created on cluster node 1, whose pool starts with keyspace 5; its first
connection is published only after `USE 5` was acknowledged. -/
private def evsBefore : List (CEv Nat) :=
  [.addNode false 1 false, .pool 0 .refill, .pool 0 (.opened 0 none none), .useKs 5, .deliver 0 0,
   .pool 0 (.taskSubmit 0 0), .pool 0 (.serve 0 .ack), .pool 0 (.taskFinish 0), .fanoutFinish 0]
example :
    let c := crun (Cluster.init false 1 : Cluster Nat) evsBefore
    let r := refresh false 1 c [⟨0, 0, 0, 0, true, 0⟩] [⟨0, 0, 0, 1, true⟩]
    (c.fanouts.map (·.resp)) = [some .ok] ∧ c.known = [0] ∧
    r.2 = [⟨0, 0, 0, 1, true, 1⟩] ∧ r.1.known = [1] ∧ (r.1.pools 1).currentKs = some 5 ∧ (r.1.pools 1).conns = [] ∧
    r.1.overlap = false := by decide

end ScyllaVerif.Props.C20Topology

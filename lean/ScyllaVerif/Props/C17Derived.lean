/-
C17 — derived by-name structs (`RowVal.derived`, Model/C17Bind.lean ← `ByName::serialize`,
scylla-cql-core/src/_macro_internal.rs:198-231, and the generated partial struct of `#[derive(SerializeRow)]`,
scylla-macros/src/serialize/row.rs:262-376: one visited flag per field, `remaining_count`, `check_missing`).
For ALL field lists and ALL bind-marker lists (repeated markers included).
-/
import ScyllaVerif.Model.C17Bind

namespace ScyllaVerif.Props.C17Derived
open ScyllaVerif.Cql ScyllaVerif.Carrier ScyllaVerif.Row ScyllaVerif.C17Bind

/-- the counter invariant: `remaining_count` = number of unvisited fields, one flag per field -/
def Inv (fs : List (String × RVal)) (p : Partial) : Prop :=
  p.visited.length = fs.length ∧ p.remaining = p.visited.count false

private theorem count_false_set (l : List Bool) (i : Nat) (hi : i < l.length) (h : l.getD i false = false) :
    (l.set i true).count false + 1 = l.count false := by
  induction l generalizing i with
  | nil => simp at hi
  | cons b bs ih =>
    cases i with
    | zero => simp at h; subst h; simp
    | succ i =>
      have := ih i (by simpa using hi) (by simpa using h)
      cases b <;> simp <;> omega

private theorem fieldIdx_spec (n : String) (fs : List (String × RVal)) (k i : Nat) (v : RVal)
    (h : fieldIdx n fs k = some (i, v)) : k ≤ i ∧ i < k + fs.length ∧ fs[i - k]? = some (n, v) := by
  induction fs generalizing k with
  | nil => simp [fieldIdx] at h
  | cons f fs ih =>
    obtain ⟨a, b⟩ := f
    unfold fieldIdx at h
    split at h
    · rename_i hk; simp at h; obtain ⟨rfl, rfl⟩ := h; subst hk; simp
    · have ⟨h1, h2, h3⟩ := ih (k + 1) h
      refine ⟨by omega, by simp; omega, ?_⟩
      have : i - k = (i - (k + 1)) + 1 := by omega
      rw [this]; simpa using h3

private theorem visit_inv (fs : List (String × RVal)) (p : Partial) (i : Nat) (hi : i < fs.length) (h : Inv fs p) :
    Inv fs (p.visit i) := by
  obtain ⟨hl, hr⟩ := h
  unfold Partial.visit
  split
  · exact ⟨hl, hr⟩
  · rename_i hv
    have hv' : p.visited.getD i false = false := by simpa using hv
    have := count_false_set p.visited i (by omega) hv'
    exact ⟨by simp [hl], by simp; omega⟩

/-- **The counter invariant (behind seed C17-8)**: after EVERY run of the loop — whatever the markers, repeated ones
included, and whether it ends in success or in an error — `remaining_count` is the number of unvisited fields. -/
theorem derived_remaining_count_is_unvisited (fs : List (String × RVal)) :
    ∀ (cols : List Col) (p : Partial) (w : RW), Inv fs p → Inv fs (derivedLoop fs cols p w).2.1 := by
  intro cols
  induction cols with
  | nil => intro p w h; simpa [derivedLoop] using h
  | cons c rest ih =>
    intro p w h
    unfold derivedLoop
    split
    · exact h
    · rename_i i v hidx
      split
      · exact h
      · have ⟨_, h2, _⟩ := fieldIdx_spec _ _ _ _ _ hidx
        exact ih _ _ (visit_inv fs p i (by omega) h)

theorem inv_init (fs : List (String × RVal)) : Inv fs ⟨List.replicate fs.length false, fs.length⟩ := by
  simp [Inv]

/-- the `#(if !visited_i { return Err(..field_i..) })*` chain answers the FIRST unvisited field in declaration order -/
theorem firstUnvisited_spec (fs : List (String × RVal)) (bs : List Bool) (k : String)
    (h : firstUnvisited fs bs = some k) :
    ∃ i : Nat, (fs[i]?).map Prod.fst = some k ∧ bs[i]? = some false ∧ ∀ j : Nat, j < i → bs[j]? = some true := by
  induction fs generalizing bs with
  | nil => simp [firstUnvisited] at h
  | cons f fs ih =>
    cases bs with
    | nil => simp [firstUnvisited] at h
    | cons b bs =>
      obtain ⟨a, v⟩ := f
      unfold firstUnvisited at h
      split at h
      · rename_i hb
        obtain ⟨i, h1, h2, h3⟩ := ih bs h
        refine ⟨i + 1, by simpa using h1, by simpa using h2, ?_⟩
        intro j hj
        cases j with
        | zero => simp [hb]
        | succ j => simpa using h3 j (by omega)
      · rename_i hb
        simp at h; subst h
        exact ⟨0, by simp, by simpa using hb, by intro j hj; omega⟩

/-- **`check_missing` names the FIRST unvisited field in DECLARATION order** (not the lexicographically smallest, as
the by-name MAP rows do): every field declared before the named one was visited, the named one was not. -/
theorem derived_check_missing_names_first_unvisited_in_declaration_order (fs : List (String × RVal)) (p : Partial)
    (e : BindErr) (h : checkMissing fs p = some e) :
    ∃ (i : Nat) (k : String), e = .noColumnWithName k ∧ (fs[i]?).map Prod.fst = some k ∧ p.visited[i]? = some false ∧
      ∀ j : Nat, j < i → p.visited[j]? = some true := by
  unfold checkMissing at h
  split at h
  · simp at h
  · cases hf : firstUnvisited fs p.visited with
    | none => simp [hf] at h
    | some k =>
      simp [hf] at h
      obtain ⟨i, h1, h2, h3⟩ := firstUnvisited_spec fs p.visited k hf
      exact ⟨i, k, h.symm, h1, h2, h3⟩

/-- under the invariant `check_missing` succeeds exactly when every field was visited -/
theorem checkMissing_none_iff (fs : List (String × RVal)) (p : Partial) (h : Inv fs p) :
    checkMissing fs p = none ↔ ∀ i, i < fs.length → p.visited[i]? = some true := by
  obtain ⟨hl, hr⟩ := h
  have key : ∀ (fs : List (String × RVal)) (bs : List Bool), bs.length = fs.length →
      (firstUnvisited fs bs = none ↔ ∀ i, i < fs.length → bs[i]? = some true) := by
    intro fs
    induction fs with
    | nil => intro bs _; simp [firstUnvisited]
    | cons f fs ih =>
      intro bs hb
      cases bs with
      | nil => simp at hb
      | cons b bs =>
        obtain ⟨a, v⟩ := f
        unfold firstUnvisited
        cases b with
        | false => simp; exact ⟨0, by simp, by simp⟩
        | true =>
          simp only [if_true]
          rw [ih bs (by simpa using hb)]
          constructor
          · intro h i hi
            cases i with
            | zero => simp
            | succ i => simpa using h i (by simpa using hi)
          · intro h i hi
            simpa using h (i + 1) (by simpa using hi)
  unfold checkMissing
  split
  · rename_i h0
    have h0' : p.remaining = 0 := by simpa using h0
    have hc : p.visited.count false = 0 := by omega
    simp only [true_iff]
    intro i hi
    have hmem : ¬ false ∈ p.visited := by
      intro hm; have := List.count_pos_iff.2 hm; omega
    have hi' : i < p.visited.length := by omega
    rw [List.getElem?_eq_getElem hi']
    cases hb : p.visited[i] with
    | true => rfl
    | false => exact absurd (hb ▸ List.getElem_mem hi') hmem
  · simp only [Option.map_eq_none_iff]
    exact key fs p.visited hl

private theorem visit_getD (p : Partial) (i j : Nat) (h : (p.visit j).visited[i]? = some true) :
    p.visited[i]? = some true ∨ i = j := by
  unfold Partial.visit at h
  split at h
  · exact .inl h
  · by_cases hij : i = j
    · exact .inr hij
    · left
      simp only at h
      rwa [List.getElem?_set_ne (by omega)] at h

/-- a flag is set only by a marker that names that field -/
theorem derivedLoop_visited_by_marker (fs : List (String × RVal)) :
    ∀ (cols : List Col) (p : Partial) (w : RW) (i : Nat),
      (derivedLoop fs cols p w).2.1.visited[i]? = some true →
      p.visited[i]? = some true ∨ ∃ c, c ∈ cols ∧ ∃ v, fieldIdx c.name fs 0 = some (i, v) := by
  intro cols
  induction cols with
  | nil => intro p w i h; exact .inl (by simpa [derivedLoop] using h)
  | cons c rest ih =>
    intro p w i h
    unfold derivedLoop at h
    split at h
    · exact .inl h
    · rename_i j v hidx
      split at h
      · exact .inl h
      · rcases ih _ _ i h with h' | ⟨c', hc', v', hv'⟩
        · rcases visit_getD p i j h' with h'' | rfl
          · exact .inl h''
          · exact .inr ⟨c, by simp, v, hidx⟩
        · exact .inr ⟨c', by simp [hc'], v', hv'⟩

/-- **Ok ⇒ every declared field was taken**: a successful bind of a derived struct means every field is the name of
some bind marker (whatever the marker list, repeated markers included): no field's value is silently dropped.
`_partial`: "the value is written at EACH marker position naming it" is the loop's definition (`serialize_column` per
marker, `bindCells`-like) and is tied by the differential run (cells compared with C01's encoder), not restated here. -/
theorem derived_byname_every_field_taken_partial (fs : List (String × RVal)) (cols : List Col) (sv : SV)
    (h : fromSerializable (.derived fs) cols = .ok sv) :
    ∀ i (hi : i < fs.length), ∃ c, c ∈ cols ∧ c.name = fs[i].1 := by
  intro i hi
  unfold fromSerializable serializeRow at h
  simp only at h
  have hinv := derived_remaining_count_is_unvisited fs cols _ RW.new (inv_init fs)
  have hvis := derivedLoop_visited_by_marker fs cols ⟨List.replicate fs.length false, fs.length⟩ RW.new i
  generalize derivedLoop fs cols ⟨List.replicate fs.length false, fs.length⟩ RW.new = r at h hinv hvis
  obtain ⟨w', p', e⟩ := r
  cases e with
  | some e => simp at h
  | none =>
    simp only at h hinv hvis
    cases hcm : checkMissing fs p' with
    | some e => simp [hcm] at h
    | none =>
      have hall := (checkMissing_none_iff fs p' hinv).1 hcm i hi
      rcases hvis hall with h0 | ⟨c, hc, v, hv⟩
      · simp [hi] at h0
      · have ⟨_, _, h3⟩ := fieldIdx_spec _ _ _ _ _ hv
        simp only [Nat.sub_zero] at h3
        rw [List.getElem?_eq_getElem hi] at h3
        refine ⟨c, hc, ?_⟩
        have := congrArg Prod.fst (Option.some.inj h3)
        exact this.symm

/-- the loop stops with an error as soon as a marker names no field -/
theorem derivedLoop_unknown_marker (fs : List (String × RVal)) (c : Col) (hc : fieldIdx c.name fs 0 = none) :
    ∀ (cols : List Col) (p : Partial) (w : RW), c ∈ cols → (derivedLoop fs cols p w).2.2 ≠ none := by
  intro cols
  induction cols with
  | nil => intro p w h; simp at h
  | cons c' rest ih =>
    intro p w hmem
    unfold derivedLoop
    split
    · simp
    · rename_i j v hidx
      split
      · simp
      · rcases List.mem_cons.1 hmem with rfl | hr
        · rw [hc] at hidx; simp at hidx
        · exact ih _ _ hr

/-- **A marker naming no field is rejected**: what the code does — the markers before it are serialized into the
writer (cells appended, flags set), at the unknown marker `serialize_field` answers `NotUsed` and `ByName::serialize`
returns `ValueMissingForColumn{that marker}` (or an earlier marker's column error came first); `check_missing` is not
reached; `from_serializable` drops the writer: NO `SerializedValues` exists. -/
theorem derived_unknown_marker_rejected (fs : List (String × RVal)) (cols : List Col) (c : Col) (hmem : c ∈ cols)
    (hc : fieldIdx c.name fs 0 = none) : ∃ e, fromSerializable (.derived fs) cols = .error e := by
  have h := derivedLoop_unknown_marker fs c hc cols ⟨List.replicate fs.length false, fs.length⟩ RW.new hmem
  unfold fromSerializable serializeRow
  simp only
  generalize derivedLoop fs cols ⟨List.replicate fs.length false, fs.length⟩ RW.new = r at h
  obtain ⟨w', p', e⟩ := r
  cases e with
  | none => simp at h
  | some e => exact ⟨e, by simp⟩

/-- … and when it is the FIRST marker that names no field, the error is `ValueMissingForColumn` of exactly it, with
the writer untouched. -/
theorem derived_unknown_first_marker (fs : List (String × RVal)) (c : Col) (rest : List Col) (p : Partial) (w : RW)
    (hc : fieldIdx c.name fs 0 = none) :
    derivedLoop fs (c :: rest) p w = (w, p, some (.valueMissingForColumn c.name)) := by
  unfold derivedLoop; rw [hc]

/-- **Ok ⇒ the markers name exactly the declared fields**: every marker takes the value of a declared field of its name
(contrapositive of `derived_unknown_marker_rejected`) and every declared field is named by a marker. -/
theorem derived_byname_ok_names_eq (fs : List (String × RVal)) (cols : List Col) (sv : SV)
    (h : fromSerializable (.derived fs) cols = .ok sv) (n : String) :
    n ∈ cols.map (·.name) ↔ n ∈ fs.map Prod.fst := by
  constructor
  · intro hn
    obtain ⟨c, hc, rfl⟩ := List.mem_map.1 hn
    cases hidx : fieldIdx c.name fs 0 with
    | none =>
      obtain ⟨e, he⟩ := derived_unknown_marker_rejected fs cols c hc hidx
      rw [he] at h; cases h
    | some iv =>
      obtain ⟨i, v⟩ := iv
      have ⟨_, _, h3⟩ := fieldIdx_spec _ _ _ _ _ hidx
      exact List.mem_map.2 ⟨(c.name, v), List.mem_of_getElem? h3, rfl⟩
  · intro hn
    obtain ⟨f, hf, rfl⟩ := List.mem_map.1 hn
    obtain ⟨i, hi, rfl⟩ := List.getElem_of_mem hf
    obtain ⟨c, hc, hcn⟩ := derived_byname_every_field_taken_partial fs cols sv h i hi
    exact List.mem_map.2 ⟨c, hc, hcn⟩

/-- **The full statement for marker lists WITHOUT repeated names** (field names distinct, as Rust requires): Ok ⇒ the
marker names are a PERMUTATION of the declared field names — each field is taken by exactly one marker, each marker
takes exactly one field. -/
theorem derived_byname_every_field_taken (fs : List (String × RVal)) (cols : List Col) (sv : SV)
    (hc : (cols.map (·.name)).Nodup) (hf : (fs.map Prod.fst).Nodup)
    (h : fromSerializable (.derived fs) cols = .ok sv) :
    (cols.map (·.name)).Perm (fs.map Prod.fst) ∧ cols.length = fs.length := by
  have hp : (cols.map (·.name)).Perm (fs.map Prod.fst) :=
    (List.perm_ext_iff_of_nodup hc hf).2 (fun n => derived_byname_ok_names_eq fs cols sv h n)
  exact ⟨hp, by simpa using hp.length_eq⟩

/-! non-vacuity on the fields `[c, b, a]` (declaration order = reverse alphabetical). -/
private def cba : List (String × RVal) :=
  [("c", .scalar .i32 [0, 0, 0, 3]), ("b", .scalar .str [98]), ("a", .scalar .i32 [0, 0, 0, 1])]
private def mk (n : String) (t : CqlTy) : Col := ⟨n, t⟩
private def cols3 : List Col := [mk "a" (.native .int), mk "c" (.native .int), mk "b" (.native .text)]
-- all three markers, in another order and with `a` repeated: accepted, 4 cells
example : (match fromSerializable (.derived cba) [mk "a" (.native .int), mk "c" (.native .int), mk "a" (.native .int), mk "b" (.native .text)] with
    | .ok sv => sv.count | .error _ => 99) = 4 := by decide
example : (cols3.map (·.name)).Nodup ∧ (cba.map Prod.fst).Nodup ∧
    (match fromSerializable (.derived cba) cols3 with | .ok _ => true | .error _ => false) = true := by decide
-- markers `a, a`: two columns serialized, fields c and b unvisited: the error names `c` (declared first), not `b`
example : (match fromSerializable (.derived cba) [mk "a" (.native .int), mk "a" (.native .int)] with
    | .error e => e | .ok _ => .tooManyValues) = .noColumnWithName "c" := by decide
example : (derivedLoop cba [mk "a" (.native .int), mk "a" (.native .int)] ⟨[false, false, false], 3⟩ RW.new).2.1.remaining = 2 := by
  decide
-- a marker naming no field
example : (match fromSerializable (.derived cba) [mk "a" (.native .int), mk "zz" (.native .int)] with
    | .error e => e | .ok _ => .tooManyValues) = .valueMissingForColumn "zz" := by decide

end ScyllaVerif.Props.C17Derived

/-
C04 — computed replica sets equal the cluster's own replica placement.
Property theorems only (helpers are `private` or live in `Proofs/Ring.lean`, `Proofs/Replicas.lean`).
Models: `Model/Ring.lean`, `Model/Replicas.lean`.

Every theorem quantifies over all rings sorted by token (`Sorted r`, what `TokenRing::new` establishes —
`mkRing_sorted`), all node placements, all tokens, all replication factors and all sets `S` of precomputed
keyspace strategies.  Since the repair ad6cb90 (`partition_point`) no hypothesis about duplicate tokens is
needed: members owning the same token are walked first owner first, consistently in every ring.
-/
import ScyllaVerif.Model.Replicas
import ScyllaVerif.Model.Refresh
import ScyllaVerif.Model.C04Fetch
import ScyllaVerif.Proofs.Ring
import ScyllaVerif.Proofs.Replicas

namespace ScyllaVerif.Props.C04
open ScyllaVerif.Ring ScyllaVerif.Replicas ScyllaVerif.Proofs.Ring ScyllaVerif.Proofs.Replicas

/-! ### the placement rules as the property states them -/

/-- Distinct elements in order of first appearance, written as a plain recursion (independent of the
seen-set formulation of `uniq`). -/
def distinct {α : Type} [DecidableEq α] : List α → List α
  | [] => []
  | a :: l => a :: (distinct l).filter (fun b => decide (b ≠ a))

/-- The nodes met clockwise from the token: owners of tokens `≥ tok` in ascending order, then the rest. -/
def nodesClockwise (r : Ring Node) (tok : Int) : List Node := distinct ((clockwise r tok).map (·.2))

/-- SimpleStrategy: the first RF distinct nodes clockwise from the token. -/
def specSimple (r : Ring Node) (rf : Nat) (tok : Int) : List Node := (nodesClockwise r tok).take rf

/-- How many of the taken nodes repeated a rack. -/
def repeatsUsed (taken : List Node) : Nat := taken.length - (distinct (taken.map (·.rack))).length

/-- One step of the NTS rule: until `target` nodes are found, take a node if its rack is new or if rack
repeats are still allowed. -/
def specNtsStep (target allowed : Nat) (taken : List Node) (n : Node) : List Node :=
  if taken.length < target ∧ (n.rack ∉ taken.map (·.rack) ∨ repeatsUsed taken < allowed)
  then taken ++ [n] else taken

/-- NetworkTopologyStrategy in one datacenter: walk that datacenter's nodes clockwise, take a node if its rack
is new or rack repeats are still allowed (RF minus rack count, saturating), until `min(RF, nodes)` are found.
A missing rack counts as a rack value. -/
def specNtsDc (r : Ring Node) (tok : Int) (dc rf : Nat) : List Node :=
  let nodes := nodesClockwise (dcRing r dc) tok
  let racks := (distinct (nodes.map (·.rack))).length
  nodes.foldl (specNtsStep (min rf nodes.length) (rf - racks)) []

/-- The locator `ReplicaLocator::new` builds for ring `r` when the keyspace strategies are `S`. -/
abbrev locOf (r : Ring Node) (S : List Strategy) : Locator := ⟨r, precompute r S⟩

/-! ### helpers -/

private theorem distinct_eq_uniq {α : Type} [DecidableEq α] (l : List α) : distinct l = uniq l := by
  induction l with
  | nil => rfl
  | cons a l ih =>
    unfold distinct uniq
    rw [uniqFrom, if_neg (by simp), ih, uniqFrom_cons_seen]
    rfl

private theorem uniq_length_append_old {α : Type} [DecidableEq α] {l : List α} {a : α} (h : a ∈ l) :
    (uniq (l ++ [a])).length = (uniq l).length := by
  apply uniq_length_congr
  intro b; simp only [List.mem_append, List.mem_singleton]
  constructor
  · rintro (h' | rfl); exact h'; exact h
  · exact Or.inl

private theorem uniq_length_append_new {α : Type} [DecidableEq α] {l : List α} {a : α} (h : a ∉ l) :
    (uniq (l ++ [a])).length = (uniq l).length + 1 := by
  have h1 : (uniq (l ++ [a])).length = (uniq (a :: l)).length := by
    apply uniq_length_congr
    intro b; simp only [List.mem_append, List.mem_cons, List.not_mem_nil, or_false]
    exact Or.comm
  rw [h1]
  unfold uniq
  rw [uniqFrom, if_neg (by simp), uniqFrom_cons_seen, List.length_cons]
  congr 1
  congr 1
  apply List.filter_eq_self.mpr
  intro b hb
  have : b ∈ l := mem_uniq.mp hb
  simp only [decide_eq_true_eq]
  intro hba; subst hba; exact h this

private theorem foldl_full (target allowed : Nat) (rest taken : List Node) (h : target ≤ taken.length) :
    rest.foldl (specNtsStep target allowed) taken = taken := by
  induction rest with
  | nil => rfl
  | cons n rest ih =>
    rw [List.foldl_cons]
    have : specNtsStep target allowed taken n = taken := by
      unfold specNtsStep; rw [if_neg (by omega)]
    rw [this, ih]

/-- The iterator's bookkeeping (`replicas_left_to_find`, `used_racks`, `acceptable_repeats`) implements the
stated rule: refinement invariant between the walk and the fold over `specNtsStep`. -/
private theorem walk_refines (target allowed : Nat) (rest taken : List Node) (used : List (Option Nat))
    (left repeats : Nat)
    (hu : ∀ k, k ∈ used ↔ k ∈ taken.map (·.rack))
    (hl : left + taken.length = target)
    (hr : repeats + repeatsUsed taken = allowed) :
    taken ++ ntsWalk left used repeats rest = rest.foldl (specNtsStep target allowed) taken := by
  induction rest generalizing taken used left repeats with
  | nil => simp [ntsWalk]
  | cons n rest ih =>
    have hD : (uniq (taken.map (·.rack))).length ≤ taken.length := by
      have := uniq_length_le (taken.map (·.rack)); simpa using this
    rw [List.foldl_cons]
    unfold ntsWalk
    by_cases h0 : left = 0
    · rw [if_pos h0, List.append_nil]
      have : specNtsStep target allowed taken n = taken := by
        unfold specNtsStep; rw [if_neg (by omega)]
      rw [this, foldl_full _ _ _ _ (by omega)]
    · rw [if_neg h0]
      by_cases hk : n.rack ∈ used
      · have hkt : n.rack ∈ taken.map (·.rack) := (hu _).mp hk
        rw [if_neg (by simpa using hk)]
        by_cases hp : repeats > 0
        · rw [if_pos hp]
          have hstep : specNtsStep target allowed taken n = taken ++ [n] := by
            unfold specNtsStep; rw [if_pos ⟨by omega, Or.inr (by omega)⟩]
          rw [hstep, ← ih (taken ++ [n]) used (left - 1) (repeats - 1)]
          · simp
          · intro k; rw [hu k]; simp only [List.map_append, List.map_cons, List.map_nil, List.mem_append,
              List.mem_singleton]
            constructor
            · exact Or.inl
            · rintro (h | rfl); exact h; exact hkt
          · simp only [List.length_append, List.length_cons, List.length_nil]; omega
          · unfold repeatsUsed at hr ⊢
            rw [distinct_eq_uniq] at hr ⊢
            rw [List.map_append, List.map_cons, List.map_nil, uniq_length_append_old hkt]
            simp only [List.length_append, List.length_cons, List.length_nil]; omega
        · rw [if_neg hp]
          have hstep : specNtsStep target allowed taken n = taken := by
            unfold specNtsStep
            rw [if_neg]
            rintro ⟨_, h | h⟩
            · exact h hkt
            · omega
          rw [hstep]
          exact ih taken used left repeats hu hl hr
      · have hkt : n.rack ∉ taken.map (·.rack) := fun h => hk ((hu _).mpr h)
        rw [if_pos (by simpa using hk)]
        have hstep : specNtsStep target allowed taken n = taken ++ [n] := by
          unfold specNtsStep; rw [if_pos ⟨by omega, Or.inl hkt⟩]
        rw [hstep, ← ih (taken ++ [n]) (n.rack :: used) (left - 1) repeats]
        · simp
        · intro k; simp only [List.mem_cons, hu k, List.map_append, List.map_cons, List.map_nil,
            List.mem_append, List.not_mem_nil, or_false]
          constructor
          · rintro (h | h); exact Or.inr h; exact Or.inl h
          · rintro (h | h); exact Or.inr h; exact Or.inl h
        · simp only [List.length_append, List.length_cons, List.length_nil]; omega
        · unfold repeatsUsed at hr ⊢
          rw [distinct_eq_uniq] at hr ⊢
          rw [List.map_append, List.map_cons, List.map_nil, uniq_length_append_new hkt]
          simp only [List.length_append, List.length_cons, List.length_nil]; omega

private theorem ringRange_cw {r : Ring Node} (hs : Sorted r) (tok : Int) :
    ringRange r tok = (clockwise r tok).map (·.2) := by
  unfold ringRange; rw [ringRangeFull_eq_clockwise hs]

private theorem simple_spec_aux {r : Ring Node} (hs : Sorted r) (tok : Int) (rf : Nat) :
    simpleReplicas r tok rf = specSimple r rf tok := by
  unfold simpleReplicas specSimple nodesClockwise
  rw [distinct_eq_uniq, ← ringRange_cw hs, ← ringNodes_length r tok]
  rw [List.take_eq_take_iff]
  omega

private theorem nts_spec_aux {r : Ring Node} (hs : Sorted r) (tok : Int) (dc rf : Nat) :
    ntsReplicas r tok dc rf = specNtsDc r tok dc rf := by
  rw [ntsReplicas_def]
  unfold specNtsDc nodesClockwise
  simp only []
  rw [distinct_eq_uniq, distinct_eq_uniq, ← ringRange_cw (sorted_dcRing hs dc)]
  have := walk_refines (min rf (dcNodes r tok dc).length) (rf - newRacks [] (dcNodes r tok dc))
    (dcNodes r tok dc) [] [] (min rf (dcNodes r tok dc).length) (rf - newRacks [] (dcNodes r tok dc))
    (by simp) (by simp) (by simp [repeatsUsed, distinct])
  rw [List.nil_append] at this
  exact this

/-! ### headline: what the driver reports = the placement rule, end to end

`locOf r S` is the locator the driver builds (`mkLocator_eq`), `r` any ring sorted by token (`ring_sorted`: every ring
`TokenRing::new` builds is), `S` any set of keyspace strategies that were precomputed — the queried strategy may
or may not be among them.  `Sorted r` is where the meaning of the rule sits: "clockwise from the token"
(`clockwise`: owners of tokens `≥ tok` in list order, then the others) is the ring walk only on a sorted ring. -/

/-- **SimpleStrategy**: the replicas reported by `replicas_for_token` (iteration order) are the first RF distinct
nodes clockwise from the token — every RF (0, above the node count), precomputed or not. -/
theorem replicas_simple_eq_spec {r : Ring Node} (hs : Sorted r) (S : List Strategy) (tok : Int) (rf : Nat) :
    (replicasForToken (locOf r S) tok (.simple rf) none).iter (locOf r S) = specSimple r rf tok := by
  simp only [replicasForToken, ReplicaSet.iter]
  rw [getSimple_precompute hs, simple_spec_aux hs]

/-- SimpleStrategy restricted to a datacenter: the rule's list filtered by that datacenter, same order. -/
theorem replicas_simple_dc_eq_spec {r : Ring Node} (hs : Sorted r) (S : List Strategy) (tok : Int) (rf d : Nat) :
    (replicasForToken (locOf r S) tok (.simple rf) (some d)).iter (locOf r S) =
      (specSimple r rf tok).filter (fun n => decide (n.dc = some d)) := by
  simp only [replicasForToken, ReplicaSet.iter]
  rw [getSimple_precompute hs, simple_spec_aux hs]

/-- **NetworkTopologyStrategy, one datacenter**: the replicas reported for datacenter `d` are the rack-aware walk
of that datacenter's nodes as the property states it (RF 0, RF around the rack count and above the node
count, datacenter absent from the ring included); a datacenter the strategy does not mention has none. -/
theorem replicas_nts_dc_eq_spec {r : Ring Node} (hs : Sorted r) (S : List Strategy) (tok : Int)
    (repf : List (Nat × Nat)) (d : Nat) :
    (replicasForToken (locOf r S) tok (.nts repf) (some d)).iter (locOf r S) =
      match repf.lookup d with
      | some rf => specNtsDc r tok d rf
      | none => [] := by
  simp only [replicasForToken]
  cases repf.lookup d with
  | none => rfl
  | some rf =>
    simp only [ReplicaSet.iter]
    rw [getNts_precompute hs, nts_spec_aux hs]

/-- **NetworkTopologyStrategy, all datacenters**, as an ordered list: the ring's datacenters in order of first
appearance on the ring (from the lowest token), each contributing its rack-aware walk with the strategy's RF
for it (0 if the strategy does not mention it).  As a set this is the union over the strategy's datacenters
(`nts_unrestricted_eq_spec`). -/
theorem replicas_nts_eq_spec {r : Ring Node} (hs : Sorted r) (S : List Strategy) (tok : Int)
    (repf : List (Nat × Nat)) :
    (replicasForToken (locOf r S) tok (.nts repf) none).iter (locOf r S) =
      (uniq (r.filterMap (·.2.dc))).flatMap (fun dc => specNtsDc r tok dc ((repf.lookup dc).getD 0)) := by
  have hN := fun t d rf => getNts_precompute hs S t d rf
  simp only [replicasForToken, ReplicaSet.iter, hN, Locator.datacenters, nts_spec_aux hs]

theorem mkLocator_eq (entries : List (Int × Node)) (S : List Strategy) :
    mkLocator entries S = locOf (mkRing entries) S := rfl

/-- `TokenRing::new` yields a sorted ring, so the hypothesis `Sorted r` of the theorems below holds for every
ring the driver builds. -/
theorem ring_sorted (entries : List (Int × Node)) : Sorted (mkRing entries) := mkRing_sorted entries

/-! ### the ring walk -/

/-- On every sorted ring (duplicate tokens allowed) `ring_range` is "clockwise from the token". -/
theorem ringRange_eq_clockwise {r : Ring Node} (hs : Sorted r) (tok : Int) :
    ringRange r tok = (clockwise r tok).map (·.2) := ringRange_cw hs tok

/-- **Snap**: every token of an interval has the answer of the ring member the walk starts at (this is why
one precomputed entry per ring token suffices). -/
theorem ringRange_snap {r : Ring Node} (hs : Sorted r) (tok : Int) (e : Int × Node)
    (he : (ringRangeFull r tok).head? = some e) : ringRange r e.1 = ringRange r tok := by
  unfold ringRange; rw [ringRangeFull_snap hs tok e he]

/-- Each datacenter ring is walked consistently with the global ring. -/
theorem dcRing_range_eq_filter {r : Ring Node} (hs : Sorted r) (tok : Int) (dc : Nat) :
    ringRange (dcRing r dc) tok = (ringRange r tok).filter (fun n => decide (n.dc = some dc)) :=
  ringRange_dcRing hs tok dc

/-! ### the driver's walks compute the stated placement rules -/

/-- SimpleStrategy: the driver's list is the first RF distinct nodes clockwise from the token
(every RF, including 0 and RF above the node count). -/
theorem simple_eq_spec {r : Ring Node} (hs : Sorted r) (tok : Int) (rf : Nat) :
    simpleReplicas r tok rf = specSimple r rf tok := simple_spec_aux hs tok rf

/-- **Size**: a datacenter contributes exactly `min(RF, nodes in that datacenter)` replicas — for every ring
(no hypothesis), rack layout and RF. -/
theorem nts_len (r : Ring Node) (tok : Int) (dc rf : Nat) :
    (ntsReplicas r tok dc rf).length = min rf (uniqueNodes (dcRing r dc)).length :=
  ntsReplicas_length r tok dc rf

/-- NetworkTopologyStrategy, one datacenter: the driver's iterator computes the stated rule. -/
theorem nts_eq_spec {r : Ring Node} (hs : Sorted r) (tok : Int) (dc rf : Nat) :
    ntsReplicas r tok dc rf = specNtsDc r tok dc rf := nts_spec_aux hs tok dc rf

/-- The replicas of a datacenter are nodes of that datacenter, each at most once, in ring order. -/
theorem nts_members (r : Ring Node) (tok : Int) (dc rf : Nat) :
    (ntsReplicas r tok dc rf).Nodup ∧ (∀ n ∈ ntsReplicas r tok dc rf, n.dc = some dc) ∧
      (ntsReplicas r tok dc rf).Sublist (uniq (ringRange (dcRing r dc) tok)) :=
  ⟨ntsReplicas_nodup r tok dc rf, fun _ h => (mem_ntsReplicas h).1, ntsReplicas_sublist r tok dc rf⟩

/-! ### prefix properties (what the precomputation relies on) -/

/-- SimpleStrategy lists for a smaller RF are prefixes of those for a larger RF. -/
theorem simple_prefix (r : Ring Node) (tok : Int) {rf rf' : Nat} (h : rf ≤ rf') :
    simpleReplicas r tok rf <+: simpleReplicas r tok rf' := by
  rw [← simpleReplicas_take r tok h]
  exact List.take_prefix _ _

/-- NTS lists: up to the rack count a smaller RF gives a prefix — the property that justifies the
"compressed" precomputed list. -/
theorem nts_prefix (r : Ring Node) (tok : Int) (dc : Nat) {rf rf' : Nat} (h : rf ≤ rf') (h' : rf' ≤ rackCount r dc) :
    ntsReplicas r tok dc rf <+: ntsReplicas r tok dc rf' :=
  ntsReplicas_prefix r tok dc h h'

/-! ### precomputed = on the fly -/

/-- SimpleStrategy: the answer through the locator (precomputed prefix lookup or on-the-fly fallback) is the
on-the-fly walk, whatever strategies `S` were precomputed, for every RF and token. -/
theorem precomputed_eq_onthefly_simple {r : Ring Node} (hs : Sorted r) (S : List Strategy) (tok : Int) (rf : Nat) :
    getSimple (locOf r S) tok rf = simpleReplicas r tok rf :=
  getSimple_precompute hs S tok rf

/-- NTS, one datacenter: likewise (compressed list, per-RF lists above the rack count, fallback; datacenters
absent from the ring or from `S`; RF 0). -/
theorem precomputed_eq_onthefly_nts {r : Ring Node} (hs : Sorted r) (S : List Strategy) (tok : Int) (dc rf : Nat) :
    getNts (locOf r S) tok dc rf = ntsReplicas r tok dc rf :=
  getNts_precompute hs S tok dc rf

/-- Hence every view of every replica set is independent of what was precomputed. -/
theorem precomputed_eq_onthefly {r : Ring Node} (hs : Sorted r) (S S' : List Strategy) (tok : Int)
    (strat : Strategy) (dc : Option Nat) :
    let rs := replicasForToken (locOf r S) tok strat dc
    let rs' := replicasForToken (locOf r S') tok strat dc
    rs.len (locOf r S) = rs'.len (locOf r S') ∧ rs.iter (locOf r S) = rs'.iter (locOf r S') ∧
      (∀ i, rs.choose (locOf r S) i = rs'.choose (locOf r S') i) ∧ rs.ordered (locOf r S) = rs'.ordered (locOf r S') := by
  have hS := fun t rf => getSimple_precompute hs S t rf
  have hS' := fun t rf => getSimple_precompute hs S' t rf
  have hN := fun t d rf => getNts_precompute hs S t d rf
  have hN' := fun t d rf => getNts_precompute hs S' t d rf
  have hch : ∀ (repf : List (Nat × Nat)) (D : List Nat) (i : Nat),
      chooseNts (locOf r S) repf tok D i = chooseNts (locOf r S') repf tok D i := by
    intro repf D
    induction D with
    | nil => intro i; rfl
    | cons d D ih => intro i; unfold chooseNts; simp only [hN, hN', dcNodeCount, ih]
  cases strat with
  | nts repf =>
    cases dc with
    | none =>
      simp only [replicasForToken, ReplicaSet.len, ReplicaSet.iter, ReplicaSet.choose, ReplicaSet.ordered,
        orderedNts, hN, hN', dcNodeCount, Locator.datacenters, hch]
      first | done | exact ⟨trivial, trivial, fun _ => trivial, trivial⟩ | exact ⟨trivial, trivial, fun _ => rfl, trivial⟩
    | some d =>
      simp only [replicasForToken, hN, hN']
      cases repf.lookup d <;>
        simp only [ReplicaSet.len, ReplicaSet.iter, ReplicaSet.choose, ReplicaSet.ordered] <;>
        first | done | exact ⟨trivial, trivial, fun _ => trivial, trivial⟩ | exact ⟨trivial, trivial, fun _ => rfl, trivial⟩
  | simple rf =>
    cases dc <;>
      simp only [replicasForToken, hS, hS', ReplicaSet.len, ReplicaSet.iter, ReplicaSet.choose,
        ReplicaSet.ordered] <;>
      first | done | exact ⟨trivial, trivial, fun _ => trivial, trivial⟩ | exact ⟨trivial, trivial, fun _ => rfl, trivial⟩
  | localStrategy =>
    cases dc <;>
      simp only [replicasForToken, hS, hS', ReplicaSet.len, ReplicaSet.iter, ReplicaSet.choose,
        ReplicaSet.ordered] <;>
      first | done | exact ⟨trivial, trivial, fun _ => trivial, trivial⟩ | exact ⟨trivial, trivial, fun _ => rfl, trivial⟩
  | other =>
    cases dc <;>
      simp only [replicasForToken, hS, hS', ReplicaSet.len, ReplicaSet.iter, ReplicaSet.choose,
        ReplicaSet.ordered] <;>
      first | done | exact ⟨trivial, trivial, fun _ => trivial, trivial⟩ | exact ⟨trivial, trivial, fun _ => rfl, trivial⟩

/-! ### restricting to a datacenter = filtering the unrestricted answer -/

private theorem filter_flatMap_dc (D : List Nat) (hD : D.Nodup) (F : Nat → List Node)
    (hF : ∀ dc, ∀ n ∈ F dc, n.dc = some dc) (d : Nat) :
    (D.flatMap F).filter (fun n => decide (n.dc = some d)) = if d ∈ D then F d else [] := by
  induction D with
  | nil => simp
  | cons a D ih =>
    rw [List.nodup_cons] at hD
    rw [List.flatMap_cons, List.filter_append, ih hD.2]
    by_cases had : a = d
    · subst had
      have h1 : (F a).filter (fun n => decide (n.dc = some a)) = F a :=
        List.filter_eq_self.mpr (by intro n hn; simpa using hF a n hn)
      rw [h1, if_neg hD.1, List.append_nil, if_pos List.mem_cons_self]
    · have h1 : (F a).filter (fun n => decide (n.dc = some d)) = [] :=
        List.filter_eq_nil_iff.mpr (by
          intro n hn; have := hF a n hn; simp only [decide_eq_true_eq]; rw [this]
          intro h; exact had (Option.some.inj h))
      have : (d ∈ a :: D) ↔ d ∈ D := by
        simp only [List.mem_cons]; constructor
        · rintro (h | h); exact absurd h.symm had; exact h
        · exact Or.inr
      rw [h1, List.nil_append]
      simp only [this]

/-- SimpleStrategy (also the `Local` / `Other` fallback): the restricted set iterates exactly the unrestricted
list filtered by the datacenter, in the same order. -/
theorem dc_restrict_eq_filter_simple (loc : Locator) (tok : Int) (strat : Strategy) (d : Nat)
    (h : ∀ repf, strat ≠ .nts repf) :
    (replicasForToken loc tok strat (some d)).iter loc =
      ((replicasForToken loc tok strat none).iter loc).filter (fun n => decide (n.dc = some d)) := by
  cases strat with
  | nts repf => exact absurd rfl (h repf)
  | simple rf => rfl
  | localStrategy => rfl
  | other => rfl

/-- NetworkTopologyStrategy: the restricted set is the unrestricted one filtered by the datacenter — even as
lists (hence as sets); an unknown datacenter or one absent from the strategy gives the empty set. -/
theorem dc_restrict_eq_filter_nts {r : Ring Node} (hs : Sorted r) (S : List Strategy) (tok : Int)
    (repf : List (Nat × Nat)) (d : Nat) :
    (replicasForToken (locOf r S) tok (.nts repf) (some d)).iter (locOf r S) =
      ((replicasForToken (locOf r S) tok (.nts repf) none).iter (locOf r S)).filter
        (fun n => decide (n.dc = some d)) := by
  have hN := fun t d rf => getNts_precompute hs S t d rf
  simp only [replicasForToken, ReplicaSet.iter, hN, Locator.datacenters]
  rw [filter_flatMap_dc _ (uniq_nodup _) _ (fun dc n hn => (mem_ntsReplicas hn).1) d]
  cases hl : repf.lookup d with
  | none =>
    simp only [Option.getD_none, ntsReplicas_zero]
    split <;> rfl
  | some rf =>
    simp only [Option.getD_some]
    split
    · rfl
    · rename_i hd
      -- no member of the ring is in datacenter d
      have : dcRing r d = [] := by
        unfold dcRing
        apply List.filter_eq_nil_iff.mpr
        intro e he hdc
        apply hd
        rw [mem_uniq, List.mem_filterMap]
        exact ⟨e, he, by simpa using hdc⟩
      unfold ntsReplicas
      rw [this]
      simp [ringRange, ringRangeFull, rotateAt, uniq, uniqFrom, ntsWalk]

/-! ### the views of one replica set describe the same nodes -/

private theorem guard_getElem {α : Type} (l : List α) (i : Nat) :
    (if l.length = 0 then none else l[i]?) = l[i]? := by
  by_cases h : l.length = 0
  · rw [if_pos h, List.length_eq_zero_iff.mp h]; rfl
  · rw [if_neg h]

/-- **Views agree.** For every strategy, datacenter restriction, token and precomputed set: the iteration has
`len` elements; `choose` with random index `i` returns the `i`-th iterated replica (so every replica can be
chosen and nothing else); the ring-ordered view is a permutation of the iteration and is in ring order (a
subsequence of the distinct nodes met clockwise from the token).  (Before the repair cef891a / F6 the third
part failed for an NTS entry with RF 0, before ad6cb90 / F8 for a token owned in two datacenters.) -/
theorem views_agree {r : Ring Node} (hs : Sorted r) (S : List Strategy) (tok : Int) (strat : Strategy)
    (hk : ∀ repf, strat = .nts repf → (repf.map (·.1)).Nodup) (dc : Option Nat) :
    let loc := locOf r S
    let rs := replicasForToken loc tok strat dc
    (rs.iter loc).length = rs.len loc ∧ (∀ i, rs.choose loc i = (rs.iter loc)[i]?) ∧
      (rs.ordered loc).Perm (rs.iter loc) ∧ (rs.ordered loc).Sublist (uniq (ringRange r tok)) := by
  have hS := fun t rf => getSimple_precompute hs S t rf
  have hN := fun t d rf => getNts_precompute hs S t d rf
  -- the three simple shapes
  have plain : ∀ l : List Node, l.Sublist (uniq (ringRange r tok)) →
      ((ReplicaSet.plain l).iter (locOf r S)).length = (ReplicaSet.plain l).len (locOf r S) ∧
      (∀ i, (ReplicaSet.plain l).choose (locOf r S) i = ((ReplicaSet.plain l).iter (locOf r S))[i]?) ∧
      ((ReplicaSet.plain l).ordered (locOf r S)).Perm ((ReplicaSet.plain l).iter (locOf r S)) ∧
      ((ReplicaSet.plain l).ordered (locOf r S)).Sublist (uniq (ringRange r tok)) := by
    intro l hl
    refine ⟨rfl, ?_, List.Perm.refl _, hl⟩
    intro i
    simp only [ReplicaSet.choose, ReplicaSet.len, ReplicaSet.iter]
    exact guard_getElem _ i
  have filtered : ∀ (l : List Node) (d : Nat), l.Sublist (uniq (ringRange r tok)) →
      ((ReplicaSet.filteredSimple l d).iter (locOf r S)).length = (ReplicaSet.filteredSimple l d).len (locOf r S) ∧
      (∀ i, (ReplicaSet.filteredSimple l d).choose (locOf r S) i = ((ReplicaSet.filteredSimple l d).iter (locOf r S))[i]?) ∧
      ((ReplicaSet.filteredSimple l d).ordered (locOf r S)).Perm ((ReplicaSet.filteredSimple l d).iter (locOf r S)) ∧
      ((ReplicaSet.filteredSimple l d).ordered (locOf r S)).Sublist (uniq (ringRange r tok)) := by
    intro l d hl
    refine ⟨rfl, ?_, List.Perm.refl _, List.Sublist.trans List.filter_sublist hl⟩
    intro i
    simp only [ReplicaSet.choose, ReplicaSet.len, ReplicaSet.iter]
    exact guard_getElem _ i
  have hsimple : ∀ rf, (simpleReplicas r tok rf).Sublist (uniq (ringRange r tok)) := fun rf => List.take_sublist _ _
  cases strat with
  | simple rf =>
    cases dc with
    | none => simp only [replicasForToken, hS]; exact plain _ (hsimple rf)
    | some d => simp only [replicasForToken, hS]; exact filtered _ d (hsimple rf)
  | localStrategy =>
    cases dc with
    | none => simp only [replicasForToken, hS]; exact plain _ (hsimple 1)
    | some d => simp only [replicasForToken, hS]; exact filtered _ d (hsimple 1)
  | other =>
    cases dc with
    | none => simp only [replicasForToken, hS]; exact plain _ (hsimple 1)
    | some d => simp only [replicasForToken, hS]; exact filtered _ d (hsimple 1)
  | nts repf =>
    cases dc with
    | some d =>
      simp only [replicasForToken]
      cases repf.lookup d with
      | none => exact plain [] (List.nil_sublist _)
      | some rf =>
        simp only [hN]
        apply plain
        refine List.Sublist.trans (ntsReplicas_sublist r tok d rf) ?_
        rw [dcNodes_eq_filter hs]
        exact List.filter_sublist
    | none =>
      have hk' := hk repf rfl
      have hiter : (ReplicaSet.chainedNts repf tok).iter (locOf r S) = ntsIter r repf tok := by
        simp only [ReplicaSet.iter, hN, Locator.datacenters, ntsIter]
      have hord : (ReplicaSet.chainedNts repf tok).ordered (locOf r S) = ntsOrdered r repf tok := by
        simp only [ReplicaSet.ordered, orderedNts, hN]; rfl
      have hlen : ((ReplicaSet.chainedNts repf tok).iter (locOf r S)).length =
          (ReplicaSet.chainedNts repf tok).len (locOf r S) := by
        rw [hiter]
        simp only [ReplicaSet.len, ntsIter]
        rw [List.length_flatMap]
        have := sum_reindex repf hk' (locOf r S).datacenters (uniq_nodup _)
          (fun dc rf => min rf (dcNodeCount (locOf r S) dc)) (by intro dc; simp)
          (by intro dc rf hdc; rw [dcNodeCount_zero hdc]; simp)
        rw [this]
        simp only [Locator.datacenters, dcNodeCount, ntsReplicas_length]
      simp only [replicasForToken]
      refine ⟨hlen, ?_, ?_, ?_⟩
      · intro i
        simp only [ReplicaSet.choose]
        split
        · rename_i h0
          rw [← hlen] at h0
          rw [List.length_eq_zero_iff.mp h0]; rfl
        · rw [hiter]
          unfold ntsIter
          apply chooseNts_eq
          · intro dc
            rw [hN]
            exact ntsReplicas_clamp r tok dc _
          · intro dc
            rw [ntsReplicas_length]; rfl
      · rw [hord, hiter]; exact (ntsOrdered_spec hs repf hk' tok).1
      · rw [hord]; exact (ntsOrdered_spec hs repf hk' tok).2

/-- The unrestricted NTS replica set is, as a set, the union over the strategy's datacenters of the stated
per-datacenter rule (datacenters of the strategy that are absent from the ring contribute nothing, ring
datacenters absent from the strategy neither). -/
theorem nts_unrestricted_eq_spec {r : Ring Node} (hs : Sorted r) (S : List Strategy) (tok : Int)
    (repf : List (Nat × Nat)) (hk : (repf.map (·.1)).Nodup) (n : Node) :
    n ∈ (replicasForToken (locOf r S) tok (.nts repf) none).iter (locOf r S) ↔
      ∃ e ∈ repf, n ∈ specNtsDc r tok e.1 e.2 := by
  have hN := fun t d rf => getNts_precompute hs S t d rf
  have hiter : (ReplicaSet.chainedNts repf tok).iter (locOf r S) = ntsIter r repf tok := by
    simp only [ReplicaSet.iter, hN, Locator.datacenters, ntsIter]
  simp only [replicasForToken]
  rw [hiter, ← mem_ntsAll_iff_mem_ntsIter r repf hk tok n]
  unfold ntsAll
  rw [List.mem_flatMap]
  constructor
  · rintro ⟨e, he, hn⟩; exact ⟨e, he, by rw [← nts_eq_spec hs]; exact hn⟩
  · rintro ⟨e, he, hn⟩; exact ⟨e, he, by rw [nts_eq_spec hs]; exact hn⟩

/-- `LocalStrategy` and unknown strategies are answered as SimpleStrategy with RF 1; `get_token_endpoints` is the
iteration of the keyspace's unrestricted replica set (`LocalStrategy` for an unknown keyspace). -/
theorem fallback_eq_simple1 (loc : Locator) (tok : Int) (dc : Option Nat) :
    replicasForToken loc tok .localStrategy dc = replicasForToken loc tok (.simple 1) dc ∧
    replicasForToken loc tok .other dc = replicasForToken loc tok (.simple 1) dc ∧
    (∀ strat, tokenEndpoints loc (some strat) tok = (replicasForToken loc tok strat none).iter loc) ∧
    tokenEndpoints loc none tok = (replicasForToken loc tok (.simple 1) none).iter loc := by
  refine ⟨?_, ?_, fun _ => rfl, rfl⟩ <;> cases dc <;> rfl

/-- The assertion in the ring-ordered iterator ("all_replicas somehow contained a node that wasn't present in
the global ring") can never fire: every replica is a ring member. -/
theorem ordered_assert_unreachable (r : Ring Node) (repf : List (Nat × Nat)) (tok : Int) (n : Node)
    (h : n ∈ repf.flatMap (fun e => ntsReplicas r tok e.1 e.2)) : n ∈ ringRange r tok := by
  obtain ⟨e, _, hne⟩ := List.mem_flatMap.mp h
  exact mem_ringRange.mpr (mem_ntsReplicas hne).2

/-! ### non-vacuity: a 7-node, 2-datacenter, 3-rack ring with vnodes (10 ring members) -/

/-- Nodes A…G of the suite's mock ring (`eu` = 0, `us` = 1), with a third rack and a rack-less node. -/
def exRing : Ring Node :=
  [(50, ⟨1, some 0, some 1⟩), (100, ⟨2, some 0, some 1⟩), (150, ⟨1, some 0, some 1⟩), (200, ⟨5, some 1, some 1⟩),
   (250, ⟨2, some 0, some 1⟩), (300, ⟨3, some 0, some 3⟩), (400, ⟨4, some 1, none⟩), (500, ⟨1, some 0, some 1⟩),
   (600, ⟨6, some 1, some 2⟩), (700, ⟨7, some 0, some 2⟩), (800, ⟨4, some 1, none⟩), (900, ⟨6, some 1, some 2⟩)]

example : Sorted exRing := by decide
example : rackCount exRing 0 = 3 ∧ rackCount exRing 1 = 3 ∧ (uniqueNodes (dcRing exRing 0)).length = 4 := by decide
-- RF 2 ≤ racks: distinct racks only; RF 4 > racks: one rack repeat allowed; RF 9: every node
example : (ntsReplicas exRing 160 0 2).map (·.id) = [2, 3] ∧ (ntsReplicas exRing 160 0 3).map (·.id) = [2, 3, 7] ∧
    (ntsReplicas exRing 160 0 4).map (·.id) = [2, 3, 1, 7] ∧ (ntsReplicas exRing 160 0 9).map (·.id) = [2, 3, 1, 7] ∧
    (specNtsDc exRing 160 0 4).map (·.id) = [2, 3, 1, 7] ∧ (specSimple exRing 3 160).map (·.id) = [5, 2, 3] := by decide
-- the unrestricted NTS set {eu: 2, us: 0} (the F6 shape) and {eu: 2, us: 2}: iterated by datacenter, ordered by
-- ring position (`ntsIter` / `ntsOrdered` are what `iter` / `ordered` are shown to equal in `views_agree`)
example : (ntsIter exRing [(0, 2), (1, 0)] 160).map (·.id) = [2, 3] ∧
    (ntsOrdered exRing [(0, 2), (1, 0)] 160).map (·.id) = [2, 3] ∧
    (ntsIter exRing [(0, 2), (1, 2)] 160).map (·.id) = [2, 3, 5, 4] ∧
    (ntsOrdered exRing [(0, 2), (1, 2)] 160).map (·.id) = [5, 2, 3, 4] ∧
    ((List.map (·.1) [(0, 2), (1, 2)]).Nodup) := by decide

/-! ### metadata refreshes: the locator depends only on the last metadata

`calculate_new_topology` may put a *previous* `Node` object into the new ring (reuse, or re-creation with the pool
inherited when only the address changed).  The placement then reads that object's datacenter and rack, so the
guards of the reuse arms carry the property: a reused node must not differ from the new peer in datacenter or
rack (tokens are always taken from the new peer). -/
section refresh
open ScyllaVerif.Refresh

/-- Whatever the previous state holds, the node object chosen for a peer has the peer's host id, datacenter
and rack — in all four arms of the reuse `match`, `inherit_with_ip_changed` included. -/
theorem pickNode_node (known : List KNode) (p : MPeer) : (pickNode known p).node = p.node := by
  have hid : ∀ k, lookupKnown known p.node.id = some k → k.node.id = p.node.id := by
    intro k hk
    have := List.find?_some hk
    simpa using this
  have eta : ∀ k : KNode, k.node.id = p.node.id → k.node.dc = p.node.dc → k.node.rack = p.node.rack →
      k.node = p.node := by
    intro k h1 h2 h3
    cases hk : k.node; cases hp : p.node
    rw [hk] at h1 h2 h3; rw [hp] at h1 h2 h3
    simp only [] at h1 h2 h3
    rw [h1, h2, h3]
  unfold pickNode
  split
  · rename_i k _ hk
    split
    · rename_i hc
      simp only [Bool.and_eq_true, decide_eq_true_eq] at hc
      exact eta k (hid k hk) hc.1.1.2 hc.1.2
    · rfl
  · rfl
  · rename_i k _ hk
    split
    · rename_i hc
      simp only [Bool.and_eq_true, decide_eq_true_eq] at hc
      split
      · exact eta k (hid k hk) hc.1.2 hc.2
      · have := eta k (hid k hk) hc.1.2 hc.2
        simp only []
        rw [← this]
    · rfl
  · rfl

/-- `pickArm` names the arm `pickNode` takes: `reused` = the previous object unchanged, `inherited` = a new object
with the old one's identity and placement at the new address (only for accepted, enabled nodes whose address
changed), `fresh` = built from the peer alone.  (The differential run observes the arm per node: `Arc::ptr_eq`,
inherited settings.) -/
theorem pickArm_sound (known : List KNode) (p : MPeer) :
    match pickArm known p with
    | .reused => ∃ k, lookupKnown known p.node.id = some k ∧ pickNode known p = k ∧ k.addr = p.addr ∧
        k.enabled = p.accepted
    | .inherited => ∃ k, lookupKnown known p.node.id = some k ∧ p.accepted = true ∧ k.enabled = true ∧ k.addr ≠ p.addr ∧
        pickNode known p = ⟨⟨k.node.id, k.node.dc, k.node.rack⟩, p.addr, true, k.pool⟩
    | .fresh => pickNode known p = ⟨p.node, p.addr, p.accepted, p.accepted⟩ := by
  cases ha : p.accepted with
  | false =>
    cases hl : lookupKnown known p.node.id with
    | none => simp [pickArm, pickNode, ha, hl]
    | some k =>
      by_cases hc : (!k.enabled && decide (k.node.dc = p.node.dc) && decide (k.node.rack = p.node.rack) &&
          decide (k.addr = p.addr)) = true
      · have h1 : pickArm known p = .reused := by simp only [pickArm, ha, hl, hc, if_true]
        have h2 : pickNode known p = k := by simp only [pickNode, ha, hl, hc, if_true]
        rw [h1]
        simp only [Bool.and_eq_true, decide_eq_true_eq, Bool.not_eq_true'] at hc
        exact ⟨k, rfl, h2, hc.2, hc.1.1.1⟩
      · have h1 : pickArm known p = .fresh := by simp only [pickArm, ha, hl, hc]; rfl
        have h2 : pickNode known p = ⟨p.node, p.addr, false, false⟩ := by simp only [pickNode, ha, hl, hc]; rfl
        rw [h1]; exact h2
  | true =>
    cases hl : lookupKnown known p.node.id with
    | none => simp [pickArm, pickNode, ha, hl]
    | some k =>
      by_cases hc : (k.enabled && decide (k.node.dc = p.node.dc) && decide (k.node.rack = p.node.rack)) = true
      · by_cases haddr : k.addr = p.addr
        · have h1 : pickArm known p = .reused := by simp only [pickArm, ha, hl, hc, haddr, if_true]
          have h2 : pickNode known p = k := by simp only [pickNode, ha, hl, hc, haddr, if_true]
          rw [h1]
          simp only [Bool.and_eq_true, decide_eq_true_eq] at hc
          exact ⟨k, rfl, h2, haddr, hc.1.1⟩
        · have h1 : pickArm known p = .inherited := by simp only [pickArm, ha, hl, hc, haddr, if_true, if_false]
          have h2 : pickNode known p = ⟨⟨k.node.id, k.node.dc, k.node.rack⟩, p.addr, true, k.pool⟩ := by
            simp only [pickNode, ha, hl, hc, haddr, if_true, if_false]
          rw [h1]
          simp only [Bool.and_eq_true, decide_eq_true_eq] at hc
          exact ⟨k, rfl, rfl, hc.1.1, haddr, h2⟩
      · have h1 : pickArm known p = .fresh := by simp only [pickArm, ha, hl, hc]; rfl
        have h2 : pickNode known p = ⟨p.node, p.addr, true, true⟩ := by simp only [pickNode, ha, hl, hc]; rfl
        rw [h1]; exact h2

/-- **A node has a connection pool iff the host filter accepted it in the last refresh.**  In production
`is_enabled()` IS `pool.is_some()` (`enabled = pool` for every known node); then every arm yields a node whose
pool presence — and enabled-ness — equals the filter's verdict on the peer: a filtered-out node never keeps or
gets a pool, an accepted one always has one.  The invariant is preserved (second conjunct), so this holds after
every refresh of every history that starts from it (`ClusterState::new` starts from no known nodes). -/
theorem pickNode_pool_iff_accepted (known : List KNode) (hinv : ∀ k ∈ known, k.enabled = k.pool) (p : MPeer) :
    (pickNode known p).pool = p.accepted ∧ (pickNode known p).enabled = (pickNode known p).pool := by
  have hk : ∀ k, lookupKnown known p.node.id = some k → k.enabled = k.pool :=
    fun k h => hinv k (List.mem_reverse.mp (List.mem_of_find?_eq_some h))
  unfold pickNode
  cases ha : p.accepted <;> cases hl : lookupKnown known p.node.id with
  | none => simp
  | some k =>
    have := hk k hl
    simp only []
    split
    · rename_i hc
      first
        | (split
           · simp only [Bool.and_eq_true, decide_eq_true_eq] at hc
             exact ⟨by rw [← this]; exact hc.1.1, this⟩
           · simp only [Bool.and_eq_true, decide_eq_true_eq] at hc
             exact ⟨by simp only []; rw [← this]; exact hc.1.1, by simp only []; rw [← this]; exact hc.1.1.symm⟩)
        | (simp only [Bool.and_eq_true, decide_eq_true_eq, Bool.not_eq_true'] at hc
           exact ⟨by rw [← this]; exact hc.1.1.1, this⟩)
    · simp

/-- The production invariant `enabled = pool` survives `calculate_new_topology`. -/
theorem newTopology_pool_invariant (known : List KNode) (hinv : ∀ k ∈ known, k.enabled = k.pool) (peers : List MPeer) :
    ∀ k ∈ (newTopology known peers).1, k.enabled = k.pool := by
  intro k hk
  unfold newTopology at hk
  obtain ⟨p, _, rfl⟩ := List.mem_map.mp hk
  exact (pickNode_pool_iff_accepted known hinv p).2

/-- The ring entries after a refresh are those of the new metadata alone. -/
theorem newTopology_entries (known : List KNode) (peers : List MPeer) :
    (newTopology known peers).2 = (toTopology peers).entries := by
  unfold newTopology Topology.entries toTopology
  simp only [pickNode_node, List.flatMap_map]

/-- The metadata in force after a history: the last peer list, and the keyspaces as RESOLVED — a keyspace whose fetch
failed in a full refresh keeps the definition the previous state had (`topo` keeps all keyspaces, `enable`
changes nothing). -/
def metaAfter (m : List MPeer × Keyspaces) : List Step → List MPeer × Keyspaces
  | [] => m
  | .full peers fetched :: rest => metaAfter (peers, resolveKeyspaces fetched m.2) rest
  | .topo peers :: rest => metaAfter (peers, m.2) rest
  | .enable _ :: rest => metaAfter m rest

/-- A fetch without errors, as `Metadata::keyspaces`. -/
def fetchedOk (ks : Keyspaces) : Fetched := ks.map (fun e => (e.1, some e.2))

/-- Without fetch errors the resolved keyspaces are the fetched ones, whatever the previous state held. -/
theorem resolve_fetchedOk (ks old : Keyspaces) : resolveKeyspaces (fetchedOk ks) old = ks := by
  unfold resolveKeyspaces fetchedOk
  induction ks with
  | nil => rfl
  | cons e tl ih => simp only [List.map_cons, List.filterMap_cons]; rw [ih]

/-- A keyspace whose fetch failed is answered with the previous state's definition (or is absent if the previous
state had none): the one place where a refreshed state depends on more than the last metadata. -/
theorem resolve_failed (name : Nat) (old : Keyspaces) :
    resolveKeyspaces [(name, none)] old = match old.lookup name with
      | some s => [(name, s)]
      | none => [] := by
  unfold resolveKeyspaces
  cases h : old.lookup name <;> simp [h]

private theorem run_invariant (st : CState) (m : List MPeer × Keyspaces)
    (h : st.loc = Topology.locator (toTopology m.1) (strategiesOf m.2) ∧ st.keyspaces = m.2) (steps : List Step) :
    (st.run steps).loc = Topology.locator (toTopology (metaAfter m steps).1) (strategiesOf (metaAfter m steps).2) ∧
      (st.run steps).keyspaces = (metaAfter m steps).2 := by
  induction steps generalizing st m with
  | nil => exact h
  | cons s rest ih =>
    unfold CState.run at ih ⊢
    rw [List.foldl_cons]
    cases s with
    | full peers fetched =>
      apply ih
      simp only [CState.step, CState.refresh, newTopology_entries, h.2]
      exact ⟨rfl, trivial⟩
    | topo peers =>
      apply ih
      simp only [CState.step, CState.refreshTopology, newTopology_entries, h.2]
      exact ⟨rfl, trivial⟩
    | enable ids =>
      apply ih
      exact h

/-- **`refresh_locator_eq_fresh`.** After any history of metadata refreshes (full or topology-only, with nodes
changing rack, datacenter, tokens, address, leaving, joining, being enabled or disabled in between, the host
filter accepting or rejecting them, and the keyspace strategies changing), the replica locator is the one of a
cluster built from scratch from the last peer list and the RESOLVED keyspaces (`metaAfter`): node objects
reused across refreshes never leak a stale datacenter, rack or token into placement.  The keyspaces are the
last fetched ones unless a keyspace fetch failed (`resolve_fetchedOk`, `resolve_failed`,
`refresh_depends_on_last_metadata_only`). -/
theorem refresh_locator_eq_fresh (peers₀ : List MPeer) (ks₀ : Keyspaces) (steps : List Step) :
    ((CState.fresh peers₀ (fetchedOk ks₀)).run steps).loc =
      (CState.fresh (metaAfter (peers₀, ks₀) steps).1 (fetchedOk (metaAfter (peers₀, ks₀) steps).2)).loc := by
  have h0 : (CState.fresh peers₀ (fetchedOk ks₀)).loc = Topology.locator (toTopology peers₀) (strategiesOf ks₀) ∧
      (CState.fresh peers₀ (fetchedOk ks₀)).keyspaces = ks₀ := by
    simp only [CState.fresh, newTopology_entries, resolve_fetchedOk]; exact ⟨rfl, trivial⟩
  have := (run_invariant (CState.fresh peers₀ (fetchedOk ks₀)) (peers₀, ks₀) h0 steps).1
  rw [this]
  simp only [CState.fresh, newTopology_entries, resolve_fetchedOk]
  rfl

/-- If the last full refresh of a history had no keyspace fetch error (and only topology-only refreshes and
enabled-ness changes follow it), the locator depends on the last metadata ONLY: last peer list, last fetched
keyspaces — nothing of the states before. -/
theorem refresh_depends_on_last_metadata_only (st : CState) (peers : List MPeer) (ks : Keyspaces) :
    (st.refresh peers (fetchedOk ks)).loc = (CState.fresh peers (fetchedOk ks)).loc ∧
      (st.refresh peers (fetchedOk ks)).keyspaces = ks := by
  simp only [CState.refresh, CState.fresh, newTopology_entries, resolve_fetchedOk]; exact ⟨trivial, trivial⟩

/-- **Node identity is the host id, never the address.**  The locator is a function of the peers' nodes (host id,
datacenter, rack) and tokens alone: two metadata snapshots that differ only in the ADDRESSES of the peers (any
assignment, including several nodes sharing one address — nodes behind one NAT / proxy address — and nodes
whose address changed) and in the host filter's verdicts give the same locator, from scratch and after any
refresh from any two previous states.  (`Node` of the model has no address field; `unique()` and the `HashSet` of
the ring-ordered view compare `Node`s, i.e. host ids — `Model/Ring.lean`.) -/
theorem address_irrelevant (peers peers' : List MPeer) (h : toTopology peers = toTopology peers') (f : Fetched)
    (st st' : CState) (hk : st.keyspaces = st'.keyspaces) :
    (CState.fresh peers f).loc = (CState.fresh peers' f).loc ∧
    (st.refresh peers f).loc = (st'.refresh peers' f).loc ∧
    (st.refreshTopology peers).loc = (st'.refreshTopology peers').loc := by
  simp only [CState.fresh, CState.refresh, CState.refreshTopology, newTopology_entries, h, hk]
  exact ⟨trivial, trivial, trivial⟩

-- three token owners with one address and another with none of its own: same topology as with distinct addresses
example : toTopology [⟨⟨1, some 0, some 0⟩, 7, [10], false⟩, ⟨⟨2, some 0, some 1⟩, 7, [20], true⟩, ⟨⟨3, some 0, some 1⟩, 7, [30], true⟩] =
    toTopology [⟨⟨1, some 0, some 0⟩, 0, [10], true⟩, ⟨⟨2, some 0, some 1⟩, 1, [20], false⟩, ⟨⟨3, some 0, some 1⟩, 2, [30], false⟩] := rfl

/-- The locator of a freshly built state is `locOf` of the sorted ring of the metadata: all theorems above apply
to it. -/
theorem fresh_locator (peers : List MPeer) (ks : Keyspaces) :
    (CState.fresh peers (fetchedOk ks)).loc = locOf (mkRing (toTopology peers).entries) (strategiesOf ks) := by
  simp only [CState.fresh, newTopology_entries, resolve_fetchedOk]; rfl

-- a failed fetch of keyspace 1 keeps the old NTS definition; keyspace 2 (unknown before) is dropped
example : resolveKeyspaces [(0, some (.simple 2)), (1, none), (2, none)] [(0, .simple 1), (1, .nts [(0, 3)])] =
    [(0, .simple 2), (1, .nts [(0, 3)])] := by decide

-- non-vacuity: node 2 moves from rack 1 to rack 0 and node 3 changes address; all reuse arms are taken and the
-- chosen objects carry the new placement; a guard that ignored the rack would keep `some 1` for node 2
example :
    let known : List KNode := [⟨⟨1, some 0, some 0⟩, 1, false, false⟩, ⟨⟨2, some 0, some 1⟩, 2, false, false⟩,
                               ⟨⟨3, some 0, some 1⟩, 3, true, true⟩, ⟨⟨4, some 0, some 2⟩, 4, true, true⟩]
    (pickNode known ⟨⟨1, some 0, some 0⟩, 1, [10], false⟩) = ⟨⟨1, some 0, some 0⟩, 1, false, false⟩ ∧   -- reused (disabled)
    (pickNode known ⟨⟨2, some 0, some 0⟩, 2, [20], false⟩).node.rack = some 0 ∧                   -- rack changed: new
    (pickNode known ⟨⟨3, some 0, some 1⟩, 9, [30], true⟩) = ⟨⟨3, some 0, some 1⟩, 9, true, true⟩ ∧     -- address changed: inherited
    (pickNode known ⟨⟨4, some 0, some 2⟩, 4, [40], true⟩) = ⟨⟨4, some 0, some 2⟩, 4, true, true⟩ ∧     -- reused (enabled)
    (pickNode known ⟨⟨4, some 0, some 0⟩, 4, [40], true⟩).node.rack = some 0 := by decide       -- rack changed: new

/-! #### a host id repeated in one peer list

Nothing in front of `calculate_new_topology` removes repeated host ids (`validate_peers`, `fetching.rs:228-240`, only
refuses an empty list and all-empty tokens; `system.peers` is keyed by address).  Every row is matched against the
OLD `known_nodes` only (`state.rs:291`), so two rows with one id give two node objects, both in the ring, while
`new_known_nodes.insert` keeps the last.  `refresh_locator_eq_fresh`, `newTopology_entries`, `pickNode_node` above
have NO distinctness hypothesis: they hold for such lists.  What is added here: which object the next refresh
meets (`lookupKnown_*`, `known_after_refresh_last_row`), and when Rust's by-host-id `unique()` / `HashSet<Arc<Node>>`
is the structural one of the model (`uniqById_eq_uniq` under `RowsAgree`, established for every ring built from
agreeing rows by `newTopology_ring_idDetermines`). -/

/-- The last insert of a host id wins. -/
theorem lookupKnown_last (known : List KNode) (k : KNode) : lookupKnown (known ++ [k]) k.node.id = some k := by
  simp [lookupKnown]

/-- An insert under another host id does not disturb the entry. -/
theorem lookupKnown_append_other (known : List KNode) (k : KNode) (id : Nat) (h : k.node.id ≠ id) :
    lookupKnown (known ++ [k]) id = lookupKnown known id := by
  simp [lookupKnown, h]

/-- What is found is one of the inserted objects and has the id asked for. -/
theorem lookupKnown_some (known : List KNode) (id : Nat) (k : KNode) (h : lookupKnown known id = some k) :
    k ∈ known ∧ k.node.id = id :=
  ⟨List.mem_reverse.mp (List.mem_of_find?_eq_some h), by simpa using List.find?_some h⟩

/-- With pairwise distinct host ids (the only peer lists the model covered before) last = first. -/
theorem lookupKnown_eq_first_of_distinct (known : List KNode) (hd : (known.map (·.node.id)).Nodup) (id : Nat) :
    lookupKnown known id = known.find? (fun k => decide (k.node.id = id)) := by
  induction known with
  | nil => rfl
  | cons k tl ih =>
    rw [List.map_cons, List.nodup_cons] at hd
    have hd' := hd
    have ih := ih hd'.2
    unfold lookupKnown at ih ⊢
    rw [List.reverse_cons, List.find?_append, ih, List.find?_cons]
    by_cases hk : k.node.id = id
    · have : tl.find? (fun k => decide (k.node.id = id)) = none := by
        rw [List.find?_eq_none]
        intro x hx hxid
        exact hd'.1 (List.mem_map.mpr ⟨x, hx, (of_decide_eq_true hxid).trans hk.symm⟩)
      simp [this, hk]
    · cases htl : tl.find? (fun k => decide (k.node.id = id)) <;> simp [hk, htl]

/-- **Which object the NEXT refresh meets.**  After `calculate_new_topology`, `known_nodes.get(id)` is the node object
chosen for the LAST peer row carrying that host id; the objects of earlier rows with the same id are in the ring but
unknown to `known_nodes` (`get_node_by_host_id`, the next refresh's reuse match, pool bookkeeping). -/
theorem known_after_refresh_last_row (known : List KNode) (peers : List MPeer) (id : Nat) :
    lookupKnown (newTopology known peers).1 id =
      (peers.reverse.find? (fun p => decide (p.node.id = id))).map (pickNode known) := by
  unfold lookupKnown newTopology
  simp only [← List.map_reverse, List.find?_map, Function.comp_def, pickNode_node]

/-- Rust's `unique()` / `HashSet` over `Arc<Node>`: `Node` is `Eq + Hash` by `host_id` ONLY (`cluster/node.rs`), so the
first entry per HOST ID wins, whatever its datacenter and rack. -/
def uniqByIdFrom (seen : List Nat) : List Node → List Node
  | [] => []
  | a :: l => if a.id ∈ seen then uniqByIdFrom seen l else a :: uniqByIdFrom (a.id :: seen) l

def uniqById (l : List Node) : List Node := uniqByIdFrom [] l

/-- Entries with one host id are one node (same datacenter, same rack). -/
def IdDeterminesNode (l : List Node) : Prop := ∀ a ∈ l, ∀ b ∈ l, a.id = b.id → a = b

/-- Peer rows with one host id agree on datacenter and rack (they describe one node). -/
def RowsAgree (peers : List MPeer) : Prop := ∀ p ∈ peers, ∀ q ∈ peers, p.node.id = q.node.id → p.node = q.node

private theorem uniqByIdFrom_eq (l : List Node) (seen : List Node) (h : IdDeterminesNode (seen ++ l)) :
    uniqByIdFrom (seen.map (·.id)) l = uniqFrom seen l := by
  induction l generalizing seen with
  | nil => rfl
  | cons a tl ih =>
    have hmem : a.id ∈ seen.map (·.id) ↔ a ∈ seen := by
      constructor
      · intro hin
        obtain ⟨b, hb, hba⟩ := List.mem_map.mp hin
        have := h b (List.mem_append_left _ hb) a (List.mem_append_right _ (List.mem_cons_self ..)) hba
        rwa [← this]
      · intro hin; exact List.mem_map.mpr ⟨a, hin, rfl⟩
    have sub1 : ∀ x, x ∈ seen ++ tl → x ∈ seen ++ a :: tl := by
      intro x hx
      rcases List.mem_append.mp hx with h | h
      · exact List.mem_append_left _ h
      · exact List.mem_append_right _ (List.mem_cons_of_mem _ h)
    have sub2 : ∀ x, x ∈ (a :: seen) ++ tl → x ∈ seen ++ a :: tl := by
      intro x hx
      simp only [List.cons_append, List.mem_cons, List.mem_append] at hx ⊢
      rcases hx with h | h | h
      · exact .inr (.inl h)
      · exact .inl h
      · exact .inr (.inr h)
    unfold uniqByIdFrom uniqFrom
    by_cases ha : a ∈ seen
    · rw [if_pos (hmem.mpr ha), if_pos ha]
      apply ih
      intro x hx y hy
      exact h x (sub1 x hx) y (sub1 y hy)
    · rw [if_neg (fun hc => ha (hmem.mp hc)), if_neg ha]
      have := ih (a :: seen) (by
        intro x hx y hy
        exact h x (sub2 x hx) y (sub2 y hy))
      rw [List.map_cons] at this
      rw [this]

/-- **By-host-id `unique()` = the model's structural `uniq`** on every list in which a host id determines the node:
there the model's `uniqueNodes`, `simpleReplicas`, `ntsReplicas`, the ring-ordered view are the code's. -/
theorem uniqById_eq_uniq (l : List Node) (h : IdDeterminesNode l) : uniqById l = uniq l :=
  uniqByIdFrom_eq l [] (by simpa using h)

/-- The hypothesis holds for every ring `calculate_new_topology` builds from rows that agree — distinct ids or not,
whatever the previous state and the reuse arms taken. -/
theorem newTopology_ring_idDetermines (known : List KNode) (peers : List MPeer) (h : RowsAgree peers) :
    IdDeterminesNode ((mkRing (newTopology known peers).2).map (·.2)) := by
  have hm : ∀ n ∈ (mkRing (newTopology known peers).2).map (·.2), ∃ p ∈ peers, p.node = n := by
    intro n hn
    obtain ⟨e, he, rfl⟩ := List.mem_map.mp hn
    rw [(mkRing_perm _).mem_iff, newTopology_entries] at he
    unfold Topology.entries toTopology at he
    simp only [List.mem_flatMap, List.mem_map] at he
    obtain ⟨p, ⟨q, hq, rfl⟩, tk, _, rfl⟩ := he
    exact ⟨q, hq, rfl⟩
  intro a ha b hb hab
  obtain ⟨p, hp, rfl⟩ := hm a ha
  obtain ⟨q, hq, rfl⟩ := hm b hb
  exact h p hp q hq hab

/-- Distinct host ids are the special case. -/
theorem rowsAgree_of_distinct (peers : List MPeer) (hd : (peers.map (·.node.id)).Nodup) : RowsAgree peers := by
  intro p hp q hq hpq
  induction peers with
  | nil => cases hp
  | cons x tl ih =>
    rw [List.map_cons, List.nodup_cons] at hd
    have hd' := hd
    rcases List.mem_cons.mp hp with rfl | hp' <;> rcases List.mem_cons.mp hq with rfl | hq'
    · rfl
    · exact absurd (List.mem_map.mpr ⟨q, hq', hpq.symm⟩) hd'.1
    · exact absurd (List.mem_map.mpr ⟨p, hp', hpq⟩) hd'.1
    · exact ih hd'.2 hp' hq'

-- non-vacuity: host 7 listed twice (addresses 0 and 2, different tokens), rows agree; the ring holds both objects,
-- `known_nodes` the one at address 2; a next refresh listing 7 at address 0 does NOT reuse (address differs) but
-- inherits from the object at address 2
example :
    let peers : List MPeer := [⟨⟨7, some 0, some 0⟩, 0, [10], true⟩, ⟨⟨8, some 0, some 1⟩, 1, [20], true⟩,
                               ⟨⟨7, some 0, some 0⟩, 2, [30], true⟩]
    RowsAgree peers ∧ ¬ ((peers.map (·.node.id)).Nodup) ∧
    (newTopology [] peers).2 = [(10, ⟨7, some 0, some 0⟩), (20, ⟨8, some 0, some 1⟩), (30, ⟨7, some 0, some 0⟩)] ∧
    (lookupKnown (newTopology [] peers).1 7).map (·.addr) = some 2 ∧
    pickArm (newTopology [] peers).1 ⟨⟨7, some 0, some 0⟩, 0, [10], true⟩ = .inherited ∧
    pickArm (newTopology [] peers).1 ⟨⟨7, some 0, some 0⟩, 2, [10], true⟩ = .reused := by
  refine ⟨?_, by decide, by decide, by decide, by decide, by decide⟩
  intro p hp q hq _
  simp only [List.mem_cons, List.mem_nil_iff, or_false] at hp hq
  rcases hp with rfl | rfl | rfl <;> rcases hq with rfl | rfl | rfl <;> simp_all

-- OUTSIDE the theorems: rows with one host id that DISAGREE on the rack.  The code's by-id `unique()` keeps one entry
-- where the model's structural `uniq` keeps two (while `rack_count` counts both racks): the placement theorems do not
-- describe what the driver answers for such metadata (the case-line parsers refuse it).
example : uniqById [⟨1, some 0, some 0⟩, ⟨1, some 0, some 1⟩] ≠ uniq [⟨1, some 0, some 0⟩, ⟨1, some 0, some 1⟩] := by decide

/-! #### the `!tablet_based` filter of `calculate_new_locator` (a declared model / code mismatch)

`calculate_new_locator` (`cluster/state.rs:414-418`) precomputes replica lists for `keyspaces.values().filter(|ks|
!ks.tablet_based).map(|ks| &ks.strategy)`; `tablet_based` comes from `initial_tablets` in the replication options
(`fetching.rs:1749-1770`).  The model's `Keyspaces` has no such flag and `Refresh.strategiesOf` precomputes for EVERY
keyspace.  So for a state with a tablet-based keyspace the model's `Locator.pre` may hold lists the code's does not.
The mismatch is made explicit here: `strategiesOfCode` is the code's function on keyspaces that carry the flag;
the two coincide without tablet keyspaces (`strategiesOf_eq_code_of_no_tablet_keyspace`, hence the `_vnode`
corollaries, where the refresh theorems hold for the code's locator as a structure); WITH tablet keyspaces the
`Locator` values differ in `pre` only, and no observation depends on `pre` (`precompute_set_irrelevant`, from
`precomputed_eq_onthefly`, proved for every pair of strategy sets): the mismatch is harmless for every token-ring
answer.  (What a tablet-based keyspace's TABLES answer is the tablet path, C15; a strategy queried on the token ring
is answered as below whether or not some keyspace is tablet-based.) -/

/-- `ClusterState::keyspaces` with the flag the code reads: name → (strategy, `tablet_based`). -/
abbrev KeyspacesT := List (Nat × Strategy × Bool)

/-- What the model keeps of them. -/
def forgetTablets (ks : KeyspacesT) : Keyspaces := ks.map (fun k => (k.1, k.2.1))

/-- The strategies `calculate_new_locator` hands to `ReplicaLocator::new`: `.filter(|ks| !ks.tablet_based)`. -/
def strategiesOfCode (ks : KeyspacesT) : List Strategy := (ks.filter (fun k => !k.2.2)).map (·.2.1)

/-- No keyspace is tablet-based (a vnode-only cluster). -/
def NoTabletKeyspace (ks : KeyspacesT) : Prop := ∀ k ∈ ks, k.2.2 = false

/-- Without tablet-based keyspaces the model's precomputation set IS the code's. -/
theorem strategiesOf_eq_code_of_no_tablet_keyspace (ks : KeyspacesT) (h : NoTabletKeyspace ks) :
    strategiesOfCode ks = strategiesOf (forgetTablets ks) := by
  unfold strategiesOfCode strategiesOf forgetTablets
  rw [List.filter_eq_self.mpr (fun k hk => by simp [h k hk]), List.map_map]
  rfl

/-- In general the code's set is a sublist of the model's (tablet keyspaces dropped). -/
theorem strategiesOfCode_sublist (ks : KeyspacesT) : (strategiesOfCode ks).Sublist (strategiesOf (forgetTablets ks)) := by
  unfold strategiesOfCode strategiesOf forgetTablets
  rw [List.map_map]
  exact (List.filter_sublist (l := ks)).map _

/-- **The precomputation set is irrelevant to every observation**, tablet keyspaces or not: for the ring of ANY
entries, the locator built with the code's filtered set and the one built with the model's unfiltered set give the
same size, iteration, choice at every index and ring-ordered view for every strategy, restriction and token.  The
refresh theorems (`refresh_locator_eq_fresh`, `refresh_depends_on_last_metadata_only`, `address_irrelevant`) equate
`Locator` STRUCTURES built with `strategiesOf`; through this theorem their observable content holds for the code's
locator with no hypothesis on `tablet_based`. -/
theorem precompute_set_irrelevant (entries : List (Int × Node)) (ks : KeyspacesT) (tok : Int) (strat : Strategy)
    (dc : Option Nat) :
    let code := mkLocator entries (strategiesOfCode ks)
    let model := mkLocator entries (strategiesOf (forgetTablets ks))
    let rs := replicasForToken code tok strat dc
    let rs' := replicasForToken model tok strat dc
    rs.len code = rs'.len model ∧ rs.iter code = rs'.iter model ∧ (∀ i, rs.choose code i = rs'.choose model i) ∧
      rs.ordered code = rs'.ordered model :=
  precomputed_eq_onthefly (mkRing_sorted entries) (strategiesOfCode ks) (strategiesOf (forgetTablets ks)) tok strat dc

/-- `refresh_locator_eq_fresh` for the code's locator as a structure, hypothesis visible: in a cluster without
tablet-based keyspaces the locator `calculate_new_locator` builds from the peers and keyspaces in force after any
history is the one the model's history reaches. -/
theorem refresh_locator_eq_fresh_vnode (peers₀ : List MPeer) (ks₀ : Keyspaces) (steps : List Step) (ksT : KeyspacesT)
    (hks : forgetTablets ksT = (metaAfter (peers₀, ks₀) steps).2) (hno : NoTabletKeyspace ksT) :
    ((CState.fresh peers₀ (fetchedOk ks₀)).run steps).loc =
      mkLocator (toTopology (metaAfter (peers₀, ks₀) steps).1).entries (strategiesOfCode ksT) := by
  rw [refresh_locator_eq_fresh, strategiesOf_eq_code_of_no_tablet_keyspace ksT hno, hks]
  simp only [CState.fresh, newTopology_entries, resolve_fetchedOk]

/-- `refresh_depends_on_last_metadata_only` likewise. -/
theorem refresh_depends_on_last_metadata_only_vnode (st : CState) (peers : List MPeer) (ksT : KeyspacesT)
    (hno : NoTabletKeyspace ksT) :
    (st.refresh peers (fetchedOk (forgetTablets ksT))).loc = mkLocator (toTopology peers).entries (strategiesOfCode ksT) := by
  rw [strategiesOf_eq_code_of_no_tablet_keyspace ksT hno]
  simp only [CState.refresh, newTopology_entries, resolve_fetchedOk]

-- non-vacuity: k1 is tablet-based; the code precomputes for k0 and k2 only, the model for all three
example : strategiesOfCode [(0, .simple 2, false), (1, .nts [(0, 3)], true), (2, .simple 3, false)] = [.simple 2, .simple 3] ∧
    strategiesOf (forgetTablets [(0, .simple 2, false), (1, .nts [(0, 3)], true), (2, .simple 3, false)]) =
      [.simple 2, .nts [(0, 3)], .simple 3] ∧
    NoTabletKeyspace [(0, .simple 2, false), (2, .simple 3, false)] := by
  refine ⟨by decide, by decide, ?_⟩
  intro k hk
  simp only [List.mem_cons, List.mem_nil_iff, or_false] at hk
  rcases hk with rfl | rfl <;> rfl

end refresh

/-! ### metadata rows → peers → ring, replication options → strategy

The servers place data only on token owners, by the strategy the keyspace row states.  The driver learns both
from rows (`system.local`, `system.peers`, `system_schema.keyspaces`); this section ties that glue
(`Model/C04Fetch.lean`) to the placement theorems above. -/
section fetch
open ScyllaVerif.C04Fetch

/-- A row without host id is skipped. -/
theorem row_null_host_skipped (row : Row) (d : Int) (h : row.hostId = none) : peerFromRow row d = none := by
  unfold peerFromRow; rw [h]

/-- A null `tokens` column, like an empty list, means the peer owns NO token (never a dummy token). -/
theorem row_null_tokens (row : Row) (d : Int) (id : Nat) (h : row.hostId = some id)
    (ht : row.tokens = none ∨ row.tokens = some []) :
    peerFromRow row d = some ⟨id, row.dc, row.rack, []⟩ := by
  unfold peerFromRow; rw [h]
  rcases ht with ht | ht <;> rw [ht] <;> rfl

/-- If every token string is a decimal `i64`, the peer owns exactly the parsed tokens, in order (the random
value plays no role). -/
theorem row_parsed_tokens (row : Row) (d : Int) (id : Nat) (l : List Int) (h : row.hostId = some id)
    (hp : parseTokens (row.tokens.getD []) = some l) :
    peerFromRow row d = some ⟨id, row.dc, row.rack, l⟩ := by
  unfold peerFromRow; rw [h]; simp only [hp]

/-- If any token string is unparseable the peer owns exactly one token, the (normalised) random one. -/
theorem row_dummy_token (row : Row) (d : Int) (id : Nat) (h : row.hostId = some id)
    (hp : parseTokens (row.tokens.getD []) = none) :
    peerFromRow row d = some ⟨id, row.dc, row.rack, [tokenNew d]⟩ := by
  unfold peerFromRow; rw [h]; simp only [hp]

/-- The ring built from fetched peers holds, for every peer, exactly its tokens (normalised as `Token::new`
does): the ring of the rows is the ring of the parsed tokens. -/
theorem ring_of_peers (peers : List FPeer) :
    ((peersToTopology peers).ring).Perm
      (peers.flatMap (fun p => p.tokens.map (fun t => (tokenNew t, (⟨p.id, p.dc, p.rack⟩ : Node))))) := by
  unfold Topology.ring
  refine (mkRing_perm _).trans ?_
  unfold Topology.entries peersToTopology
  rw [List.flatMap_map]

private theorem eq_of_nodup_map {α β : Type} (f : α → β) (l : List α) (h : (l.map f).Nodup) (a b : α)
    (ha : a ∈ l) (hb : b ∈ l) (hab : f a = f b) : a = b := by
  induction l with
  | nil => cases ha
  | cons x l ih =>
    rw [List.map_cons, List.nodup_cons] at h
    rcases List.mem_cons.mp ha with rfl | ha' <;> rcases List.mem_cons.mp hb with rfl | hb'
    · rfl
    · exact absurd (List.mem_map.mpr ⟨b, hb', hab.symm⟩) h.1
    · exact absurd (List.mem_map.mpr ⟨a, ha', hab⟩) h.1
    · exact ih h.2 ha' hb'

/-- A peer without tokens is not a member of the ring (host ids of a fetch are distinct). -/
theorem tokenless_peer_not_in_ring (peers : List FPeer) (hid : (peers.map (·.id)).Nodup) (p : FPeer)
    (hp : p ∈ peers) (ht : p.tokens = []) :
    (⟨p.id, p.dc, p.rack⟩ : Node) ∉ ((peersToTopology peers).ring).map (·.2) := by
  intro hm
  obtain ⟨e, he, hen⟩ := List.mem_map.mp hm
  have he' := (ring_of_peers peers).mem_iff.mp he
  obtain ⟨q, hq, heq⟩ := List.mem_flatMap.mp he'
  obtain ⟨t, htq, hte⟩ := List.mem_map.mp heq
  have : q.id = p.id := by
    rw [← hte] at hen
    simp only [Node.mk.injEq] at hen
    exact hen.1
  have hqp : q = p := eq_of_nodup_map (·.id) peers hid q p hq hp this
  rw [hqp, ht] at htq
  cases htq

/-- A node that is not a member of the ring is a replica of no token: under no strategy, no datacenter
restriction, whatever was precomputed, in no view (the other views are permutations / selections of `iter`:
`views_agree`). -/
theorem not_in_ring_never_replica {r : Ring Node} (hs : Sorted r) (S : List Strategy) (n : Node)
    (hn : n ∉ r.map (·.2)) (tok : Int) (strat : Strategy) (dc : Option Nat) :
    n ∉ (replicasForToken (locOf r S) tok strat dc).iter (locOf r S) := by
  have hS := fun t rf => getSimple_precompute hs S t rf
  have hN := fun t d rf => getNts_precompute hs S t d rf
  have hsimple : ∀ rf, n ∉ simpleReplicas r tok rf := by
    intro rf hm
    unfold simpleReplicas at hm
    exact hn (mem_ringRange.mp (mem_uniq.mp (List.mem_of_mem_take hm)))
  have hnts : ∀ d rf, n ∉ ntsReplicas r tok d rf := fun d rf hm => hn (mem_ntsReplicas hm).2
  cases strat with
  | simple rf =>
    cases dc with
    | none => simp only [replicasForToken, ReplicaSet.iter, hS]; exact hsimple rf
    | some d =>
      simp only [replicasForToken, ReplicaSet.iter, hS]
      exact fun hm => hsimple rf (List.mem_filter.mp hm).1
  | localStrategy =>
    cases dc with
    | none => simp only [replicasForToken, ReplicaSet.iter, hS]; exact hsimple 1
    | some d =>
      simp only [replicasForToken, ReplicaSet.iter, hS]
      exact fun hm => hsimple 1 (List.mem_filter.mp hm).1
  | other =>
    cases dc with
    | none => simp only [replicasForToken, ReplicaSet.iter, hS]; exact hsimple 1
    | some d =>
      simp only [replicasForToken, ReplicaSet.iter, hS]
      exact fun hm => hsimple 1 (List.mem_filter.mp hm).1
  | nts repf =>
    cases dc with
    | some d =>
      simp only [replicasForToken]
      cases repf.lookup d with
      | none => simp [ReplicaSet.iter]
      | some rf => simp only [ReplicaSet.iter, hN]; exact hnts d rf
    | none =>
      simp only [replicasForToken, ReplicaSet.iter, hN]
      intro hm
      obtain ⟨d, _, hd⟩ := List.mem_flatMap.mp hm
      exact hnts d _ hd

/-- **A peer whose row has no tokens (null column or empty list) is never reported as a replica**, of any token,
under any strategy — in the cluster state built from the fetched rows. -/
theorem tokenless_row_never_replica (rows : List Row) (dummies : List Int)
    (hid : ((peersFromRows rows dummies).map (·.id)).Nodup)
    (row : Row) (d : Int) (id : Nat) (hrow : (row, d) ∈ rows.zip dummies) (h : row.hostId = some id)
    (ht : row.tokens = none ∨ row.tokens = some [])
    (S : List Strategy) (tok : Int) (strat : Strategy) (dc : Option Nat) :
    let r := (peersToTopology (peersFromRows rows dummies)).ring
    (⟨id, row.dc, row.rack⟩ : Node) ∉ (replicasForToken (locOf r S) tok strat dc).iter (locOf r S) := by
  intro r
  have hp : (⟨id, row.dc, row.rack, []⟩ : FPeer) ∈ peersFromRows rows dummies := by
    unfold peersFromRows
    exact List.mem_filterMap.mpr ⟨(row, d), hrow, row_null_tokens row d id h ht⟩
  have := tokenless_peer_not_in_ring _ hid _ hp rfl
  exact not_in_ring_never_replica (mkRing_sorted _) S _ this tok strat dc

/-- `validate_peers` accepts exactly the non-empty peer lists in which somebody owns a token. -/
theorem validatePeers_ok_iff (peers : List FPeer) :
    validatePeers peers = .ok () ↔ ∃ p ∈ peers, p.tokens ≠ [] := by
  unfold validatePeers
  constructor
  · intro h
    split at h
    · cases h
    · split at h
      · cases h
      · rename_i hall
        simp only [List.all_eq_true, List.isEmpty_iff] at hall
        exact Classical.byContradiction fun hcon =>
          hall (fun x hx => Classical.byContradiction fun hne => hcon ⟨x, hx, hne⟩)
  · rintro ⟨p, hp, hne⟩
    have h1 : peers.isEmpty = false := by cases peers <;> simp_all
    have h2 : ¬ (peers.all (fun p => p.tokens.isEmpty) = true) := by
      simp only [List.all_eq_true, List.isEmpty_iff]
      exact fun hall => hne (hall p hp)
    simp [h1, h2]

/-- The NTS loop succeeds exactly when every remaining option value is a `usize`, and then the replication
factors ARE the option map: same datacenter names, same order, parsed values. -/
theorem ntsOptions_ok_iff (m : List (String × String)) (l : List (String × Nat)) :
    ntsOptions m = .ok l ↔ m.mapM (fun e => (parseUsize e.2).map (fun rf => (e.1, rf))) = some l := by
  induction m generalizing l with
  | nil => simp [ntsOptions]
  | cons e rest ih =>
    obtain ⟨k, v⟩ := e
    unfold ntsOptions
    rw [List.mapM_cons]
    cases hv : parseUsize v with
    | none => simp
    | some rf =>
      simp only [Option.map_some, Option.bind_eq_bind, Option.bind_some]
      cases hr : ntsOptions rest with
      | error e =>
        have : rest.mapM (fun e => (parseUsize e.2).map (fun rf => (e.1, rf))) = none := by
          cases hm : rest.mapM (fun e => (parseUsize e.2).map (fun rf => (e.1, rf))) with
          | none => rfl
          | some l' => have := (ih l').mpr hm; rw [hr] at this; cases this
        simp [this]
      | ok l' =>
        have := (ih l').mp hr
        simp only [this, Option.bind_some, Option.pure_def, Option.some.injEq, Except.ok.injEq]

/-- `strategy_from_string_map` by cases on the `class` option: both the fully qualified and the short class names
select the strategy; SimpleStrategy needs a parseable `replication_factor`; NetworkTopologyStrategy turns EVERY
other option into a datacenter replication factor; anything else is `Other`; no `class` is an error. -/
theorem strategyFromOptions_cases (m : List (String × String)) :
    (m.lookup "class" = none → strategyFromOptions m = .error .missingClass) ∧
    (∀ cls, m.lookup "class" = some cls →
      (cls = "org.apache.cassandra.locator.SimpleStrategy" ∨ cls = "SimpleStrategy") →
      strategyFromOptions m = match (removeKey "class" m).lookup "replication_factor" with
        | none => .error .missingReplicationFactor
        | some v => match parseUsize v with
          | none => .error .replicationFactorParse
          | some rf => .ok (.simple rf)) ∧
    (∀ cls, m.lookup "class" = some cls →
      (cls = "org.apache.cassandra.locator.NetworkTopologyStrategy" ∨ cls = "NetworkTopologyStrategy") →
      strategyFromOptions m = (match ntsOptions (removeKey "class" m) with
        | .ok l => .ok (.nts l)
        | .error e => .error e)) ∧
    (∀ cls, m.lookup "class" = some cls →
      (cls = "org.apache.cassandra.locator.LocalStrategy" ∨ cls = "LocalStrategy") →
      strategyFromOptions m = .ok .localStrategy) := by
  refine ⟨?_, ?_, ?_, ?_⟩
  · intro h; unfold strategyFromOptions; rw [h]
  · intro cls h hc
    unfold strategyFromOptions; rw [h]
    rcases hc with rfl | rfl <;> simp <;> rfl
  · intro cls h hc
    unfold strategyFromOptions; rw [h]
    rcases hc with rfl | rfl <;> simp <;> rfl
  · intro cls h hc
    unfold strategyFromOptions; rw [h]
    rcases hc with rfl | rfl <;> simp

-- non-vacuity: the accept set of the token / replication-factor parsers, the row shapes, the option maps
example : parseI64 "+5" = some 5 ∧ parseI64 " 5" = none ∧ parseI64 "-9223372036854775808" = some (-9223372036854775808) ∧
    parseI64 "9223372036854775808" = none ∧ parseI64 "0007" = some 7 ∧ parseI64 "" = none ∧ parseI64 "-" = none ∧
    parseI64 "1_0" = none ∧ parseUsize "-0" = none ∧ parseUsize "+3" = some 3 := by decide
example : peerFromRow ⟨some 7, some 0, none, none⟩ 42 = some ⟨7, some 0, none, []⟩ ∧
    peerFromRow ⟨some 7, some 0, none, some ["5", "-9223372036854775808"]⟩ 42 = some ⟨7, some 0, none, [5, -9223372036854775808]⟩ ∧
    peerFromRow ⟨some 7, some 0, none, some ["5", "x"]⟩ (-9223372036854775808) = some ⟨7, some 0, none, [9223372036854775807]⟩ ∧
    peerFromRow ⟨none, some 0, none, some ["5"]⟩ 42 = none := by decide
example : (strategyFromOptions [("class", "NetworkTopologyStrategy"), ("dc1", "3"), ("dc2", "0")]).toOption = some (.nts [("dc1", 3), ("dc2", 0)]) ∧
    (strategyFromOptions [("class", "org.apache.cassandra.locator.SimpleStrategy"), ("replication_factor", "2")]).toOption = some (.simple 2) ∧
    (strategyFromOptions [("replication_factor", "2")]).toOption = none ∧
    (strategyFromOptions [("class", "NetworkTopologyStrategy"), ("dc1", "x")]).toOption = none ∧
    (strategyFromOptions [("class", "EverywhereStrategy"), ("a", "b")]).toOption = some (.other "EverywhereStrategy" [("a", "b")]) := by decide

end fetch

/-! ### non-vacuity of the precomputed path (in-kernel instances)

`decide` cannot run `mergeSort` (well-founded recursion), so the locator is first rewritten with
`precompute_eq_noSort` (the re-sorts inside `compute` are the identity on a sorted ring) and then evaluated.
Keyspaces: NTS {eu: 2, us: 3}, NTS {eu: 4}, Simple 3.  `eu` has 3 racks: RF 2 is served from the compressed list
(max RF ≤ racks = 2), RF 4 from its own list above the rack count, RF 3 is not precomputed (falls back to the
walk), RF 1 is a prefix of the compressed list; Simple 2 is a prefix of the global list for RF 3. -/

def exS : List Strategy := [.nts [(0, 2), (1, 3)], .nts [(0, 4)], .simple 3]

example : ((precomputeNoSort exRing exS).dcs.map (fun d => (d.1, d.2.compressed.map (·.maxRf), d.2.above.map (·.1)))) =
    [(0, some 2, [4]), (1, some 3, [])] := by decide

example :
    (lookupNts (precompute exRing exS) 160 0 2).map (·.map (·.id)) = some [2, 3] ∧        -- compressed list
    (lookupNts (precompute exRing exS) 160 0 1).map (·.map (·.id)) = some [2] ∧           -- its prefix
    (lookupNts (precompute exRing exS) 160 0 4).map (·.map (·.id)) = some [2, 3, 1, 7] ∧  -- list above the rack count
    (lookupNts (precompute exRing exS) 160 0 3).map (·.map (·.id)) = none ∧               -- not precomputed
    (getNts (locOf exRing exS) 160 0 3).map (·.id) = [2, 3, 7] ∧                          -- … on the fly
    (lookupSimple (precompute exRing exS) 160 2).map (·.map (·.id)) = some [5, 2] ∧       -- prefix of the RF 3 list
    (lookupSimple (precompute exRing exS) 160 4) = none ∧
    (getSimple (locOf exRing exS) 160 4).map (·.id) = [5, 2, 3, 4] := by
  rw [locOf, precompute_eq_noSort (by decide)]; decide

-- all four views of the unrestricted set {eu: 2, us: 2} through the locator with precomputed lists
example : let loc := locOf exRing exS
    let rs := replicasForToken loc 160 (.nts [(0, 2), (1, 2)]) none
    rs.len loc = 4 ∧ (rs.iter loc).map (·.id) = [2, 3, 5, 4] ∧ (rs.ordered loc).map (·.id) = [5, 2, 3, 4] ∧
      ((List.range 4).map (fun i => (rs.choose loc i).map (·.id))) = [some 2, some 3, some 5, some 4] := by
  rw [locOf, precompute_eq_noSort (by decide)]; decide

end ScyllaVerif.Props.C04

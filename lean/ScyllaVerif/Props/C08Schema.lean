/-
C08 — the type strings of the schema tables (`map_string_to_cql_type`, scylla/src/cluster/metadata/fetching.rs): the
third parser of server-supplied type descriptions, one layer above the frame decoders (the strings are the `type`
column of `system_schema.columns` / `.types` rows; schema fetch is on by default).

Before fix 7c5e882 the parser recursed once per nesting level without a bound (`frozen<` × 1000, 8 KB, overflowed a
2 MiB stack).  Model: `Model/C08SchemaType.lean`; lemmas: `Proofs/C08SchemaNP.lean`.

Totality: `parseTy` recurses structurally on the nesting fuel (= `MAX_CQL_TYPE_NESTING_DEPTH + 1 - depth`), so every
parse, successful or failing, recurses at most 129 levels; the `tuple<` loop has a model-only fuel that
`schema_type_fuel_never_exhausted` shows is never used up.
-/
import ScyllaVerif.Proofs.C08SchemaNP
import ScyllaVerif.Props.TablesResp

namespace ScyllaVerif.Props.C08Schema
open ScyllaVerif ScyllaVerif.C08 ScyllaVerif.C08S

/-- The model's nesting limit is the constant extracted from fetching.rs on this run (the translator also checks
that it is tested as `depth > MAX` on entry and that every recursive call passes `depth + 1`). -/
theorem schema_depth_limit_is_source : MAX_CQL_TYPE_NESTING_DEPTH = ScyllaVerif.Generated.maxCqlTypeNestingDepth := rfl

/-- The model's table of native type names is `parse_native_type`'s, in source order. -/
theorem schema_native_names_are_source :
    nativeTable.map (fun p => (p.1, ScyllaVerif.Props.TablesResp.nativeName p.2)) = ScyllaVerif.Generated.schemaNativeNames := rfl

private theorem mapStringS_cases (s : Str) :
    (∃ t, mapStringS s = .ok t ∧ nestPre t ≤ C08S.TOP_FUEL) ∨ (∃ a b, mapStringS s = .error (.perr a b)) := by
  unfold mapStringS
  rcases good_cases (parseTy_good C08S.TOP_FUEL s) with ⟨t, r, e, _, n⟩ | ⟨a, b, e⟩
  · rw [e]; simp only []
    split
    · exact .inl ⟨t, rfl, n⟩
    · exact .inr ⟨_, _, rfl⟩
  · rw [e]; exact .inr ⟨a, b, rfl⟩

/-- Never a panic: for every string and every class table the two slice expressions of `take_while` are in range. -/
theorem schema_type_no_panic (uni : List (Bytes × UCls)) (bs : Bytes) (site : String) :
    mapString uni bs ≠ .error (.panic site) := by
  unfold mapString
  rcases mapStringS_cases (toStr uni bs) with ⟨t, e, _⟩ | ⟨a, b, e⟩ <;> rw [e] <;> intro h <;> cases h

/-- The model's loop fuel is not a behaviour: it is never exhausted. -/
theorem schema_type_fuel_never_exhausted (uni : List (Bytes × UCls)) (bs : Bytes) (w : String) :
    mapString uni bs ≠ .error (.fuel w) := by
  unfold mapString
  rcases mapStringS_cases (toStr uni bs) with ⟨t, e, _⟩ | ⟨a, b, e⟩ <;> rw [e] <;> intro h <;> cases h

/-- Every type the parser returns nests at most `MAX_CQL_TYPE_NESTING_DEPTH + 1 = 129` levels (a leaf counts 1):
converting it (`into_cql_type`), printing it and dropping its nested `Box`es recurse no deeper than that. -/
theorem schema_type_nesting_bounded (uni : List (Bytes × UCls)) (bs : Bytes) (t : PreTy)
    (h : mapString uni bs = .ok t) : nestPre t ≤ 129 := by
  unfold mapString at h
  rcases mapStringS_cases (toStr uni bs) with ⟨t', e, n⟩ | ⟨a, b, e⟩
  · rw [e] at h; injection h with h; subst h; exact n
  · rw [e] at h; cases h

/-- A successful parse of one type consumes at least one scalar (what makes the `tuple<` loop terminate), at every
nesting fuel. -/
theorem schema_type_parse_consumes (fuel : Nat) (s r : Str) (t : PreTy) (h : parseTy fuel s = .ok (t, r)) :
    r.length < s.length ∧ nestPre t ≤ fuel := by
  have := parseTy_good fuel s
  rw [h] at this
  exact this

/-! non-vacuity: the limit sits exactly where the fix put it -/

private def tower (o c : Bytes) (n : Nat) : Bytes :=
  (List.replicate n o).flatten ++ [0x69, 0x6e, 0x74] ++ (List.replicate n c).flatten
/-- `frozen<`, `list<`, `>` -/
private def FROZEN : Bytes := [0x66, 0x72, 0x6f, 0x7a, 0x65, 0x6e, 0x3c]
private def LIST : Bytes := [0x6c, 0x69, 0x73, 0x74, 0x3c]
private def GT : Bytes := [0x3e]

/-- `frozen<` × 128 + `int` parses (and `freeze_type` leaves the native type), × 129 is rejected at the innermost level. -/
example : (match mapString [] (tower FROZEN GT 128) with | .ok (.native .int) => true | _ => false) = true := by
  decide +kernel
example : (match mapString [] (tower FROZEN GT 129) with
    | .error (.perr _ "type_nested_too_deeply") => true | _ => false) = true := by decide +kernel
/-- `list<` × 128 reaches the bound of `schema_type_nesting_bounded` exactly. -/
example : (match mapString [] (tower LIST GT 128) with | .ok t => nestPre t | _ => 0) = 129 := by decide +kernel
/-- the reproducer of the repaired defect (`frozen<` × 1000 + `int` + `>` × 1000, 8 003 bytes) is now an error -/
example : (match mapString [] (tower FROZEN GT 1000) with
    | .error (.perr _ "type_nested_too_deeply") => true | _ => false) = true := by decide +kernel
example : (match mapString [] (asciiBytes "map<int, frozen<tuple<text, my.udt>>>") with
    | .ok (.map false (.native .int) (.tuple [.native .text, .udt false _])) => true | _ => false) = true := by
  decide +kernel

end ScyllaVerif.Props.C08Schema

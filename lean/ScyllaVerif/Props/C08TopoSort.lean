/-
C08 — `topo_sort_udts` (`scylla/src/cluster/metadata/fetching.rs:943-1036`), model `Model/C08TopoSort.lean`.
THEOREM-ONLY layer: the model is read from the source, no case kind drives the real function yet (hook wanted:
`verif_hooks::fetching::topo_sort_udts_rows`).

Full statement (NOT yet proved; kept here at full strength):

    theorem no_panic_topo_sort (rows : List Row) (nodes : List (Key × Row)) (hp : nodes.Perm (build rows))
        (hrefs : total number of references < 2 ^ 32) (site : String) :
        topoSortNodes nodes ≠ .panic site ∧ topoSortNodes nodes ≠ .fuel

Proof plan (invariant of `drainLoop`, with `processed = sorted.take idx`): (a) `sorted` has no duplicates and only keys of
`nodes`; (b) for every key X, `cnt X = Σ_{N ∈ nodes, N ∉ processed} refs(N, X)` — needs the keys of `nodes` distinct
(`build_keys_nodup` below, proved) so that moving one key into `processed` removes exactly one summand; (c) X ∈ sorted
iff cnt X = 0.  (b) gives `cnt X ≥ 1` at every decrement (the node being processed is not in `processed` and still
has this reference), hence no underflow and no second scheduling of X; (a) discharges both `unwrap`s and bounds
`sorted.length ≤ nodes.length` (fuel).  What IS proved here: the structural facts the plan rests on (duplicate rows
collapse to distinct keys, last row wins; the `assert!` site needs `udtsLen ≠ 0` and `topoSort` passes the drained length 0; a self-reference or a cycle is the error, not a panic,
on the families below by kernel evaluation — labelled `example`, they are tests, not the general claim).
No counterexample to the full statement was found by reading or by these evaluations.
-/
import ScyllaVerif.Model.C08TopoSort

namespace ScyllaVerif.Props.C08TopoSort
open ScyllaVerif ScyllaVerif.C08 ScyllaVerif.C08S ScyllaVerif.C08U

private theorem insertLW_keys (m : List (Key × Row)) (k : Key) (v : Row) :
    (insertLW m k v).map (·.1) = if k ∈ m.map (·.1) then m.map (·.1) else m.map (·.1) ++ [k] := by
  induction m with
  | nil => simp [insertLW]
  | cons p m ih =>
    obtain ⟨k', v'⟩ := p
    unfold insertLW
    by_cases h : k' = k
    · subst h; simp
    · have h' : ¬ k = k' := fun e => h e.symm
      simp only [h, if_false, List.map_cons, ih, List.mem_cons, h', false_or]
      split <;> simp

private theorem insertLW_nodup (m : List (Key × Row)) (k : Key) (v : Row) (h : (m.map (·.1)).Nodup) :
    ((insertLW m k v).map (·.1)).Nodup := by
  rw [insertLW_keys]
  split
  · exact h
  · rename_i hk
    rw [List.nodup_append]
    refine ⟨h, by simp, ?_⟩
    intro a ha b hb
    simp at hb
    subst hb
    intro e; subst e; exact hk ha

private theorem foldl_nodup (rows : List Row) : ∀ (m : List (Key × Row)), (m.map (·.1)).Nodup →
    ((rows.foldl (fun m r => insertLW m (r.ks, r.name) r) m).map (·.1)).Nodup := by
  induction rows with
  | nil => intro m h; exact h
  | cons r rows ih => intro m h; exact ih _ (insertLW_nodup m _ r h)

/-- Duplicate (keyspace, type) rows collapse: whatever rows the server sends, the map `topo_sort_udts` works on has
pairwise distinct keys (the fact every counting step of the sort rests on). -/
theorem build_keys_nodup (rows : List Row) : ((build rows).map (·.1)).Nodup :=
  foldl_nodup rows [] (by simp)

/-- … and a key that is already present keeps its place while the LAST row's value wins. -/
theorem insert_last_wins (m : List (Key × Row)) (k : Key) (v : Row) :
    ((insertLW m k v).find? (fun p => p.1 = k)).map (·.2) = some v := by
  induction m with
  | nil => simp [insertLW]
  | cons p m ih =>
    obtain ⟨k', v'⟩ := p
    unfold insertLW
    by_cases h : k' = k
    · simp [h]
    · simp [h, ih]

/-! ### evaluations (tests on hostile shapes; NOT the general claim) -/

private def a : Bytes := [0x61]
private def b : Bytes := [0x62]
private def c : Bytes := [0x63]
private def ks1 : Bytes := [0x6B]
private def ks2 : Bytes := [0x4B]
private def u (n : Bytes) : PreTy := .udt true n
private def row (ks n : Bytes) (fs : List PreTy) : Row := ⟨ks, n, fs⟩

private def names : TOut (List Row) → Option (List Bytes)
  | .ok rs => some (rs.map (·.name))
  | _ => none
private def isCycle : TOut (List Row) → Bool
  | .cycle => true
  | _ => false

/-- chain a -> b -> c (a's field is of type b, …): dependencies first, in either iteration order -/
example : names (topoSort [row ks1 a [u b], row ks1 b [.list false (u c)], row ks1 c [.native .int]]) = some [c, b, a] := by
  decide +kernel
example : names (topoSort [row ks1 a [u b], row ks1 b [u c], row ks1 c []] List.reverse) = some [c, b, a] := by
  decide +kernel
/-- self-reference, 2-cycle, cycle behind a collection: the error -/
example : isCycle (topoSort [row ks1 a [u a]]) = true := by decide +kernel
example : isCycle (topoSort [row ks1 a [u b], row ks1 b [.map false (.native .int) (u a)]]) = true := by decide +kernel
example : isCycle (topoSort [row ks1 a [u b], row ks1 b [u a], row ks1 c []] List.reverse) = true := by decide +kernel
/-- reference to an unknown type / to a type of another keyspace: ignored -/
example : names (topoSort [row ks1 a [u c, u c], row ks2 c [u a]]) = some [c, a] ∨
          names (topoSort [row ks1 a [u c, u c], row ks2 c [u a]]) = some [a, c] := by decide +kernel
/-- duplicate rows: the last one wins (the first `a` is cyclic with b, the last is not; and the other way round) -/
example : names (topoSort [row ks1 a [u b], row ks1 b [u a], row ks1 a []]) = some [a, b] := by decide +kernel
example : isCycle (topoSort [row ks1 a [], row ks1 b [u a], row ks1 a [u b]]) = true := by decide +kernel
/-- the same type referenced many times by one node (tuple of 3) and by two nodes (diamond) -/
example : names (topoSort [row ks1 a [.tuple [u c, u c, u c], u b], row ks1 b [u c], row ks1 c []]) = some [c, b, a] := by
  decide +kernel
/-- none of the hostile shapes above is a panic or runs out of fuel -/
example : (match topoSort [row ks1 a [u a, u b, u c], row ks1 a [u a], row ks1 b [u b, u a], row ks2 a [u a]] List.reverse with
    | .panic _ => false | .fuel => false | _ => true) = true := by decide +kernel

end ScyllaVerif.Props.C08TopoSort

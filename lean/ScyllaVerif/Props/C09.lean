/-
C09 — request frames on the wire say exactly what the caller asked for.

Model of the driver's encoder: `Model/Request.lean` (`encodeReq`, constants from `Generated/Constants.lean`, which is
re-extracted from the Rust source on every run).  Independent protocol parser: `Model/ReqParse.lean` (`parseReq`,
written from the CQL v4 specification with literal constants).  Helper lemmas: `Proofs/Request.lean`.
Property theorems only.
-/
import ScyllaVerif.Proofs.Request

namespace ScyllaVerif.Props.C09
open ScyllaVerif.Request ScyllaVerif.Wire ScyllaVerif.ReqParse ScyllaVerif.Proofs.Request ScyllaVerif

/-! ### the constants extracted from the Rust source are the protocol's (CQL v4 §2, §3, §4.1)

A changed opcode / flag bit / code in the source changes `Generated/Constants.lean` and breaks these (and
`parse_encode`, which goes through them). -/

theorem opcodes_are_spec :
    Generated.requestOpcode_Startup = 0x01 ∧ Generated.requestOpcode_Options = 0x05 ∧
    Generated.requestOpcode_Query = 0x07 ∧ Generated.requestOpcode_Prepare = 0x09 ∧
    Generated.requestOpcode_Execute = 0x0A ∧ Generated.requestOpcode_Register = 0x0B ∧
    Generated.requestOpcode_Batch = 0x0D ∧ Generated.requestOpcode_AuthResponse = 0x0F ∧
    ∀ r, opcode r = specOpcode r :=
  ⟨rfl, rfl, rfl, rfl, rfl, rfl, rfl, rfl, opcode_spec⟩

theorem response_opcodes_are_spec :
    Generated.responseOpcode_Error = 0x00 ∧ Generated.responseOpcode_Ready = 0x02 ∧
    Generated.responseOpcode_Authenticate = 0x03 ∧ Generated.responseOpcode_Supported = 0x06 ∧
    Generated.responseOpcode_Result = 0x08 ∧ Generated.responseOpcode_Event = 0x0C ∧
    Generated.responseOpcode_AuthChallenge = 0x0E ∧ Generated.responseOpcode_AuthSuccess = 0x10 :=
  ⟨rfl, rfl, rfl, rfl, rfl, rfl, rfl, rfl⟩

theorem frame_constants_are_spec :
    Generated.frame_REQUEST_VERSION = 0x04 ∧ Generated.frame_HEADER_SIZE = 9 ∧
    Generated.frameFlag_COMPRESSION = 0x01 ∧ Generated.frameFlag_TRACING = 0x02 ∧
    Generated.frameFlag_CUSTOM_PAYLOAD = 0x04 ∧ Generated.frameFlag_WARNING = 0x08 :=
  ⟨rfl, rfl, rfl, rfl, rfl, rfl⟩

theorem query_flags_are_spec :
    Generated.queryFlag_VALUES = 0x01 ∧ Generated.queryFlag_SKIP_METADATA = 0x02 ∧
    Generated.queryFlag_PAGE_SIZE = 0x04 ∧ Generated.queryFlag_WITH_PAGING_STATE = 0x08 ∧
    Generated.queryFlag_WITH_SERIAL_CONSISTENCY = 0x10 ∧ Generated.queryFlag_WITH_DEFAULT_TIMESTAMP = 0x20 ∧
    Generated.queryFlag_WITH_NAMES_FOR_VALUES = 0x40 :=
  ⟨rfl, rfl, rfl, rfl, rfl, rfl, rfl⟩

theorem batch_constants_are_spec :
    Generated.batchFlag_WITH_SERIAL_CONSISTENCY = 0x10 ∧ Generated.batchFlag_WITH_DEFAULT_TIMESTAMP = 0x20 ∧
    Generated.batchStmtKind_Query = 0 ∧ Generated.batchStmtKind_Prepared = 1 ∧
    batchTypeCode .logged = 0 ∧ batchTypeCode .unlogged = 1 ∧ batchTypeCode .counter = 2 :=
  ⟨rfl, rfl, rfl, rfl, rfl, rfl, rfl⟩

theorem consistency_codes_are_spec :
    consistencyCode .any = 0x0000 ∧ consistencyCode .one = 0x0001 ∧ consistencyCode .two = 0x0002 ∧
    consistencyCode .three = 0x0003 ∧ consistencyCode .quorum = 0x0004 ∧ consistencyCode .all = 0x0005 ∧
    consistencyCode .localQuorum = 0x0006 ∧ consistencyCode .eachQuorum = 0x0007 ∧
    consistencyCode .serial = 0x0008 ∧ consistencyCode .localSerial = 0x0009 ∧ consistencyCode .localOne = 0x000A ∧
    serialConsistencyCode .serial = 0x0008 ∧ serialConsistencyCode .localSerial = 0x0009 ∧
    (∀ c, consistencyOfCode (consistencyCode c) = some c) := by
  refine ⟨rfl, rfl, rfl, rfl, rfl, rfl, rfl, rfl, rfl, rfl, rfl, rfl, rfl, ?_⟩
  intro c; cases c <;> rfl

theorem value_markers_are_spec : Generated.valueLen_null = -1 ∧ Generated.valueLen_unset = -2 := ⟨rfl, rfl⟩

theorem event_names_are_spec (e : EventType) : eventName e = eventSpecName e := eventName_spec e

/-! ### the frame header -/

/-- **frame_valid.** Every emitted frame (any request, any compression, tracing on or off) starts with the 9-byte
header `04 <flags> 00 00 <opcode> <u32 length>`: version 4, flags = compression bit | tracing bit, the spec opcode of
the request kind, and — when the payload is below 4 GiB — a length field equal to the number of bytes that follow.
Stated with the independent `parseHeader` and byte by byte. -/
theorem frame_valid (k : Codec) (r : Req) (c : Option Compression) (tr : Bool) (f : List UInt8)
    (h : encodeReq k r c tr = .ok f) (hlen : f.length - 9 < 2 ^ 32) :
    9 ≤ f.length ∧
    f[0]? = some 4 ∧
    f[1]? = some (UInt8.ofNat ((if c.isSome then 1 else 0) + (if tr then 2 else 0))) ∧
    f[2]? = some 0 ∧ f[3]? = some 0 ∧
    f[4]? = some (UInt8.ofNat (specOpcode r)) ∧
    rdU32 (f.drop 5) = some (f.length - 9, f.drop 9) ∧
    parseHeader f = some ({ compressed := c.isSome, tracing := tr, stream := 0, opcode := specOpcode r,
                            length := f.length - 9 }, f.drop 9) := by
  simp only [encodeReq] at h
  split at h
  · cases h
  · rename_i body hbody
    split at h
    · cases h
    · rename_i pl hpl
      cases h
      have hl : (header (frameFlags c.isSome tr) (opcode r) pl.length ++ pl).length = 9 + pl.length := by
        simp [header, be32]; omega
      rw [hl] at hlen ⊢
      have hpl' : pl.length < 2 ^ 32 := by omega
      have hd : (header (frameFlags c.isSome tr) (opcode r) pl.length ++ pl).drop 9 = pl := by
        simp [header, be32]
      have hph := parseHeader_header c.isSome tr r pl hpl'
      rw [hd]
      have e : 9 + pl.length - 9 = pl.length := by omega
      rw [e]
      refine ⟨by omega, ?_, ?_, ?_, ?_, ?_, ?_, hph⟩
      · simp [header]; rfl
      · simp only [header, List.cons_append, List.getElem?_cons_succ, List.getElem?_cons_zero]
        cases c <;> cases tr <;>
          simp [frameFlags, flagIf, Generated.frameFlag_COMPRESSION, Generated.frameFlag_TRACING]
      · simp [header]
      · simp [header]
      · simp [header, opcode_spec]
      · have : (header (frameFlags c.isSome tr) (opcode r) pl.length ++ pl).drop 5 = be32 pl.length ++ pl := by
          simp [header]
        rw [this, rdU32_be32, Nat.mod_eq_of_lt hpl']

/-- The `(data.len() - HEADER_SIZE) as u32` cast, unconditionally: the length field is the payload size modulo 2^32
(so a payload of 4 GiB or more would be mis-announced; `frame_valid` carries the hypothesis that excludes it). -/
theorem frame_length_field_is_cast (k : Codec) (r : Req) (c : Option Compression) (tr : Bool) (f : List UInt8)
    (h : encodeReq k r c tr = .ok f) :
    rdU32 (f.drop 5) = some ((f.length - 9) % 2 ^ 32, f.drop 9) := by
  simp only [encodeReq] at h
  split at h
  · cases h
  · split at h
    · cases h
    · rename_i pl hpl
      cases h
      have h5 : (header (frameFlags c.isSome tr) (opcode r) pl.length ++ pl).drop 5 = be32 pl.length ++ pl := by
        simp [header]
      have h9 : (header (frameFlags c.isSome tr) (opcode r) pl.length ++ pl).drop 9 = pl := by
        simp [header, be32]
      have hl : (header (frameFlags c.isSome tr) (opcode r) pl.length ++ pl).length - 9 = pl.length := by
        simp [header, be32]
      rw [h5, h9, hl, rdU32_be32]

example : ∃ f, encodeReq ⟨id, fun _ _ => none, some, fun _ => none, fun _ => none⟩ (.query [0x78] ⟨.one, none, none, some 5000, none, true, [.null]⟩)
    none true = .ok f ∧ f.take 9 = [4, 2, 0, 0, 7, 0, 0, 0, 18] := ⟨_, rfl, by decide⟩

/-! ### the body reads back to what was asked -/

/-- **parse_encode.** For every request — every subset of the optional QUERY/EXECUTE/BATCH fields, any value list
(null / unset / bytes), any batch shape — if the driver emits an uncompressed frame then the independent protocol
parser reads it back to exactly the request: kind, statement text or id (and result-metadata id), consistency, serial
consistency, page size, paging state, timestamp, skip-metadata flag, the values in order; for BATCH the type and the
statements in order each with its own values; STARTUP options (in the map's iteration order), REGISTER event names,
AUTH_RESPONSE token; the tracing flag; nothing left over.  (`hlen`: the body is below 4 GiB.)  For a BATCH the view pairs
statement `i` with value list `i` (`List.zip`); the second conjunct says no statement or value list is lost in that
pairing: an emitted BATCH always has exactly one value list per statement. -/
theorem parse_encode (k : Codec) (r : Req) (tr : Bool) (f : List UInt8)
    (h : encodeReq k r none tr = .ok f) (hlen : f.length - 9 < 2 ^ 32) :
    parseReq (hasMetadataId r) f = some { compressed := false, tracing := tr, stream := 0, req := view r } ∧
    (∀ ty ss vs c sc ts, r = .batch ty ss vs c sc ts → ss.length = vs.length) := by
  refine ⟨?_, ?_⟩
  case refine_2 =>
    intro ty ss vs c sc ts hr
    subst hr
    cases hb : encodeBody (.batch ty ss vs c sc ts) with
    | error e => simp [encodeReq, hb] at h
    | ok b => exact (rdBody_encodeBody hb).1.2.1
  obtain ⟨_, _, _, _, _, _, _, hph⟩ := frame_valid k r none tr f h hlen
  simp only [encodeReq] at h
  split at h
  · cases h
  · rename_i body hbody
    simp only [Except.ok.injEq] at h
    subst h
    obtain ⟨_, hrd⟩ := rdBody_encodeBody hbody
    have hd : (header (frameFlags (none : Option Compression).isSome tr) (opcode r) body.length ++ body).drop 9 = body := by
      simp [header, be32]
    rw [hd] at hph
    simp only [Option.isSome_none] at hph
    have hb := hrd []
    rw [List.append_nil] at hb
    simp [parseReq, hph, parseBody, hb]

/-- `set_stream` only changes the stream id the parser reads. -/
theorem parse_encode_set_stream (k : Codec) (r : Req) (tr : Bool) (f : List UInt8) (s : Int16)
    (h : encodeReq k r none tr = .ok f) (hlen : f.length - 9 < 2 ^ 32) :
    parseReq (hasMetadataId r) (setStream f s) =
      some { compressed := false, tracing := tr, stream := s.toUInt16.toNat, req := view r } := by
  simp only [encodeReq] at h
  split at h
  · cases h
  · rename_i body hbody
    simp only [Except.ok.injEq] at h
    subst h
    have hl : (header (frameFlags (none : Option Compression).isSome tr) (opcode r) body.length ++ body).length - 9
        = body.length := by simp [header, be32]
    rw [hl] at hlen
    obtain ⟨_, hrd⟩ := rdBody_encodeBody hbody
    have hb := hrd []
    rw [List.append_nil] at hb
    have hs : s.toUInt16.toNat < 2 ^ 16 := s.toUInt16.toNat_lt
    have hph := parseHeader_header_stream false tr r body hlen s.toUInt16.toNat hs
    have e : setStream (header (frameFlags (none : Option Compression).isSome tr) (opcode r) body.length ++ body) s =
        headerWithStream (frameFlags false tr) (opcode r) body.length s.toUInt16.toNat ++ body := by
      simp [setStream, header, headerWithStream]
    rw [e]
    simp [parseReq, hph, parseBody, hb]

/-- **encode_injective.** Per mode (same tracing flag, same "EXECUTE carries a result-metadata id" mode — the one bit
the parser has to be told, as a server knows it from the negotiated extension): two requests with the same frame are the
same request.  Nothing the caller asked for is lost or conflated on the wire. -/
theorem encode_injective (k : Codec) (r₁ r₂ : Req) (tr : Bool) (f : List UInt8)
    (h₁ : encodeReq k r₁ none tr = .ok f) (h₂ : encodeReq k r₂ none tr = .ok f)
    (hm : hasMetadataId r₁ = hasMetadataId r₂) (hlen : f.length - 9 < 2 ^ 32) : r₁ = r₂ := by
  have p₁ := (parse_encode k r₁ tr f h₁ hlen).1
  have p₂ := (parse_encode k r₂ tr f h₂ hlen).1
  rw [hm, p₂] at p₁
  simp only [Option.some.injEq, FrameView.mk.injEq, true_and] at p₁
  have s₁ : batchShapeOk r₁ := by
    cases hb : encodeBody r₁ with
    | error e => simp [encodeReq, hb] at h₁
    | ok b => exact encodeBody_batchShape hb
  have s₂ : batchShapeOk r₂ := by
    cases hb : encodeBody r₂ with
    | error e => simp [encodeReq, hb] at h₂
    | ok b => exact encodeBody_batchShape hb
  exact (view_inj s₂ s₁ p₁).symm

/-! ### compression -/

/-- What is assumed of the external block codecs (explicit hypotheses of `compressed_body`, not axioms):
* `lz4_inv`: `lz4_flex::decompress (lz4_flex::compress b) |b| = b`;
* `lz4_ratio`: an LZ4 block never expands to more than `255·|block| + 64` bytes — a fact of the LZ4 block format (a
  sequence encodes at most 255 output bytes per input byte), which the driver's `decompress` relies on as a guard;
* `snap_inv`: `Decoder::decompress_vec (Encoder::compress b) = b`, and `decompress_len` of the block is `|b|`;
* `snap_ratio`: a Snappy block never expands to more than `64·|block| + 64` bytes (guard of `decompress`). -/
structure CodecLaws (k : Codec) : Prop where
  lz4_inv : ∀ b, k.unlz4 (k.lz4 b) b.length = some b
  lz4_ratio : ∀ b, b.length ≤ (k.lz4 b).length * 255 + 64
  snap_inv : ∀ b cb, k.snappy b = some cb → k.unsnappy cb = some b ∧ k.snappyLen cb = some b.length
  snap_ratio : ∀ b cb, k.snappy b = some cb → b.length ≤ cb.length * 64 + 64

/-- The codec laws are satisfiable (the "stored" codec: blocks are the data itself). -/
example : CodecLaws ⟨id, fun b n => if b.length = n then some b else none, some, some, fun b => some b.length⟩ :=
  ⟨by intro b; simp, by intro b; simp only [id]; omega,
   by intro b cb h; simp only [Option.some.injEq] at h; subst h; exact ⟨rfl, rfl⟩,
   by intro b cb h; simp only [Option.some.injEq] at h; subst h; omega⟩

/-- **compressed_body.** With compression negotiated the header carries the compression flag and the compressed
size, and — assuming `CodecLaws k` — the payload goes through the driver's own `decompress` *including its size
guards* and comes out as exactly the uncompressed body, which the independent parser reads back to the request.
The uncompressed body must be below 4 GiB (LZ4's `uncomp_body.len() as u32` prefix). -/
theorem compressed_body (k : Codec) (r : Req) (c : Compression) (tr : Bool) (f : List UInt8)
    (laws : CodecLaws k)
    (h : encodeReq k r (some c) tr = .ok f) (hlen : f.length - 9 < 2 ^ 32) :
    ∃ body, encodeBody r = .ok body ∧
      (body.length < 2 ^ 32 → decompress k c (f.drop 9) = some body ∧
        parseReqCompressed (hasMetadataId r) (decompress k c) f =
          some { compressed := true, tracing := tr, stream := 0, req := view r }) := by
  obtain ⟨_, _, _, _, _, _, _, hph⟩ := frame_valid k r (some c) tr f h hlen
  simp only [encodeReq] at h
  split at h
  · cases h
  · rename_i body hbody
    refine ⟨body, hbody, ?_⟩
    intro hbl
    split at h
    · cases h
    · rename_i pl hpl
      simp only [Except.ok.injEq] at h
      subst h
      have hd : (header (frameFlags (some c).isSome tr) (opcode r) pl.length ++ pl).drop 9 = pl := by
        simp [header, be32]
      rw [hd] at hph ⊢
      simp only [Option.isSome_some] at hph
      have hdec : decompress k c pl = some body := by
        cases c with
        | lz4 =>
          simp only [compressAppend, Except.ok.injEq] at hpl
          subst hpl
          have hr := laws.lz4_ratio body
          have hg : ¬ body.length > (k.lz4 body).length * Generated.decompressGuard_lz4_mul
              + Generated.decompressGuard_lz4_add := by
            simp only [Generated.decompressGuard_lz4_mul, Generated.decompressGuard_lz4_add]; omega
          simp only [decompress, decompressE, rdU32_be32, Nat.mod_eq_of_lt hbl, hg, if_false, laws.lz4_inv]
        | snappy =>
          simp only [compressAppend] at hpl
          split at hpl
          · rename_i cb hcb
            cases hpl
            obtain ⟨h1, h2⟩ := laws.snap_inv body _ hcb
            have hr := laws.snap_ratio body _ hcb
            have hg : ¬ body.length > pl.length * Generated.decompressGuard_snappy_mul
                + Generated.decompressGuard_snappy_add := by
              simp only [Generated.decompressGuard_snappy_mul, Generated.decompressGuard_snappy_add]; omega
            simp only [decompress, decompressE, h2, hg, if_false, h1]
          · cases hpl
      refine ⟨hdec, ?_⟩
      obtain ⟨_, hrd⟩ := rdBody_encodeBody hbody
      have hb := hrd []
      rw [List.append_nil] at hb
      simp [parseReqCompressed, hph, hdec, parseBody, hb]

/-- **encode_injective_compressed.** The compressed counterpart of `encode_injective`: with the same negotiated
compression, tracing flag and result-metadata-id mode, and codecs obeying `CodecLaws`, equal frames mean equal requests
(bodies below 4 GiB). -/
theorem encode_injective_compressed (k : Codec) (laws : CodecLaws k) (r₁ r₂ : Req) (c : Compression) (tr : Bool)
    (f : List UInt8)
    (h₁ : encodeReq k r₁ (some c) tr = .ok f) (h₂ : encodeReq k r₂ (some c) tr = .ok f)
    (hm : hasMetadataId r₁ = hasMetadataId r₂) (hlen : f.length - 9 < 2 ^ 32)
    (hb₁ : ∀ b, encodeBody r₁ = .ok b → b.length < 2 ^ 32) (hb₂ : ∀ b, encodeBody r₂ = .ok b → b.length < 2 ^ 32) :
    r₁ = r₂ := by
  obtain ⟨b₁, e₁, p₁⟩ := compressed_body k r₁ c tr f laws h₁ hlen
  obtain ⟨b₂, e₂, p₂⟩ := compressed_body k r₂ c tr f laws h₂ hlen
  have q₁ := (p₁ (hb₁ b₁ e₁)).2
  have q₂ := (p₂ (hb₂ b₂ e₂)).2
  rw [hm, q₂] at q₁
  simp only [Option.some.injEq, FrameView.mk.injEq, true_and] at q₁
  exact (view_inj (encodeBody_batchShape e₂) (encodeBody_batchShape e₁) q₁).symm

/-- `set_stream` on a compressed frame: the parser (given the negotiated decompressor) reads the same request with the
new stream id. -/
theorem compressed_set_stream (k : Codec) (laws : CodecLaws k) (r : Req) (c : Compression) (tr : Bool) (f : List UInt8)
    (s : Int16) (h : encodeReq k r (some c) tr = .ok f) (hlen : f.length - 9 < 2 ^ 32)
    (hb : ∀ b, encodeBody r = .ok b → b.length < 2 ^ 32) :
    parseReqCompressed (hasMetadataId r) (decompress k c) (setStream f s) =
      some { compressed := true, tracing := tr, stream := s.toUInt16.toNat, req := view r } := by
  obtain ⟨body, hbody, hp⟩ := compressed_body k r c tr f laws h hlen
  obtain ⟨hdec, _⟩ := hp (hb body hbody)
  simp only [encodeReq, hbody] at h
  split at h
  · cases h
  · rename_i pl hpl
    simp only [Except.ok.injEq] at h
    subst h
    have hl : (header (frameFlags (some c).isSome tr) (opcode r) pl.length ++ pl).length - 9 = pl.length := by
      simp [header, be32]
    have hd : (header (frameFlags (some c).isSome tr) (opcode r) pl.length ++ pl).drop 9 = pl := by
      simp [header, be32]
    rw [hl] at hlen
    rw [hd] at hdec
    obtain ⟨_, hrd⟩ := rdBody_encodeBody hbody
    have hb' := hrd []
    rw [List.append_nil] at hb'
    have hs : s.toUInt16.toNat < 2 ^ 16 := s.toUInt16.toNat_lt
    have hph := parseHeader_header_stream true tr r pl hlen s.toUInt16.toNat hs
    have e : setStream (header (frameFlags (some c).isSome tr) (opcode r) pl.length ++ pl) s =
        headerWithStream (frameFlags true tr) (opcode r) pl.length s.toUInt16.toNat ++ pl := by
      simp [setStream, header, headerWithStream]
    rw [e]
    simp [parseReqCompressed, hph, hdec, parseBody, hb']

/-- The guards of the model's `decompress` use the constants extracted from `frame::decompress` on every run; these
are the values the LZ4 / Snappy format bounds call for (255 output bytes per LZ4 input byte, 64 per Snappy copy). -/
theorem decompress_guard_constants :
    Generated.decompressGuard_lz4_mul = 255 ∧ Generated.decompressGuard_lz4_add = 64 ∧
    Generated.decompressGuard_snappy_mul = 64 ∧ Generated.decompressGuard_snappy_add = 64 := ⟨rfl, rfl, rfl, rfl⟩

/-- **decompress_guards.** What `decompress` does with *any* body (foreign, truncated, hostile): an LZ4 body shorter
than its prefix is refused; a declared size above `len·255 + 64` (LZ4, `len` = bytes after the prefix) or `len·64 + 64`
(Snappy) is refused *without calling the decoder*; otherwise the answer is the block decoder's. -/
theorem decompress_guards (k : Codec) (comp : List UInt8) :
    (comp.length < 4 → decompressE k .lz4 comp = .error .prefix) ∧
    (∀ n rest, rdU32 comp = some (n, rest) →
      decompressE k .lz4 comp = if n > rest.length * 255 + 64 then .error .guard
        else match k.unlz4 rest n with | some b => .ok b | none => .error .codec) ∧
    (k.snappyLen comp = none → decompressE k .snappy comp = .error .header) ∧
    (∀ n, k.snappyLen comp = some n →
      decompressE k .snappy comp = if n > comp.length * 64 + 64 then .error .guard
        else match k.unsnappy comp with | some b => .ok b | none => .error .codec) := by
  refine ⟨?_, ?_, ?_, ?_⟩
  · intro h
    match comp, h with
    | [], _ => rfl
    | [_], _ => rfl
    | [_, _], _ => rfl
    | [_, _, _], _ => rfl
    | _ :: _ :: _ :: _ :: _, h => simp at h; omega
  · intro n rest h
    simp only [decompressE, h, Generated.decompressGuard_lz4_mul, Generated.decompressGuard_lz4_add]
    by_cases hg : n > rest.length * 255 + 64 <;> simp [hg]
    cases k.unlz4 rest n <;> rfl
  · intro h; simp only [decompressE, h]
  · intro n h
    simp only [decompressE, h, Generated.decompressGuard_snappy_mul, Generated.decompressGuard_snappy_add]
    by_cases hg : n > comp.length * 64 + 64 <;> simp [hg]
    cases k.unsnappy comp <;> rfl

/-- Without `lz4_ratio` the driver's `decompress` would refuse its own frame: the guard is really there
(declared size 65 with an empty block: 65 > 0·255 + 64). -/
example : (match decompressE ⟨fun _ => [], fun _ _ => some [], some, some, fun b => some b.length⟩ .lz4 (be32 65 ++ []),
      decompressE ⟨fun _ => [], fun _ _ => some [], some, some, fun b => some b.length⟩ .lz4 (be32 64 ++ []) with
    | .error .guard, .ok [] => true | _, _ => false) = true := by decide

/-! ### oversize inputs are refused, never truncated -/

/-- **oversize_refused.** Whenever the driver produces a body at all, the request is representable in a v4 frame:
statement texts below 2^31 bytes, statement ids / result-metadata ids / STARTUP strings below 2^16 bytes, at most 65535
values per statement, at most 65535 batch statements / options / event types, values and paging state below 2^31
bytes, and exactly one value list per batch statement.  Contrapositive: anything larger (or a count mismatch in either
direction) yields an error — together with `parse_encode` (what is emitted reads back *equal*), nothing is ever
truncated. -/
theorem oversize_refused (r : Req) (h : ¬ Representable r) : ∃ e, encodeBody r = .error e := by
  cases hb : encodeBody r with
  | error e => exact ⟨e, rfl⟩
  | ok b => exact absurd (rdBody_encodeBody hb).1 h

theorem oversize_refused_frame (k : Codec) (r : Req) (c : Option Compression) (tr : Bool) (h : ¬ Representable r) :
    ∃ e, encodeReq k r c tr = .error e := by
  obtain ⟨e, he⟩ := oversize_refused r h
  exact ⟨e, by simp [encodeReq, he]⟩

/-- Conversely the driver refuses *only* what does not fit: every representable request is encoded.  Together:
the encoder succeeds exactly on the representable requests. -/
theorem representable_accepted (r : Req) (h : Representable r) : ∃ b, encodeBody r = .ok b :=
  encodeBody_complete h

theorem encode_ok_iff_representable (r : Req) : (∃ b, encodeBody r = .ok b) ↔ Representable r :=
  ⟨fun ⟨_, hb⟩ => (rdBody_encodeBody hb).1, representable_accepted r⟩

/-- The individual guards, spelled out. -/
theorem oversize_cases (k : Codec) (c : Option Compression) (tr : Bool) :
    (∀ t p, 2 ^ 31 ≤ t.length → ∃ e, encodeReq k (.query t p) c tr = .error e) ∧
    (∀ t, 2 ^ 31 ≤ t.length → ∃ e, encodeReq k (.prepare t) c tr = .error e) ∧
    (∀ i m p, 2 ^ 16 ≤ i.length → ∃ e, encodeReq k (.execute i m p) c tr = .error e) ∧
    (∀ i m p, 2 ^ 16 ≤ m.length → ∃ e, encodeReq k (.execute i (some m) p) c tr = .error e) ∧
    (∀ t p, 65535 < p.values.length → ∃ e, encodeReq k (.query t p) c tr = .error e) ∧
    (∀ i m p, 65535 < p.values.length → ∃ e, encodeReq k (.execute i m p) c tr = .error e) ∧
    (∀ ty ss vs cn sc ts, 65535 < ss.length → ∃ e, encodeReq k (.batch ty ss vs cn sc ts) c tr = .error e) ∧
    (∀ ty ss vs cn sc ts, ss.length ≠ vs.length → ∃ e, encodeReq k (.batch ty ss vs cn sc ts) c tr = .error e) ∧
    (∀ ty ss vs cn sc ts i, .prepared i ∈ ss → 2 ^ 16 ≤ i.length →
      ∃ e, encodeReq k (.batch ty ss vs cn sc ts) c tr = .error e) ∧
    (∀ ty ss vs cn sc ts l, l ∈ vs → 65535 < l.length →
      ∃ e, encodeReq k (.batch ty ss vs cn sc ts) c tr = .error e) ∧
    -- a bound value of 2^31 bytes or more (QUERY / EXECUTE / any BATCH statement)
    (∀ t p b, .val b ∈ p.values → 2 ^ 31 ≤ b.length → ∃ e, encodeReq k (.query t p) c tr = .error e) ∧
    (∀ i m p b, .val b ∈ p.values → 2 ^ 31 ≤ b.length → ∃ e, encodeReq k (.execute i m p) c tr = .error e) ∧
    (∀ ty ss vs cn sc ts l b, l ∈ vs → .val b ∈ l → 2 ^ 31 ≤ b.length →
      ∃ e, encodeReq k (.batch ty ss vs cn sc ts) c tr = .error e) ∧
    -- an unprepared BATCH statement text of 2^31 bytes or more
    (∀ ty ss vs cn sc ts t, .query t ∈ ss → 2 ^ 31 ≤ t.length →
      ∃ e, encodeReq k (.batch ty ss vs cn sc ts) c tr = .error e) ∧
    -- a paging state of 2^31 bytes or more (QUERY / EXECUTE)
    (∀ t p ps, p.pagingState = some ps → 2 ^ 31 ≤ ps.length → ∃ e, encodeReq k (.query t p) c tr = .error e) ∧
    (∀ i m p ps, p.pagingState = some ps → 2 ^ 31 ≤ ps.length → ∃ e, encodeReq k (.execute i m p) c tr = .error e) ∧
    -- an AUTH_RESPONSE token of 2^31 bytes or more
    (∀ b, 2 ^ 31 ≤ b.length → ∃ e, encodeReq k (.authResponse (some b)) c tr = .error e) ∧
    -- a STARTUP key or value of 2^16 bytes or more, more than 65535 STARTUP entries
    (∀ opts kv, kv ∈ opts → (2 ^ 16 ≤ kv.1.length ∨ 2 ^ 16 ≤ kv.2.length) →
      ∃ e, encodeReq k (.startup opts) c tr = .error e) ∧
    (∀ opts, 65535 < opts.length → ∃ e, encodeReq k (.startup opts) c tr = .error e) ∧
    -- more than 65535 REGISTER event types
    (∀ evs, 65535 < evs.length → ∃ e, encodeReq k (.register evs) c tr = .error e) := by
  refine ⟨?_, ?_, ?_, ?_, ?_, ?_, ?_, ?_, ?_, ?_, ?_, ?_, ?_, ?_, ?_, ?_, ?_, ?_, ?_, ?_⟩
  · intro t p h; apply oversize_refused_frame; intro hr; have := hr.1; omega
  · intro t h; apply oversize_refused_frame; intro hr; simp only [Representable] at hr; omega
  · intro i m p h; apply oversize_refused_frame; intro hr; have := hr.1; omega
  · intro i m p h; apply oversize_refused_frame; intro hr; have := hr.2.1 m rfl; omega
  · intro t p h; apply oversize_refused_frame; intro hr; have := hr.2.1.1; omega
  · intro i m p h; apply oversize_refused_frame; intro hr; have := hr.2.2.1.1; omega
  · intro ty ss vs cn sc ts h; apply oversize_refused_frame; intro hr; have := hr.1; omega
  · intro ty ss vs cn sc ts h; apply oversize_refused_frame; intro hr; exact h hr.2.1
  · intro ty ss vs cn sc ts i hi h; apply oversize_refused_frame; intro hr
    have := hr.2.2.1 _ hi; simp only [stmtFits] at this; omega
  · intro ty ss vs cn sc ts l hl h; apply oversize_refused_frame; intro hr
    have := (hr.2.2.2 _ hl).1; omega
  · intro t p b hb h; apply oversize_refused_frame; intro hr
    have := hr.2.1.2 _ hb; simp only [cellFits] at this; omega
  · intro i m p b hb h; apply oversize_refused_frame; intro hr
    have := hr.2.2.1.2 _ hb; simp only [cellFits] at this; omega
  · intro ty ss vs cn sc ts l b hl hb h; apply oversize_refused_frame; intro hr
    have := (hr.2.2.2 _ hl).2 _ hb; simp only [cellFits] at this; omega
  · intro ty ss vs cn sc ts t ht h; apply oversize_refused_frame; intro hr
    have := hr.2.2.1 _ ht; simp only [stmtFits] at this; omega
  · intro t p ps hps h; apply oversize_refused_frame; intro hr; have := hr.2.2 ps hps; omega
  · intro i m p ps hps h; apply oversize_refused_frame; intro hr; have := hr.2.2.2 ps hps; omega
  · intro b h; apply oversize_refused_frame; intro hr; have := hr b rfl; omega
  · intro opts kv hkv h; apply oversize_refused_frame; intro hr; have := hr.2 kv hkv; omega
  · intro opts h; apply oversize_refused_frame; intro hr; have := hr.1; omega
  · intro evs h; apply oversize_refused_frame; intro hr; simp only [Representable] at hr; omega

/-- **bigField_sound.** For the request shapes of the `biglen` cases (one field of arbitrary size, everything else
small) the length-only function `bigFieldErr` — which is what the model driver runs, because a 2 GiB `List UInt8`
cannot be built — gives exactly the encoder's answer (accepted, or the same error kind) for every byte string of that
length. -/
theorem bigField_sound (what : BigField) (b : List UInt8) :
    bigFieldRun what b = (match bigFieldErr what b.length with | none => .ok () | some e => .error e) := by
  by_cases h : b.length < 2 ^ 31 <;> cases what <;>
    simp [bigFieldRun, bigFieldErr, encodeBody, mkSerVals, addValues, encodeCell, writeLongString, writeIntLength,
      writeBytes, writeBytesOpt, writeShortBytes, writeString, writeShortLength, encodeParams, defaultParams,
      mkSerValsList, encodeBatch, batchLoop, encodeBatchStmt, encodeBatchA, batchLoopA, rowCells, h]

/-! ### BATCH built through `RawBatchValuesAdapter` (typed rows + per-statement contexts; the session's path) -/

/-- `SerializedRequest::make` is the same function whether the body comes from a `Req` or from the adapter path. -/
theorem encodeReq_eq (k : Codec) (r : Req) (c : Option Compression) (tr : Bool) :
    encodeReq k r c tr = encodeFrameOf k (encodeBody r) (opcode r) c tr := rfl

/-- **adapter_batch_refines.** Whenever the adapter path produces a BATCH body it is byte for byte the body of the
plain BATCH request with the same statements and value lists (so `frame_valid`, `parse_encode`, `compressed_body` apply
to it), and every row had exactly as many values as its statement's context has columns. -/
theorem adapter_batch_refines (ty : BatchType) (stmts : List (BatchStmt × Nat)) (vals : List (List RawVal))
    (c : Consistency) (sc : Option SerialConsistency) (ts : Option Int64) (b : List UInt8)
    (h : encodeBatchA ty stmts vals c sc ts = .ok b) :
    encodeBody (.batch ty (stmts.map Prod.fst) vals c sc ts) = .ok b ∧ stmts.map Prod.snd = vals.map List.length :=
  encodeBatchA_refines h

/-- **adapter_batch_parse.** The frame of an adapter-built BATCH reads back (independent parser) to the statements in
order, each with its own values, and the batch options. -/
theorem adapter_batch_parse (k : Codec) (ty : BatchType) (stmts : List (BatchStmt × Nat)) (vals : List (List RawVal))
    (c : Consistency) (sc : Option SerialConsistency) (ts : Option Int64) (tr : Bool) (f : List UInt8)
    (h : encodeFrameOf k (encodeBatchA ty stmts vals c sc ts) Generated.requestOpcode_Batch none tr = .ok f)
    (hlen : f.length - 9 < 2 ^ 32) :
    parseReq false f = some ⟨false, tr, 0,
      .batch ty (((stmts.map Prod.fst).map viewStmt).zip vals) c sc (ts.map Int64.toInt)⟩ := by
  cases hb : encodeBatchA ty stmts vals c sc ts with
  | error e => rw [hb] at h; simp [encodeFrameOf] at h
  | ok b =>
    obtain ⟨hbody, _⟩ := encodeBatchA_refines hb
    have hreq : encodeReq k (.batch ty (stmts.map Prod.fst) vals c sc ts) none tr = .ok f := by
      rw [encodeReq_eq, hbody, ← hb]; exact h
    exact (parse_encode k _ tr f hreq hlen).1

/-- **adapter_batch_mismatch_refused.** More (or fewer) value lists than statements, more than 65535 statements, a row
that does not match its context, or an oversize id / row: the adapter path answers an error, never a frame with the
surplus dropped. -/
theorem adapter_batch_mismatch_refused (ty : BatchType) (stmts : List (BatchStmt × Nat)) (vals : List (List RawVal))
    (c : Consistency) (sc : Option SerialConsistency) (ts : Option Int64)
    (h : stmts.length ≠ vals.length ∨ stmts.map Prod.snd ≠ vals.map List.length ∨
      ¬ Representable (.batch ty (stmts.map Prod.fst) vals c sc ts)) :
    ∃ e, encodeBatchA ty stmts vals c sc ts = .error e := by
  cases hb : encodeBatchA ty stmts vals c sc ts with
  | error e => exact ⟨e, rfl⟩
  | ok b =>
    exfalso
    obtain ⟨hbody, hctx⟩ := encodeBatchA_refines hb
    have hrep := (rdBody_encodeBody hbody).1
    rcases h with h | h | h
    · have := hrep.2.1; simp at this; exact h this
    · exact h hctx
    · exact h hrep

example : (match encodeBatchA .logged [(.query [0x78], 0), (.prepared [1, 2], 2)] [[], [.val [0], .null], []] .one none none,
      encodeBatchA .logged [(.query [0x78], 0), (.prepared [1, 2], 2)] [[], [.val [0], .null]] .one none none with
    | .error (.batchMismatch 3 2), .ok _ => true | _, _ => false) = true := by decide +kernel

-- non-vacuity: a 65536-byte id is refused, a 65535-byte id is accepted; a count mismatch is refused both ways
example : (match encodeBody (.execute (List.replicate 65536 0) none ⟨.one, none, none, none, none, false, []⟩) with
    | .error .executeStatementId => true | _ => false) = true := by decide +kernel
example : (encodeBody (.execute (List.replicate 65535 0) none ⟨.one, none, none, none, none, false, []⟩)).toBool = true := by
  decide +kernel
example : (match encodeBody (.batch .logged [.query [0x78]] [] .one none none),
      encodeBody (.batch .logged [.query [0x78]] [[], [.null]] .one none none) with
    | .error (.batchMismatch 0 1), .error (.batchMismatch 2 1) => true | _, _ => false) = true := by
  decide +kernel

end ScyllaVerif.Props.C09

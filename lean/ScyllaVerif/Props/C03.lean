/-
C03 — routing token equals the server-side partitioner's token for the bound key.
Property theorems only; helper lemmas live in `Proofs/Murmur3.lean`, `Proofs/PartitionKey.lean`.
Models: `Model/Murmur3.lean` (streaming hasher, Cassandra one-shot spec, CDC), `Model/PartitionKey.lean`.
-/
import ScyllaVerif.Model.Murmur3
import ScyllaVerif.Model.PartitionKey
import ScyllaVerif.Proofs.Murmur3
import ScyllaVerif.Proofs.Murmur3Java
import ScyllaVerif.Proofs.PartitionKey
import ScyllaVerif.Model.SerializedValuesC03
import ScyllaVerif.Proofs.SerializedValuesC03

namespace ScyllaVerif.Props.C03
open ScyllaVerif.Murmur3 ScyllaVerif.PartitionKey
open ScyllaVerif.Proofs.Murmur3 ScyllaVerif.Proofs.Murmur3Java ScyllaVerif.Proofs.PartitionKey

deriving instance DecidableEq for Except

private theorem pkIndexesOfWire_length (wire : List Nat) : (pkIndexesOfWire wire).length = wire.length := by
  unfold pkIndexesOfWire
  rw [(List.mergeSort_perm _ _).length_eq, wirePairs_length]

/-! ### the streaming hasher computes Cassandra's one-shot Murmur3, however the bytes are chunked -/

/-- **Chunking independence.** For every list of chunks — empty chunks, 1-byte chunks, chunks straddling any number
of 16-byte blocks — feeding them one by one to the driver's buffered hasher and calling `finish` gives the
server-side token (Cassandra's one-shot `hash3_x64_128` with signed tail bytes, `MIN ↦ MAX`) of the concatenation. -/
theorem chunking_independent (chunks : List (List UInt8)) :
    finish (chunks.foldl write init) = murmur3Spec chunks.flatten := by
  have h := inv_foldl chunks init [] inv_init
  simp only [List.nil_append] at h
  unfold finish murmur3Spec
  rw [finishRaw_of_inv _ _ h]

/-- The same from any reachable hasher state: a hasher that has absorbed `data` and is then fed `chunks`. -/
theorem write_eq_feed (pre chunks : List (List UInt8)) :
    finish (chunks.foldl write (pre.foldl write init)) = murmur3Spec (pre.flatten ++ chunks.flatten) := by
  rw [← List.foldl_append, chunking_independent, List.flatten_append]

/-- Two chunkings of the same byte string give the same token. -/
theorem chunkings_agree (c₁ c₂ : List (List UInt8)) (h : c₁.flatten = c₂.flatten) :
    finish (c₁.foldl write init) = finish (c₂.foldl write init) := by
  rw [chunking_independent, chunking_independent, h]

/-- `Partitioner::hash_one` is the specification. -/
theorem hashOne_eq_spec (bs : List UInt8) : hashOne bs = murmur3Spec bs := by
  have := chunking_independent [bs]
  simpa [hashOne] using this

-- non-vacuity: a 37-byte key with high bytes, fed as 1 + 0 + 20 + 16 bytes (crosses two block boundaries)
example :
    let data : List UInt8 := (List.range 37).map (fun i => UInt8.ofNat (0x79 + 5 * i))
    finish ([data.take 1, [], (data.drop 1).take 20, data.drop 21].foldl write init) = murmur3Spec data ∧
      murmur3Spec data = hashOne data := by decide +kernel

/-! ### token normalisation -/

theorem tokenNew_ne_min (v : Int64) : tokenNew v ≠ Int64.minValue := by
  unfold tokenNew
  split
  · decide
  · assumption

/-- The Murmur3 token is never `i64::MIN`. -/
theorem token_normalised (chunks : List (List UInt8)) : finish (chunks.foldl write init) ≠ Int64.minValue :=
  tokenNew_ne_min _

theorem murmur3Spec_ne_min (bs : List UInt8) : murmur3Spec bs ≠ Int64.minValue := tokenNew_ne_min _

example : tokenNew Int64.minValue = Int64.maxValue ∧ tokenNew 5 = 5 := by decide

/-! ### the one-shot form is Cassandra's Java, statement by statement; the server-side token

`Murmur3.Java.*` transliterates `MurmurHash.hash3_x64_128` (block loop over `getblock` with `+`/`& 0xff`, the literal
15-case fall-through `switch(length & 15)` with signed `(long) key.get(..)` casts, `fmix`) and
`Murmur3Partitioner.getToken` without sharing a definition with the driver model. -/

/-- The Java transliteration computes `murmur3Raw` on every byte string (all lengths, all byte values). -/
theorem java_transliteration_eq (key : List UInt8) : (Java.hash3_x64_128 key).1 = murmur3Raw key :=
  java_eq_raw key

/-- `(long) b` of a Java byte is the driver's `b as i8 as i64`; `getblock` is the little-endian load. -/
theorem java_byte_and_block (b : UInt8) (key : List UInt8) (offset index : Nat) :
    Java.toLong b = sext b ∧ Java.getblock key offset index = le64 (key.drop (offset + 8 * index)) :=
  ⟨toLong_eq_sext b, getblock_eq_le64 key offset index⟩

/-- **The routing token is the server-side token.** For every chunking of a NON-EMPTY key the driver's hasher returns
`Murmur3Partitioner.getToken(key)`. (Empty keys: see `empty_key`.) -/
theorem token_eq_server (chunks : List (List UInt8)) (hne : chunks.flatten ≠ []) :
    finish (chunks.foldl write init) = Java.getToken chunks.flatten := by
  rw [chunking_independent, getToken_eq_spec _ hne]

theorem murmur3Spec_eq_server (key : List UInt8) (hne : key ≠ []) : murmur3Spec key = Java.getToken key :=
  (getToken_eq_spec key hne).symm

/-- What happens on the empty key, which is outside the server's domain (a partition key may not be empty: the server
rejects the request): the driver computes 0 for every chunking of it, the server-side `getToken` is the minimum token. -/
theorem empty_key (chunks : List (List UInt8)) (he : chunks.flatten = []) :
    finish (chunks.foldl write init) = 0 ∧ Java.getToken chunks.flatten = Int64.minValue := by
  rw [chunking_independent, he]
  decide +kernel

-- non-vacuity: a 3-byte key of bytes ≥ 0x80 written as 2 + 0 + 1 bytes
example : finish ([[0x80, 0x91], [], [0xa2]].foldl write init) = Java.getToken [0x80, 0x91, 0xa2] :=
  token_eq_server _ (by decide)

/-! ### tests (not theorems): public MurmurHash3_x64_128 / Cassandra-token vectors on the Java transliteration -/

-- test: SMHasher / mmh3 reference value, 43 bytes = 2 blocks + 11-byte tail (k2 positions 8..10):
-- MurmurHash3_x64_128("The quick brown fox jumps over the lazy dog", 0) = e34bbc7bbc071b6c 7a433ca9c49a9347
example : Java.hash3_x64_128 "The quick brown fox jumps over the lazy dog".toUTF8.toList =
    (0xe34bbc7bbc071b6c, 0x7a433ca9c49a9347) := by decide +kernel
-- test: mmh3 documentation, hash128("foo") = 168394135621993849475852668931176482145 (= h2·2^64 + h1)
example : Java.hash3_x64_128 "foo".toUTF8.toList =
    (UInt64.ofNat (168394135621993849475852668931176482145 % 2 ^ 64),
     UInt64.ofNat (168394135621993849475852668931176482145 / 2 ^ 64)) := by decide +kernel
-- test: gocql murmur_test.go H1 values
example : (Java.hash3_x64_128 [0]).1 = 0x4610abe56eff5cb5 ∧ (Java.hash3_x64_128 [0, 1]).1 = 0x7cb3f5c58dab264c := by
  decide +kernel
-- tests: DataStax python-driver tests/unit/test_metadata.py (Cassandra's signed variant):
-- b'123'; b'\x00\xff\x10\xfa\x99' * 10 (50 bytes: 3 blocks with bytes ≥ 0x80 + a 2-byte tail, both ≥ 0x80);
-- b'\xfe' * 8 (tail positions 0..7 all ≥ 0x80); b'\x10' * 8; b'9223372036854775807' (1 block + 3-byte tail)
example : Java.getToken "123".toUTF8.toList = -7468325962851647638 := by decide +kernel
example : Java.getToken (List.replicate 10 [0x00, 0xff, 0x10, 0xfa, 0x99]).flatten = 5837342703291459765 := by
  decide +kernel
example : Java.getToken (List.replicate 8 0xfe) = -8927430733708461935 := by decide +kernel
example : Java.getToken (List.replicate 8 0x10) = 1446172840243228796 := by decide +kernel
example : Java.getToken "9223372036854775807".toUTF8.toList = 7162290910810015547 := by decide +kernel
-- tests: bytes ≥ 0x80 in the tail positions 8..14 (cases 9..15 of the switch). No public vector of this shape is
-- known; these four literals were computed by the round-2 auditor with an independent Python implementation of
-- Cassandra's variant (/tmp/audit2-audit2-A/C03/mm3.py, Vec.lean) - second-source values, not server-derived:
-- 31 bytes 0x80..0x9e (1 block + 15-byte tail); 47 bytes (0xf3·i + 0x91) mod 256 (2 blocks + 15); 30 × 0xff
-- (1 block + 14); 27 bytes 0x80 | 7i (1 block + 11)
example : Java.getToken ((List.range 31).map (fun i => UInt8.ofNat (0x80 + i))) = -9222542793393665168 := by
  decide +kernel
example : Java.getToken ((List.range 47).map (fun i => UInt8.ofNat ((0xf3 * i + 0x91) % 256))) =
    212906451388177509 := by decide +kernel
example : Java.getToken (List.replicate 30 0xff) = 911528564376864884 := by decide +kernel
example : Java.getToken ((List.range 27).map (fun i => UInt8.ofNat ((0x80 ||| (7 * i)) % 256))) =
    -6330466746548984052 := by decide +kernel

/-! ### tests (not theorems): the (string, token) vectors of `partitioner.rs`, obtained from a real cluster,
validate the transliteration `murmur3Spec` of Cassandra's Java code and `cdcSpec` -/

-- test: "test"
example : murmur3Spec [0x74, 0x65, 0x73, 0x74] = -6017608668500074083 := by decide +kernel
-- test: "xd"
example : murmur3Spec [0x78, 0x64] = 4507812186440344727 := by decide +kernel
-- test: "primary_key"
example : murmur3Spec "primary_key".toUTF8.toList = -1632642444691073360 := by decide +kernel
-- test: "kremówki" (9 bytes, two of them ≥ 0x80: exercises the signed-byte tail)
example : murmur3Spec [0x6b, 0x72, 0x65, 0x6d, 0xc3, 0xb3, 0x77, 0x6b, 0x69] = 4354931215268080151 := by
  decide +kernel
-- test: the CDC values of `partitioner.rs`'s own test (keys of 4, 11 and 9 bytes: what the driver computes — only
-- the first is what the server computes, see `cdc_outside_domain`)
example : cdcRust "test".toUTF8.toList = -9223372036854775808 ∧
    cdcRust "primary_key".toUTF8.toList = 8102654598100187487 ∧
    cdcRust [0x6b, 0x72, 0x65, 0x6d, 0xc3, 0xb3, 0x77, 0x6b, 0x69] = 7742362231512463211 := by decide +kernel

/-! ### CDC partitioner

`cdcSpec` is the server's rule (`cdc_partitioner::get_token`: minimum token unless the key is exactly 16 bytes, else
the first 8 bytes big-endian); `cdcRust` is what the driver's hasher computes (first 8 bytes of whatever was written,
`Token::INVALID` if fewer than 8). They agree on the domain — CDC log tables are partitioned by the 16-byte stream
id — and on keys shorter than 8 bytes; they differ on every other length (`cdc_outside_domain`). -/

/-- The CDC hasher is chunking independent: the result depends only on the concatenation. -/
theorem cdc_chunking_independent (chunks : List (List UInt8)) :
    cdcFinish (chunks.foldl cdcWrite cdcInit) = cdcRust chunks.flatten := by
  have h := cdcInv_foldl chunks cdcInit [] cdcInv_init
  simp only [List.nil_append] at h
  exact cdcFinish_of_inv _ _ h

/-- On a 16-byte key (every CDC stream id) the driver's CDC token is the server's. -/
theorem cdc_eq_server_16 (bs : List UInt8) (h : bs.length = 16) : cdcRust bs = cdcSpec bs := by
  unfold cdcRust cdcSpec
  rw [if_neg (by omega), if_pos h]

/-- **CDC tables get the CDC token**: any chunking of a 16-byte stream id. -/
theorem cdc_token_eq_server (chunks : List (List UInt8)) (h : chunks.flatten.length = 16) :
    cdcFinish (chunks.foldl cdcWrite cdcInit) = cdcSpec chunks.flatten := by
  rw [cdc_chunking_independent, cdc_eq_server_16 _ h]

/-- Keys shorter than 8 bytes: both give the minimum token. -/
theorem cdc_short (bs : List UInt8) (h : bs.length < 8) :
    cdcRust bs = Int64.minValue ∧ cdcSpec bs = Int64.minValue := by
  unfold cdcRust cdcSpec tokenInvalid
  rw [if_pos h, if_neg (by omega)]
  exact ⟨rfl, rfl⟩

/-- Outside the domain (8 bytes or more, but not 16) the driver does NOT compute the server's token: the server
answers the minimum token, the driver the normalised first 8 bytes, which is never the minimum token. -/
theorem cdc_outside_domain (bs : List UInt8) (h8 : 8 ≤ bs.length) (h16 : bs.length ≠ 16) :
    cdcRust bs = tokenNew (be64 bs).toInt64 ∧ cdcSpec bs = Int64.minValue ∧ cdcRust bs ≠ cdcSpec bs := by
  have h1 : cdcRust bs = tokenNew (be64 bs).toInt64 := by
    unfold cdcRust; rw [if_neg (by omega)]
  have h2 : cdcSpec bs = Int64.minValue := by
    unfold cdcSpec; rw [if_neg h16]
  refine ⟨h1, h2, ?_⟩
  rw [h1, h2]
  exact tokenNew_ne_min _

example : cdcFinish ([[1, 2, 3], [], [4, 5, 6, 7, 8, 9], [10, 11, 12, 13, 14, 15, 16]].foldl cdcWrite cdcInit) =
      0x0102030405060708 ∧
    cdcSpec [1, 2, 3, 4, 5, 6, 7, 8, 9, 10, 11, 12, 13, 14, 15, 16] = 0x0102030405060708 ∧
    cdcFinish ([[1, 2, 3], [4, 5, 6, 7]].foldl cdcWrite cdcInit) = Int64.minValue ∧
    cdcRust [1, 2, 3, 4, 5, 6, 7, 8, 9] = 0x0102030405060708 ∧ cdcSpec [1, 2, 3, 4, 5, 6, 7, 8, 9] = Int64.minValue := by
  decide +kernel

/-! ### which tables use the CDC partitioner (`PartitionerName::from_str` and its two call sites) -/

/-- The CDC partitioner is selected exactly for names ending in `CDCPartitioner` (and not in `Murmur3Partitioner`,
which is tested first); every other name, and no name, selects Murmur3. -/
theorem selectPartitioner_cdc_iff (name : Option (List UInt8)) :
    selectPartitioner name = .cdc ↔
      ∃ s, name = some s ∧ cdcSuffix <:+ s ∧ ¬ murmur3Suffix <:+ s := by
  unfold selectPartitioner partitionerFromStr
  cases name with
  | none => simp
  | some s =>
    simp only [Option.some.injEq, exists_eq_left']
    rw [← List.isSuffixOf_iff_suffix, ← List.isSuffixOf_iff_suffix]
    cases murmur3Suffix.isSuffixOf s <;> cases cdcSuffix.isSuffixOf s <;> simp

theorem selectPartitioner_murmur3 (s : List UInt8) (h : murmur3Suffix <:+ s) :
    selectPartitioner (some s) = .murmur3 := by
  unfold selectPartitioner partitionerFromStr
  simp only []
  rw [if_pos (List.isSuffixOf_iff_suffix.mpr h)]
  rfl

/-- Unknown names fall back to the default partitioner. -/
theorem selectPartitioner_unknown (s : List UInt8) (h1 : ¬ murmur3Suffix <:+ s) (h2 : ¬ cdcSuffix <:+ s) :
    partitionerFromStr s = none ∧ selectPartitioner (some s) = .murmur3 := by
  have e1 : murmur3Suffix.isSuffixOf s = false := by
    cases h : murmur3Suffix.isSuffixOf s with
    | false => rfl
    | true => exact absurd (List.isSuffixOf_iff_suffix.mp h) h1
  have e2 : cdcSuffix.isSuffixOf s = false := by
    cases h : cdcSuffix.isSuffixOf s with
    | false => rfl
    | true => exact absurd (List.isSuffixOf_iff_suffix.mp h) h2
  unfold selectPartitioner partitionerFromStr
  simp [e1, e2]

-- tests: the names the servers report
example : murmur3Suffix = "Murmur3Partitioner".toUTF8.toList ∧ cdcSuffix = "CDCPartitioner".toUTF8.toList ∧
    selectPartitioner (some "com.scylladb.dht.CDCPartitioner".toUTF8.toList) = .cdc ∧
    selectPartitioner (some "org.apache.cassandra.dht.Murmur3Partitioner".toUTF8.toList) = .murmur3 ∧
    selectPartitioner (some "org.apache.cassandra.dht.RandomPartitioner".toUTF8.toList) = .murmur3 ∧
    selectPartitioner none = .murmur3 := by decide +kernel

/-! ### the partitioner a prepared statement gets: the lookup in the metadata snapshot (`Session::prepare`) -/

/-- A prepared statement gets the CDC partitioner exactly when, in the metadata snapshot the session holds at prepare
time, the keyspace and the table of its first bind marker are present and the table's partitioner string ends in
`CDCPartitioner`. -/
theorem preparedPartitioner_cdc_iff (tableSpec : Option (List UInt8 × List UInt8)) (schema : SchemaSnapshot) :
    preparedPartitioner tableSpec schema = .cdc ↔
      ∃ ks table tables name, tableSpec = some (ks, table) ∧ schema.lookup ks = some tables ∧
        tables.lookup table = some (some name) ∧ cdcSuffix <:+ name ∧ ¬ murmur3Suffix <:+ name := by
  unfold preparedPartitioner
  rw [selectPartitioner_cdc_iff]
  unfold extractPartitionerName
  constructor
  · rintro ⟨s, hs, h1, h2⟩
    match tableSpec, hs with
    | some (ks, table), hs =>
      simp only [] at hs
      cases hk : schema.lookup ks with
      | none => rw [hk] at hs; cases hs
      | some tables =>
        rw [hk] at hs
        simp only [] at hs
        cases ht : tables.lookup table with
        | none => rw [ht] at hs; cases hs
        | some part =>
          rw [ht] at hs
          simp only [] at hs
          exact ⟨ks, table, tables, s, rfl, hk, by rw [ht, hs], h1, h2⟩
  · rintro ⟨ks, table, tables, name, rfl, hk, ht, h1, h2⟩
    exact ⟨name, by simp only [hk, ht], h1, h2⟩

/-- The silent fallback: a statement without bind markers, a keyspace or a table missing from the snapshot (schema
fetching disabled, or the snapshot older than the table), a table without a partitioner entry, or an unrecognised
partitioner string — each gives the default partitioner, Murmur3, also for a CDC log table. -/
theorem preparedPartitioner_default (tableSpec : Option (List UInt8 × List UInt8)) (schema : SchemaSnapshot)
    (h : tableSpec = none ∨
      (∃ ks table, tableSpec = some (ks, table) ∧
        (schema.lookup ks = none ∨
          ∃ tables, schema.lookup ks = some tables ∧
            (tables.lookup table = none ∨ tables.lookup table = some none ∨
              ∃ name, tables.lookup table = some (some name) ∧ ¬ cdcSuffix <:+ name)))) :
    preparedPartitioner tableSpec schema = .murmur3 := by
  cases hp : preparedPartitioner tableSpec schema with
  | murmur3 => rfl
  | cdc =>
    exfalso
    obtain ⟨ks, table, tables, name, hts, hk, ht, h1, _⟩ := (preparedPartitioner_cdc_iff _ _).mp hp
    rcases h with h | ⟨ks', table', hts', h⟩
    · rw [h] at hts; cases hts
    · rw [hts'] at hts
      cases hts
      rcases h with h | ⟨tables', hk', h⟩
      · rw [h] at hk; cases hk
      · rw [hk'] at hk
        cases hk
        rcases h with h | h | ⟨name', h, hn⟩
        · rw [h] at ht; cases ht
        · rw [h] at ht; cases ht
        · rw [h] at ht
          cases ht
          exact hn h1

-- tests: a snapshot with ks.t (no partitioner), ks.t_scylla_cdc_log (CDC); lookups of present / absent tables
example :
    let ks := "ks".toUTF8.toList
    let schema : SchemaSnapshot :=
      [(ks, [("t".toUTF8.toList, none),
             ("t_scylla_cdc_log".toUTF8.toList, some "com.scylladb.dht.CDCPartitioner".toUTF8.toList)])]
    preparedPartitioner (some (ks, "t_scylla_cdc_log".toUTF8.toList)) schema = .cdc ∧
      preparedPartitioner (some (ks, "t".toUTF8.toList)) schema = .murmur3 ∧
      preparedPartitioner (some (ks, "absent".toUTF8.toList)) schema = .murmur3 ∧
      preparedPartitioner (some ("nks".toUTF8.toList, "t_scylla_cdc_log".toUTF8.toList)) schema = .murmur3 ∧
      preparedPartitioner (some (ks, "t_scylla_cdc_log".toUTF8.toList)) [] = .murmur3 ∧
      preparedPartitioner none schema = .murmur3 := by decide +kernel

/-! ### partition key extraction: key order is independent of bind-marker order -/

/-- The key components a statement's bound values hold, in partition-key order: component `seq` is the value bound
to marker `wire[seq]` (`wire` = the pk index list of the PREPARED frame). -/
def keyOf (wire : List Nat) (values : List RawValue) : List (Option (List UInt8)) :=
  wire.map (fun ix => (values.getD ix .null).asValue)

/-- **Key extraction in partition-key order.** Whatever the positions of the key's bind markers among the
statement's markers (any injective `wire`, non-key markers interleaved), `PartitionKey::new` run on the table
`deser_prepared_metadata` builds (sequence = frame position, sorted by marker index) returns, at position `seq`,
the value bound to marker `wire[seq]`. -/
theorem extract_in_pk_order (wire : List Nat) (values : List RawValue)
    (hnd : wire.Nodup) (hlt : ∀ ix ∈ wire, ix < values.length) (hv : values.length ≤ 65535) :
    extract (pkIndexesOfWire wire) values = .ok (keyOf wire values) := by
  have hk : wire.length ≤ 65536 := by
    have := nodup_bounded_length values.length wire hnd hlt
    omega
  obtain ⟨hperm, hsorted, hseq⟩ := pkIndexesOfWire_props wire hk hnd
  have hlen : (pkIndexesOfWire wire).length = wire.length := by
    rw [hperm.length_eq, wirePairs_length]
  have hmem : ∀ p ∈ pkIndexesOfWire wire, p.sequence < wire.length ∧ wire[p.sequence]? = some p.index := by
    intro p hp
    have := mem_wirePairs wire 0 p (by omega) (hperm.mem_iff.mp hp)
    simpa using this.2
  unfold extract
  have hloop := extractLoop_ok values hv (pkIndexesOfWire wire) 0
    (List.replicate (pkIndexesOfWire wire).length none) hsorted (by
      intro p hp
      obtain ⟨h1, h2⟩ := hmem p hp
      refine ⟨Nat.zero_le _, hlt _ (List.mem_of_getElem? h2), ?_⟩
      rw [List.length_replicate, hlen]; exact h1)
  rw [List.drop_zero] at hloop
  rw [hloop]
  congr 1
  apply List.ext_getElem?
  intro s
  by_cases hs : s < wire.length
  · have hp : (⟨wire[s], s⟩ : PkIndex) ∈ pkIndexesOfWire wire := by
      have := wirePairs_mem wire 0 s hs (by omega)
      rw [Nat.zero_add] at this
      exact hperm.mem_iff.mpr this
    have := foldl_place_get values (pkIndexesOfWire wire)
      (List.replicate (pkIndexesOfWire wire).length none) hseq ⟨wire[s], s⟩ hp
      (by rw [List.length_replicate, hlen]; exact hs)
      (by rw [List.getElem?_replicate, if_pos (by rw [hlen]; exact hs)])
    simp only [] at this
    rw [this]
    unfold keyOf
    rw [List.getElem?_map, List.getElem?_eq_getElem hs]
    rfl
  · have h1 : (keyOf wire values)[s]? = none := by
      apply List.getElem?_eq_none
      unfold keyOf
      rw [List.length_map]; omega
    rw [h1]
    apply List.getElem?_eq_none
    rw [foldl_place_length, List.length_replicate, hlen]
    omega

/-- Component form of the above: `(extract pkIndexes values)[seq] = values[wire[seq]]`. -/
theorem extract_component (wire : List Nat) (values : List RawValue)
    (hnd : wire.Nodup) (hlt : ∀ ix ∈ wire, ix < values.length) (hv : values.length ≤ 65535)
    (seq : Nat) (hs : seq < wire.length) :
    ∃ pk, extract (pkIndexesOfWire wire) values = .ok pk ∧
      pk[seq]? = some (values.getD wire[seq] .null).asValue := by
  refine ⟨_, extract_in_pk_order wire values hnd hlt hv, ?_⟩
  unfold keyOf
  rw [List.getElem?_map, List.getElem?_eq_getElem hs]
  rfl

-- non-vacuity: the shuffled key of `prepared.rs`'s own test — 5 markers, key = (marker 4, marker 0, marker 3);
-- the hypotheses of `extract_in_pk_order` hold and the extracted key is (marker 4, marker 0, marker 3)
example :
    extract (pkIndexesOfWire [4, 0, 3])
        [.value [67], .value [0, 42], .value [0, 0, 0, 23], .value [89], .value [1, 2, 3]] =
      .ok [some [1, 2, 3], some [67], some [89]] := by
  rw [extract_in_pk_order [4, 0, 3] _ (by decide) (by decide) (by decide)]
  decide

/-- **The error branch.** If some key marker of the frame is at or beyond the number of bound values, no key is
extracted: `NoPkIndexValue(m, count)` is returned for the SMALLEST such marker `m` (markers are visited in ascending
order), whatever the other markers and their order in the frame (marker indexes are `u16` on the wire). -/
theorem extract_missing_value (wire : List Nat) (values : List RawValue) (hnd : wire.Nodup)
    (hu16 : ∀ ix ∈ wire, ix < 65536) (hv : values.length ≤ 65535) (hbad : ∃ ix ∈ wire, values.length ≤ ix) :
    ∃ m, m ∈ wire ∧ values.length ≤ m ∧ (∀ ix ∈ wire, values.length ≤ ix → m ≤ ix) ∧
      extract (pkIndexesOfWire wire) values = .error (.noPkIndexValue m values.length) := by
  have hk : wire.length ≤ 65536 := nodup_bounded_length 65536 wire hnd hu16
  obtain ⟨hperm, hsorted, _⟩ := pkIndexesOfWire_props wire hk hnd
  have hlen : (pkIndexesOfWire wire).length = wire.length := pkIndexesOfWire_length wire
  have hmem : ∀ p ∈ pkIndexesOfWire wire, p.sequence < wire.length ∧ p.index ∈ wire := by
    intro p hp
    have := mem_wirePairs wire 0 p (by omega) (hperm.mem_iff.mp hp)
    exact ⟨by omega, List.mem_of_getElem? this.2.2⟩
  have hidx : ∀ ix ∈ wire, ∃ p ∈ pkIndexesOfWire wire, p.index = ix := by
    intro ix hix
    obtain ⟨s, hs, rfl⟩ := List.mem_iff_getElem.mp hix
    have := wirePairs_mem wire 0 s hs (by omega)
    exact ⟨_, hperm.mem_iff.mpr this, rfl⟩
  obtain ⟨ix, hix, hixl⟩ := hbad
  obtain ⟨p0, hp0, hp0i⟩ := hidx ix hix
  obtain ⟨m, hm, hml, hmin, hres⟩ := extractLoop_missing values hv (pkIndexesOfWire wire) 0
    (List.replicate (pkIndexesOfWire wire).length none) hsorted
    (by
      intro p hp
      refine ⟨Nat.zero_le _, ?_⟩
      rw [List.length_replicate, hlen]; exact (hmem p hp).1)
    ⟨p0, hp0, by omega⟩
  rw [List.drop_zero] at hres
  refine ⟨m.index, (hmem m hm).2, hml, ?_, ?_⟩
  · intro jx hjx hjl
    obtain ⟨q, hq, rfl⟩ := hidx jx hjx
    exact hmin q hq hjl
  · unfold extract
    exact hres

/-- The single-marker instance. -/
theorem extract_missing_value_single (ix : Nat) (values : List RawValue) (hix : ix < 65536)
    (hv : values.length ≤ 65535) (h : values.length ≤ ix) :
    extract (pkIndexesOfWire [ix]) values = .error (.noPkIndexValue ix values.length) := by
  obtain ⟨m, hm, _, _, hres⟩ := extract_missing_value [ix] values (by simp) (by simpa using hix) hv ⟨ix, by simp, h⟩
  have : m = ix := by simpa using hm
  rw [this] at hres
  exact hres

-- non-vacuity: key markers (7, 1, 5) with 3 bound values: markers 5 and 7 are missing, 5 is reported
example : ∃ m, m ∈ [7, 1, 5] ∧ 3 ≤ m ∧ (∀ ix ∈ [7, 1, 5], 3 ≤ ix → m ≤ ix) ∧
    extract (pkIndexesOfWire [7, 1, 5]) [.value [1], .null, .value [2]] = .error (.noPkIndexValue m 3) :=
  extract_missing_value [7, 1, 5] [.value [1], .null, .value [2]] (by decide) (by decide) (by decide)
    ⟨7, by decide, by decide⟩

/-! ### the token formula -/

private theorem encodeChunks_ok (comps : List (List UInt8)) (hne : comps ≠ [])
    (hsmall : 2 ≤ comps.length → ∀ c ∈ comps, c.length ≤ 65535) :
    ∃ cs, encodeChunks (comps.map some) = .ok cs ∧ cs.flatten = encodeKey comps := by
  unfold encodeChunks
  have hf : (comps.map some).filterMap id = comps := by
    rw [List.filterMap_map]; simp
  rw [hf]
  match comps, hne, hsmall with
  | [v], _, _ => exact ⟨[v], rfl, by simp [encodeKey]⟩
  | v :: w :: rest, _, hsmall =>
    obtain ⟨cs, h1, h2⟩ := compositeChunks_ok (v :: w :: rest) (hsmall (by simp))
    exact ⟨cs, h1, by rw [h2]; rfl⟩

/-- **Token formula.** For a statement whose key markers are `wire` (any order, any positions) and whose key
components are all bound to values `comps` (in partition-key order), the computed token is the server-side token of
the serialized key: Murmur3 of the single component's bytes, or of `⨁ be16 len ++ bytes ++ [0]` for a composite
key — and the CDC token of the same bytes for a table using the CDC partitioner. -/
theorem token_formula (cdc : Bool) (wire : List Nat) (values : List RawValue) (comps : List (List UInt8))
    (hne : wire ≠ []) (hnd : wire.Nodup) (hlt : ∀ ix ∈ wire, ix < values.length) (hv : values.length ≤ 65535)
    (hbound : keyOf wire values = comps.map some)
    (hsmall : 2 ≤ comps.length → ∀ c ∈ comps, c.length ≤ 65535) :
    calculateToken cdc (pkIndexesOfWire wire) values =
      .ok (some (if cdc then cdcRust (encodeKey comps) else murmur3Spec (encodeKey comps))) := by
  have hpk : (pkIndexesOfWire wire).isEmpty = false := by
    have : (pkIndexesOfWire wire).length = wire.length := pkIndexesOfWire_length wire
    cases hw : pkIndexesOfWire wire with
    | nil => rw [hw] at this; exact absurd (List.eq_nil_of_length_eq_zero this.symm) hne
    | cons _ _ => rfl
  have hcne : comps ≠ [] := by
    intro h
    rw [h] at hbound
    unfold keyOf at hbound
    exact hne (List.map_eq_nil_iff.mp hbound)
  obtain ⟨cs, hcs, hfl⟩ := encodeChunks_ok comps hcne hsmall
  unfold calculateToken
  rw [hpk, extract_in_pk_order wire values hnd hlt hv, hbound]
  simp only [Bool.false_eq_true, if_false, hcs]
  unfold hashChunks
  cases cdc with
  | false => simp only [Bool.false_eq_true, if_false]; rw [chunking_independent, hfl]
  | true => simp only [if_true]; rw [cdc_chunking_independent, hfl]

/-- The token formula against the server's own functions: for a non-empty serialized key the Murmur3 token is
`Murmur3Partitioner.getToken`, and for a CDC table — whose key is the SINGLE component `cdc$stream_id` of 16 bytes
(a composite key whose encoding merely happens to be 16 bytes long is excluded) — the CDC token is
`cdc_partitioner::get_token` of the stream id. -/
theorem token_formula_server (cdc : Bool) (wire : List Nat) (values : List RawValue) (comps : List (List UInt8))
    (hne : wire ≠ []) (hnd : wire.Nodup) (hlt : ∀ ix ∈ wire, ix < values.length) (hv : values.length ≤ 65535)
    (hbound : keyOf wire values = comps.map some)
    (hsmall : 2 ≤ comps.length → ∀ c ∈ comps, c.length ≤ 65535)
    (hdom : if cdc then ∃ c, comps = [c] ∧ c.length = 16 else encodeKey comps ≠ []) :
    calculateToken cdc (pkIndexesOfWire wire) values =
      .ok (some (if cdc then cdcSpec (encodeKey comps) else Java.getToken (encodeKey comps))) := by
  rw [token_formula cdc wire values comps hne hnd hlt hv hbound hsmall]
  cases cdc with
  | false =>
    simp only [Bool.false_eq_true, if_false] at hdom ⊢
    rw [murmur3Spec_eq_server _ hdom]
  | true =>
    simp only [if_true] at hdom ⊢
    obtain ⟨c, rfl, hc⟩ := hdom
    rw [cdc_eq_server_16 _ (by simpa [encodeKey] using hc)]

/-- A composite key is never empty, so only the single-component empty key is outside `token_formula_server`. -/
theorem encodeKey_composite_ne_nil (v w : List UInt8) (rest : List (List UInt8)) :
    encodeKey (v :: w :: rest) ≠ [] := by
  simp [encodeKey, be16]

/-- `compute_partition_key` returns exactly the serialized key the token is computed from. -/
theorem computePartitionKey_formula (wire : List Nat) (values : List RawValue) (comps : List (List UInt8))
    (hne : wire ≠ []) (hnd : wire.Nodup) (hlt : ∀ ix ∈ wire, ix < values.length) (hv : values.length ≤ 65535)
    (hbound : keyOf wire values = comps.map some)
    (hsmall : 2 ≤ comps.length → ∀ c ∈ comps, c.length ≤ 65535) :
    computePartitionKey (pkIndexesOfWire wire) values = .ok (encodeKey comps) := by
  have hcne : comps ≠ [] := by
    intro h
    rw [h] at hbound
    unfold keyOf at hbound
    exact hne (List.map_eq_nil_iff.mp hbound)
  obtain ⟨cs, hcs, hfl⟩ := encodeChunks_ok comps hcne hsmall
  unfold computePartitionKey
  rw [extract_in_pk_order wire values hnd hlt hv, hbound]
  simp only [hcs, hfl]

/-- The single-component and composite shapes of `encodeKey`, spelled out. -/
theorem encodeKey_single (v : List UInt8) : encodeKey [v] = v := rfl

theorem encodeKey_composite (v w : List UInt8) (rest : List (List UInt8)) :
    encodeKey (v :: w :: rest) =
      ((v :: w :: rest).map (fun c => be16 c.length ++ c ++ [0])).flatten := rfl

/-- **Component too long.** A composite key with a component of 65536 bytes or more has no token: the error
`ValueTooLong(len)` is returned (a *single* component may be of any length). -/
theorem component_too_long (cdc : Bool) (wire : List Nat) (values : List RawValue) (comps : List (List UInt8))
    (hnd : wire.Nodup) (hlt : ∀ ix ∈ wire, ix < values.length) (hv : values.length ≤ 65535)
    (hbound : keyOf wire values = comps.map some)
    (h2 : 2 ≤ comps.length) (hlong : ∃ c ∈ comps, 65536 ≤ c.length) :
    ∃ n, 65536 ≤ n ∧ calculateToken cdc (pkIndexesOfWire wire) values = .error (.valueTooLong n) ∧
      computePartitionKey (pkIndexesOfWire wire) values = .error (.valueTooLong n) := by
  have hwl : wire.length = comps.length := by
    have := congrArg List.length hbound
    simpa [keyOf] using this
  have hpk : (pkIndexesOfWire wire).isEmpty = false := by
    have : (pkIndexesOfWire wire).length = wire.length := pkIndexesOfWire_length wire
    cases hw : pkIndexesOfWire wire with
    | nil => rw [hw] at this; simp at this; omega
    | cons _ _ => rfl
  have henc : ∃ n, 65536 ≤ n ∧ encodeChunks (comps.map some) = .error n := by
    unfold encodeChunks
    have hf : (comps.map some).filterMap id = comps := by
      rw [List.filterMap_map]; simp
    rw [hf]
    match comps, h2, hlong with
    | v :: w :: rest, _, hlong =>
      obtain ⟨c, hc, hcl⟩ := hlong
      obtain ⟨n, hn, hnl⟩ := compositeChunks_err (v :: w :: rest) ⟨c, hc, by omega⟩
      exact ⟨n, by omega, hn⟩
  obtain ⟨n, hn, henc⟩ := henc
  refine ⟨n, hn, ?_, ?_⟩
  · unfold calculateToken
    rw [hpk, extract_in_pk_order wire values hnd hlt hv, hbound]
    simp only [Bool.false_eq_true, if_false, henc]
  · unfold computePartitionKey
    rw [extract_in_pk_order wire values hnd hlt hv, hbound]
    simp only [henc]

-- non-vacuity: 3 markers, key = (marker 2, marker 0): the hypotheses of `token_formula` hold and the token is
-- Murmur3 of 0001 bb 00 0002 a1a2 00; a single-component key hashes the raw bytes
example :
    calculateToken false (pkIndexesOfWire [2, 0]) [.value [0xa1, 0xa2], .null, .value [0xbb]] =
      .ok (some (murmur3Spec [0, 1, 0xbb, 0, 0, 2, 0xa1, 0xa2, 0])) := by
  rw [token_formula false [2, 0] _ [[0xbb], [0xa1, 0xa2]] (by decide) (by decide) (by decide) (by decide)
    (by decide) (by decide)]
  rfl

example :
    calculateToken false (pkIndexesOfWire [1]) [.null, .value [0xa1, 0xa2]] = .ok (some (murmur3Spec [0xa1, 0xa2])) := by
  rw [token_formula false [1] _ [[0xa1, 0xa2]] (by decide) (by decide) (by decide) (by decide)
    (by decide) (by decide)]
  rfl

-- non-vacuity of `component_too_long`: key = (marker 1, marker 0), marker 0 bound to any 65536 bytes
example (big : List UInt8) (hb : big.length = 65536) : ∃ n, 65536 ≤ n ∧
    calculateToken false (pkIndexesOfWire [1, 0]) [.value big, .value [1]] = .error (.valueTooLong n) := by
  obtain ⟨n, h1, h2, _⟩ := component_too_long false [1, 0] [.value big, .value [1]]
    [[1], big] (by decide) (by simp) (by simp) rfl (by simp)
    ⟨big, List.mem_cons_of_mem _ List.mem_cons_self, by omega⟩
  exact ⟨n, h1, h2⟩

/-! ### the `serialize_values` guard and the `u16` offset -/

/-- The public entry points serialize the bound values first: more than 65535 values is a `Serialization` error,
whatever the pk indexes are; otherwise they are `calculate_token_untyped` / the extraction above. -/
theorem too_many_values (cdc : Bool) (pk : List PkIndex) (values : List RawValue) (h : 65535 < values.length) :
    boundCalculateToken cdc pk values = .error .serialization ∧
      boundComputePartitionKey pk values = .error .serialization := by
  unfold boundCalculateToken boundComputePartitionKey
  rw [if_pos h, if_pos h]
  exact ⟨rfl, rfl⟩

theorem bound_eq (cdc : Bool) (pk : List PkIndex) (values : List RawValue) (h : values.length ≤ 65535) :
    boundCalculateToken cdc pk values = calculateToken cdc pk values ∧
      boundComputePartitionKey pk values = computePartitionKey pk values := by
  unfold boundCalculateToken boundComputePartitionKey
  rw [if_neg (by omega), if_neg (by omega)]
  exact ⟨rfl, rfl⟩

/-- Under that guard the `u16` increment `values_iter_offset = pk_index.index + 1` of `PartitionKey::new` cannot
overflow, for ANY pk index table (well-formed or not): the model's overflow branch is dead. -/
theorem offset_increment_never_overflows (pk : List PkIndex) (values : List RawValue) (h : values.length ≤ 65535) :
    extract pk values =
      extractLoopNoOvf values.length pk values 0 (List.replicate pk.length none) := by
  unfold extract
  exact extractLoop_no_overflow values.length h pk values 0 _ (by omega)

/-- A statement without partition-key markers has no token (not token-aware). -/
theorem no_pk_no_token (cdc : Bool) (values : List RawValue) :
    calculateToken cdc (pkIndexesOfWire []) values = .ok none := by
  simp [calculateToken, pkIndexesOfWire, wirePairs]

/-- `calculate_token_for_partition_key` (values already in partition-key order) obeys the same formula. -/
theorem tokenForPartitionKey_formula (cdc : Bool) (comps : List (List UInt8)) (hne : comps ≠ [])
    (hsmall : 2 ≤ comps.length → ∀ c ∈ comps, c.length ≤ 65535) :
    tokenForPartitionKey cdc (comps.map .value) =
      .ok (if cdc then cdcRust (encodeKey comps) else murmur3Spec (encodeKey comps)) := by
  have hfin : ∀ cs : List (List UInt8), cs.flatten = encodeKey comps →
      hashChunks cdc cs = if cdc then cdcRust (encodeKey comps) else murmur3Spec (encodeKey comps) := by
    intro cs hfl
    unfold hashChunks
    cases cdc with
    | false => simp only [Bool.false_eq_true, if_false]; rw [chunking_independent, hfl]
    | true => simp only [if_true]; rw [cdc_chunking_independent, hfl]
  match comps, hne, hsmall with
  | [v], _, _ =>
    simp only [List.map_cons, List.map_nil, tokenForPartitionKey]
    rw [hfin [v] (by simp [encodeKey])]
  | v :: w :: rest, _, hsmall =>
    obtain ⟨cs, h1, h2⟩ := compositeChunks_ok (v :: w :: rest) (hsmall (by simp))
    have hf : ((v :: w :: rest).map RawValue.value).filterMap RawValue.asValue = v :: w :: rest := by
      rw [List.filterMap_map]
      have : (RawValue.asValue ∘ RawValue.value) = some := by funext x; rfl
      rw [this, List.filterMap_some]
    unfold tokenForPartitionKey
    simp only [List.map_cons] at hf ⊢
    rw [hf, h1]
    simp only []
    rw [hfin cs (by rw [h2]; rfl)]

/-! ### the pk index table of `deser_prepared_metadata` is the inverse permutation, for every wire order -/

/-- For every duplicate-free list of `u16` marker indexes in the PREPARED frame (any order), the table the driver builds
is strictly ascending by marker index, has one entry per key column, and each entry's `sequence` is the position at
which the frame listed that marker (`wire[sequence] = index`: the inverse of the frame's permutation) — and every
position occurs. -/
theorem pk_table_inverse_permutation (wire : List Nat) (hnd : wire.Nodup) (hu16 : ∀ ix ∈ wire, ix < 65536) :
    (pkIndexesOfWire wire).Pairwise (fun a b => a.index < b.index) ∧
    (pkIndexesOfWire wire).length = wire.length ∧
    (∀ p ∈ pkIndexesOfWire wire, p.sequence < wire.length ∧ wire[p.sequence]? = some p.index) ∧
    (∀ s, (hs : s < wire.length) → (⟨wire[s], s⟩ : PkIndex) ∈ pkIndexesOfWire wire) := by
  have hk : wire.length ≤ 65536 := nodup_bounded_length 65536 wire hnd hu16
  obtain ⟨hperm, hsorted, _⟩ := pkIndexesOfWire_props wire hk hnd
  refine ⟨hsorted, pkIndexesOfWire_length wire, ?_, ?_⟩
  · intro p hp
    have := mem_wirePairs wire 0 p (by omega) (hperm.mem_iff.mp hp)
    exact ⟨by omega, by simpa using this.2.2⟩
  · intro s hs
    have := wirePairs_mem wire 0 s hs (by omega)
    rw [Nat.zero_add] at this
    exact hperm.mem_iff.mpr this

-- non-vacuity / test: frame order (4, 0, 3) gives the table [(0,1), (3,2), (4,0)]
example : (⟨0, 1⟩ : PkIndex) ∈ pkIndexesOfWire [4, 0, 3] ∧ (⟨4, 0⟩ : PkIndex) ∈ pkIndexesOfWire [4, 0, 3] :=
  ⟨(pk_table_inverse_permutation [4, 0, 3] (by decide) (by decide)).2.2.2 1 (by decide),
   (pk_table_inverse_permutation [4, 0, 3] (by decide) (by decide)).2.2.2 0 (by decide)⟩

/-! ### malformed tables: a key (hence a token) exists only for a well-formed table -/

/-- **A key is extracted iff the frame's markers are distinct and all among the bound values.** In every other case
(a repeated marker, a marker beyond the values) `PartitionKey::new` fails, so no token is ever computed from a
malformed table. -/
theorem extract_ok_iff (wire : List Nat) (values : List RawValue) (hv : values.length ≤ 65535) :
    (∃ key, extract (pkIndexesOfWire wire) values = .ok key) ↔ (wire.Nodup ∧ ∀ ix ∈ wire, ix < values.length) := by
  constructor
  · rintro ⟨key, h⟩
    unfold extract at h
    obtain ⟨hpw, hall⟩ := extractLoop_ok_imp _ _ _ _ _ _ h
    have hperm : (pkIndexesOfWire wire).Perm (wirePairs 0 wire) := List.mergeSort_perm _ _
    have hidx : ((pkIndexesOfWire wire).map (·.index)).Perm wire := by
      have := hperm.map (·.index)
      rwa [wirePairs_map_index] at this
    refine ⟨?_, ?_⟩
    · apply hidx.nodup_iff.mp
      have : ((pkIndexesOfWire wire).map (·.index)).Pairwise (· < ·) := by
        rw [List.pairwise_map]; exact hpw
      exact this.imp (fun h => Nat.ne_of_lt h)
    · intro ix hix
      obtain ⟨p, hp, rfl⟩ := List.mem_map.mp (hidx.mem_iff.mpr hix)
      have := hall p hp
      omega
  · rintro ⟨hnd, hlt⟩
    exact ⟨_, extract_in_pk_order wire values hnd hlt hv⟩

/-- No token from a malformed table. -/
theorem token_only_if_wellformed (cdc : Bool) (wire : List Nat) (values : List RawValue) (t : Int64)
    (hv : values.length ≤ 65535)
    (h : calculateToken cdc (pkIndexesOfWire wire) values = .ok (some t)) :
    wire.Nodup ∧ ∀ ix ∈ wire, ix < values.length := by
  apply (extract_ok_iff wire values hv).mp
  unfold calculateToken at h
  split at h
  · cases h
  · cases he : extract (pkIndexesOfWire wire) values with
    | error e => rw [he] at h; cases h
    | ok key => exact ⟨key, rfl⟩

/-- A marker the frame lists twice (all markers among the bound values): `index - offset` underflows in
`PartitionKey::new` — a panic in a build with overflow checks (as the harness is built). -/
theorem extract_duplicate_marker (wire : List Nat) (values : List RawValue) (hdup : ¬ wire.Nodup)
    (hlt : ∀ ix ∈ wire, ix < values.length) (hv : values.length ≤ 65535) (hk : wire.length ≤ 65536) :
    extract (pkIndexesOfWire wire) values = .error .panic := by
  have hperm : (pkIndexesOfWire wire).Perm (wirePairs 0 wire) := List.mergeSort_perm _ _
  have hidx : ((pkIndexesOfWire wire).map (·.index)).Perm wire := by
    have := hperm.map (·.index)
    rwa [wirePairs_map_index] at this
  unfold extract
  have := extractLoop_dup_panics values hv (pkIndexesOfWire wire) 0
    (List.replicate (pkIndexesOfWire wire).length none)
    (by
      intro p hp
      have hm := mem_wirePairs wire 0 p (by omega) (hperm.mem_iff.mp hp)
      refine ⟨hlt _ (List.mem_of_getElem? hm.2.2), ?_⟩
      rw [List.length_replicate, pkIndexesOfWire_length]; omega)
    (Or.inl (by
      intro hpw
      apply hdup
      apply hidx.nodup_iff.mp
      have : ((pkIndexesOfWire wire).map (·.index)).Pairwise (· < ·) := by
        rw [List.pairwise_map]; exact hpw
      exact this.imp (fun h => Nat.ne_of_lt h)))
  rw [List.drop_zero] at this
  exact this

example : extract (pkIndexesOfWire [1, 0, 1]) [.value [1], .value [2]] = .error .panic :=
  extract_duplicate_marker [1, 0, 1] _ (by decide) (by decide) (by decide) (by decide)

/-! ### null / unset key components -/

private theorem encodeChunks_opts (opts : List (Option (List UInt8)))
    (hsmall : 2 ≤ (opts.filterMap id).length → ∀ c ∈ opts.filterMap id, c.length ≤ 65535) :
    ∃ cs, encodeChunks opts = .ok cs ∧ cs.flatten = encodeKey (opts.filterMap id) := by
  unfold encodeChunks
  generalize opts.filterMap id = comps at *
  match comps, hsmall with
  | [], _ => exact ⟨[], rfl, rfl⟩
  | [v], _ => exact ⟨[v], rfl, by simp [encodeKey]⟩
  | v :: w :: rest, hsmall =>
    obtain ⟨cs, h1, h2⟩ := compositeChunks_ok (v :: w :: rest) (hsmall (by simp))
    exact ⟨cs, h1, by rw [h2]; rfl⟩

/-- **What the driver does with null / unset key components** (the server rejects such requests): they are skipped,
and the token is computed from the remaining components as if they were the whole key — the single remaining
component raw, two or more in the composite framing, none at all as the empty key. No hypothesis on which components
are bound. -/
theorem token_formula_nulls (cdc : Bool) (wire : List Nat) (values : List RawValue)
    (hne : wire ≠ []) (hnd : wire.Nodup) (hlt : ∀ ix ∈ wire, ix < values.length) (hv : values.length ≤ 65535)
    (hsmall : 2 ≤ ((keyOf wire values).filterMap id).length →
      ∀ c ∈ (keyOf wire values).filterMap id, c.length ≤ 65535) :
    calculateToken cdc (pkIndexesOfWire wire) values =
      .ok (some (if cdc then cdcRust (encodeKey ((keyOf wire values).filterMap id))
                 else murmur3Spec (encodeKey ((keyOf wire values).filterMap id)))) := by
  have hpk : (pkIndexesOfWire wire).isEmpty = false := by
    have : (pkIndexesOfWire wire).length = wire.length := pkIndexesOfWire_length wire
    cases hw : pkIndexesOfWire wire with
    | nil => rw [hw] at this; exact absurd (List.eq_nil_of_length_eq_zero this.symm) hne
    | cons _ _ => rfl
  obtain ⟨cs, hcs, hfl⟩ := encodeChunks_opts (keyOf wire values) hsmall
  unfold calculateToken
  rw [hpk, extract_in_pk_order wire values hnd hlt hv]
  simp only [Bool.false_eq_true, if_false, hcs]
  unfold hashChunks
  cases cdc with
  | false => simp only [Bool.false_eq_true, if_false]; rw [chunking_independent, hfl]
  | true => simp only [if_true]; rw [cdc_chunking_independent, hfl]

-- non-vacuity: key = (marker 1, marker 0) with marker 1 bound to NULL: hashed as the single component of marker 0
example : calculateToken false (pkIndexesOfWire [1, 0]) [.value [0xaa], .null] = .ok (some (murmur3Spec [0xaa])) := by
  rw [token_formula_nulls false [1, 0] _ (by decide) (by decide) (by decide) (by decide) (by decide)]
  rfl

/-! ### the serialized buffer: `SerializedValuesIterator::nth` -/

open ScyllaVerif.SerializedValuesC03 ScyllaVerif.Proofs.SerializedValuesC03 in
/-- `values_iter.nth(n)` on the buffer `SerializedValues` holds is indexing into the bound values — NULL and
"not set" cells are items like any other — and leaves the iterator at the encoding of the rest. -/
theorem nth_is_indexing (vs : List RawValue) (hvs : ∀ v ∈ vs, cellOk v) (n : Nat) :
    nth n (encodeValues vs) =
      match vs.drop n with
      | [] => .done
      | v :: rest => .item v (encodeValues rest) :=
  nth_encode vs hvs n

open ScyllaVerif.SerializedValuesC03 ScyllaVerif.Proofs.SerializedValuesC03 in
/-- `PartitionKey::new` walking the serialized buffer with `nth` computes what the list-level model computes, for every
pk index table and all bound values (each at most `i32::MAX` bytes): all extraction theorems above hold of the
buffer-level loop. -/
theorem extract_on_buffer (pk : List PkIndex) (values : List RawValue) (hvs : ∀ v ∈ values, cellOk v) :
    extractBuf pk values.length (encodeValues values) = extract pk values :=
  extractBuf_eq pk values hvs

open ScyllaVerif.SerializedValuesC03 in
example : nth 1 (encodeValues [.value [7], .null, .unset, .value []]) =
      .item .null (encodeValues [.unset, .value []]) ∧
    nth 3 (encodeValues [.value [7], .null, .unset, .value []]) = .item (.value []) [] ∧
    nth 4 (encodeValues [.value [7], .null, .unset, .value []]) = .done ∧
    nth 0 [0, 0, 0, 9, 1] = .panic := by decide

/-! ### `ClusterState::compute_token`: the path that bypasses `PreparedStatement` -/

theorem clusterComputeToken_unknown_table (schema : TableSnapshot) (ks table : List UInt8) (key : List RawValue)
    (h : schema.lookup ks = none ∨ ∃ tables, schema.lookup ks = some tables ∧ tables.lookup table = none) :
    clusterComputeToken schema ks table key = .error .unknownTable := by
  unfold clusterComputeToken
  rcases h with h | ⟨tables, h1, h2⟩
  · rw [h]
  · rw [h1]; simp only []; rw [h2]

/-- For a table in the snapshot and a fully bound key given in partition-key order (one value per key column),
`compute_token` returns the token of the partitioner the table's metadata names — the same formula as the prepared
statement path. -/
theorem clusterComputeToken_formula (schema : TableSnapshot) (ks table : List UInt8) (tables : List (List UInt8 × TableInfo))
    (t : TableInfo) (comps : List (List UInt8))
    (hks : schema.lookup ks = some tables) (ht : tables.lookup table = some t)
    (hcount : comps.length = t.pkColumns) (hne : comps ≠ []) (hmax : comps.length ≤ 65535)
    (hsmall : 2 ≤ comps.length → ∀ c ∈ comps, c.length ≤ 65535) :
    clusterComputeToken schema ks table (comps.map .value) =
      .ok (if selectPartitioner t.partitioner = .cdc then cdcRust (encodeKey comps)
           else murmur3Spec (encodeKey comps)) := by
  unfold clusterComputeToken
  rw [hks]; simp only []; rw [ht]; simp only []
  rw [if_neg (by simp only [List.length_map]; omega)]
  rw [tokenForPartitionKey_formula _ comps hne hsmall]
  simp only []
  cases selectPartitioner t.partitioner <;> simp

/-- **The two token paths agree**: for the same table, partitioner and fully bound key, `PreparedStatement::calculate_token`
(markers in any order) and `ClusterState::compute_token` (key in partition-key order) return the same token. -/
theorem cluster_token_agrees_with_prepared (schema : TableSnapshot) (ks table : List UInt8)
    (tables : List (List UInt8 × TableInfo)) (t : TableInfo)
    (wire : List Nat) (values : List RawValue) (comps : List (List UInt8))
    (hks : schema.lookup ks = some tables) (ht : tables.lookup table = some t)
    (hcount : comps.length = t.pkColumns)
    (hne : wire ≠ []) (hnd : wire.Nodup) (hlt : ∀ ix ∈ wire, ix < values.length) (hv : values.length ≤ 65535)
    (hbound : keyOf wire values = comps.map some)
    (hsmall : 2 ≤ comps.length → ∀ c ∈ comps, c.length ≤ 65535) :
    ∃ tok, calculateToken (selectPartitioner t.partitioner == .cdc) (pkIndexesOfWire wire) values = .ok (some tok) ∧
      clusterComputeToken schema ks table (comps.map .value) = .ok tok := by
  have hwl : wire.length = comps.length := by
    have := congrArg List.length hbound
    simpa [keyOf] using this
  have hcne : comps ≠ [] := by
    intro h; rw [h] at hwl; exact hne (List.eq_nil_of_length_eq_zero hwl)
  have hmax : comps.length ≤ 65535 := by
    have := nodup_bounded_length values.length wire hnd hlt
    omega
  refine ⟨_, token_formula _ wire values comps hne hnd hlt hv hbound hsmall, ?_⟩
  rw [clusterComputeToken_formula schema ks table tables t comps hks ht hcount hcne hmax hsmall]
  cases selectPartitioner t.partitioner <;> simp

/-- **The two token paths DIVERGE on a null key component** (outside the server's domain: it rejects such a request).
For a two-column key `(v, NULL)` — or `(v, unset)` — `PreparedStatement::calculate_token` drops the null component and
hashes the single remaining one RAW (`write_encoded_partition_key`, prepared.rs:826-846, decides by the number of
non-null values), whereas `ClusterState::compute_token` keeps the composite framing `be16 |v| ++ v ++ [0]` of the one
value (`calculate_token_for_partition_key`, partitioner.rs:401-418, decides by `element_count()`, nulls included).
`cluster_token_agrees_with_prepared` therefore needs its hypothesis that every component is bound. -/
theorem null_component_paths_diverge (schema : TableSnapshot) (ks table : List UInt8)
    (tables : List (List UInt8 × TableInfo)) (t : TableInfo) (v : List UInt8) (missing : RawValue)
    (hks : schema.lookup ks = some tables) (ht : tables.lookup table = some t) (h2 : t.pkColumns = 2)
    (hm : missing = .null ∨ missing = .unset) (hv : v.length ≤ 65535) :
    calculateToken (selectPartitioner t.partitioner == .cdc) (pkIndexesOfWire [1, 0]) [missing, .value v] =
        .ok (some (if selectPartitioner t.partitioner = .cdc then cdcRust v else murmur3Spec v)) ∧
    clusterComputeToken schema ks table [.value v, missing] =
        .ok (if selectPartitioner t.partitioner = .cdc then cdcRust (be16 v.length ++ v ++ [0])
             else murmur3Spec (be16 v.length ++ v ++ [0])) := by
  have hcc : compositeChunks [v] = .ok [be16 v.length, v, [0]] := by
    unfold compositeChunks
    rw [if_neg (by omega)]
    rfl
  rcases hm with rfl | rfl
  all_goals
    constructor
    · rw [token_formula_nulls _ [1, 0] _ (by decide) (by decide) (by simp) (by simp)
        (by simp [keyOf, List.getD, RawValue.asValue])]
      cases selectPartitioner t.partitioner <;> simp [keyOf, List.getD, RawValue.asValue, encodeKey]
    · unfold clusterComputeToken
      rw [hks]; simp only []; rw [ht]; simp only []
      rw [if_neg (by simp [h2])]
      unfold tokenForPartitionKey
      simp only [List.filterMap_cons, RawValue.asValue, List.filterMap_nil, hcc]
      unfold hashChunks
      cases selectPartitioner t.partitioner
      · simp only [show (PartitionerName.murmur3 == PartitionerName.cdc) = false from rfl, Bool.false_eq_true,
          if_false]
        rw [chunking_independent]
        simp
      · simp only [show (PartitionerName.cdc == PartitionerName.cdc) = true from rfl, if_true]
        rw [cdc_chunking_independent]
        simp

-- the witness the round-3 auditor computed: key (0xaa, NULL) - the two paths give different tokens
example :
    calculateToken false (pkIndexesOfWire [1, 0]) [.null, .value [0xaa]] = .ok (some (-3327552019147923729)) ∧
    clusterComputeToken [([1], [([2], ⟨2, none⟩)])] [1] [2] [.value [0xaa], .null] = .ok 5270662526782195771 := by
  have h := null_component_paths_diverge [([1], [([2], ⟨2, none⟩)])] [1] [2] [([2], ⟨2, none⟩)] ⟨2, none⟩ [0xaa] .null
    rfl rfl rfl (Or.inl rfl) (by decide)
  have e1 : murmur3Spec [0xaa] = -3327552019147923729 := by decide +kernel
  have e2 : murmur3Spec (be16 [(0xaa : UInt8)].length ++ [0xaa] ++ [0]) = 5270662526782195771 := by decide +kernel
  have hs : selectPartitioner (none : Option (List UInt8)) = .murmur3 := rfl
  obtain ⟨h1, h2⟩ := h
  simp only [hs] at h1 h2
  rw [e1] at h1
  rw [e2] at h2
  exact ⟨h1, h2⟩

-- non-vacuity: ks.comp with a two-column key; statement markers (b, a); both paths give the composite token
example :
    clusterComputeToken [([1], [([2], ⟨2, none⟩)])] [1] [2] [.value [0xa1], .value [0xb2]] =
      .ok (murmur3Spec [0, 1, 0xa1, 0, 0, 1, 0xb2, 0]) := by
  have := clusterComputeToken_formula [([1], [([2], ⟨2, none⟩)])] [1] [2] [([2], ⟨2, none⟩)] ⟨2, none⟩
    [[0xa1], [0xb2]] rfl rfl (by decide) (by decide) (by decide) (by decide)
  simpa [selectPartitioner, encodeKey, be16] using this

/-! ### the routing token of a BATCH -/

/-- **A batch is routed by the token of its FIRST row under its FIRST statement**, when that statement is prepared:
whatever the other statements (their partitioners, their pk tables) and the other rows are. -/
theorem batch_token_first_row_first_statement (cdc : Bool) (pk : List PkIndex) (ncols : Nat)
    (rest : List BatchStmt) (row : List RawValue) (rows : List (List RawValue))
    (hcols : row.length = ncols) (hmax : row.length ≤ 65535) :
    batchFirstToken (.prepared cdc pk ncols :: rest) (row :: rows) = calculateToken cdc pk row ∧
    batchFirstToken (.prepared cdc pk ncols :: rest) (row :: rows) = boundCalculateToken cdc pk row := by
  unfold batchFirstToken boundCalculateToken
  simp only []
  rw [if_neg (by omega), if_neg (by omega)]
  exact ⟨rfl, rfl⟩

/-- The token formula for batches: with the first statement's key markers `wire` and the first row binding every key
component, the batch's routing token is the server-side token of that row's key (same hypotheses as `token_formula`). -/
theorem batch_token_formula (cdc : Bool) (wire : List Nat) (rest : List BatchStmt) (row : List RawValue)
    (rows : List (List RawValue)) (comps : List (List UInt8))
    (hne : wire ≠ []) (hnd : wire.Nodup) (hlt : ∀ ix ∈ wire, ix < row.length) (hv : row.length ≤ 65535)
    (hbound : keyOf wire row = comps.map some)
    (hsmall : 2 ≤ comps.length → ∀ c ∈ comps, c.length ≤ 65535) :
    batchFirstToken (.prepared cdc (pkIndexesOfWire wire) row.length :: rest) (row :: rows) =
      .ok (some (if cdc then cdcRust (encodeKey comps) else murmur3Spec (encodeKey comps))) := by
  rw [(batch_token_first_row_first_statement cdc _ row.length rest row rows rfl hv).1]
  exact token_formula cdc wire row comps hne hnd hlt hv hbound hsmall

/-- No token (the batch goes to any node): an empty batch, an unprepared first statement — even when later statements
are prepared —, or no values. -/
theorem batch_no_token (stmts : List BatchStmt) (rows : List (List RawValue))
    (h : stmts = [] ∨ (∃ rest, stmts = .unprepared :: rest) ∨ rows = []) :
    batchFirstToken stmts rows = .ok none := by
  unfold batchFirstToken
  rcases h with rfl | ⟨rest, rfl⟩ | rfl
  · rfl
  · rfl
  · cases stmts with
    | nil => rfl
    | cons s rest => cases s <;> rfl

/-- A first row that does not have one value per bind marker of the first statement is a serialization error (the
batch is not sent). -/
theorem batch_first_row_mismatch (cdc : Bool) (pk : List PkIndex) (ncols : Nat) (rest : List BatchStmt)
    (row : List RawValue) (rows : List (List RawValue)) (h : row.length ≠ ncols) :
    batchFirstToken (.prepared cdc pk ncols :: rest) (row :: rows) = .error .serialization := by
  unfold batchFirstToken
  simp only []
  rw [if_pos (Or.inl h)]

-- non-vacuity: statements (prepared on key (marker 1, marker 0); unprepared; prepared CDC), rows differ: the token
-- is that of the first row under the first statement
example :
    batchFirstToken [.prepared false (pkIndexesOfWire [1, 0]) 2, .unprepared, .prepared true (pkIndexesOfWire [0]) 1]
        [[.value [0xa1, 0xa2], .value [0xbb]], [.value [1], .value [2]], [.value [3]]] =
      .ok (some (murmur3Spec [0, 1, 0xbb, 0, 0, 2, 0xa1, 0xa2, 0])) := by
  have h := batch_token_formula false [1, 0] [.unprepared, .prepared true (pkIndexesOfWire [0]) 1]
    [.value [0xa1, 0xa2], .value [0xbb]] [[.value [1], .value [2]], [.value [3]]] [[0xbb], [0xa1, 0xa2]]
    (by decide) (by decide) (by decide) (by decide) (by decide) (by decide)
  exact h

/-! ### `compute_token_preserialized` and the Minimal schema fetch level -/

/-- On a key with one value per partition-key column the preserialized entry point is `compute_token`. -/
theorem preserialized_eq_compute_token (schema : TableSnapshot) (ks table : List UInt8)
    (tables : List (List UInt8 × TableInfo)) (t : TableInfo) (key : List RawValue)
    (hks : schema.lookup ks = some tables) (ht : tables.lookup table = some t)
    (hcount : key.length = t.pkColumns) (hmax : key.length ≤ 65535) :
    clusterComputeTokenPreserialized schema ks table key = clusterComputeToken schema ks table key := by
  unfold clusterComputeTokenPreserialized clusterComputeToken
  rw [hks]; simp only []; rw [ht]; simp only []
  rw [if_neg (by omega)]

/-- It checks nothing about the key's shape: for ANY number of fully bound components (whatever the table's key
columns are) it returns the token of their encoding under the table's partitioner; an unknown table is still an error. -/
theorem preserialized_formula (schema : TableSnapshot) (ks table : List UInt8)
    (tables : List (List UInt8 × TableInfo)) (t : TableInfo) (comps : List (List UInt8))
    (hks : schema.lookup ks = some tables) (ht : tables.lookup table = some t) (hne : comps ≠ [])
    (hsmall : 2 ≤ comps.length → ∀ c ∈ comps, c.length ≤ 65535) :
    clusterComputeTokenPreserialized schema ks table (comps.map .value) =
      .ok (if selectPartitioner t.partitioner = .cdc then cdcRust (encodeKey comps)
           else murmur3Spec (encodeKey comps)) := by
  unfold clusterComputeTokenPreserialized
  rw [hks]; simp only []; rw [ht]; simp only []
  rw [tokenForPartitionKey_formula _ comps hne hsmall]
  simp only []
  cases selectPartitioner t.partitioner <;> simp

/-- With `fetch_full_schema_metadata(false)` (`SchemaMetadataFetchLevel::Minimal`) tables carry their partitioner but
no partition-key columns: `compute_token` then fails for every non-empty key (serialization error), while prepared
statements (`preparedPartitioner_cdc_iff` needs only the partitioner string) and the preserialized entry point work. -/
theorem compute_token_minimal_level (schema : TableSnapshot) (ks table : List UInt8)
    (tables : List (List UInt8 × TableInfo)) (t : TableInfo) (key : List RawValue)
    (hks : schema.lookup ks = some tables) (ht : tables.lookup table = some t)
    (hmin : t.pkColumns = 0) (hne : key ≠ []) :
    clusterComputeToken schema ks table key = .error .serialization := by
  unfold clusterComputeToken
  rw [hks]; simp only []; rw [ht]; simp only []
  have : key.length ≠ 0 := fun h => hne (List.eq_nil_of_length_eq_zero h)
  rw [if_pos (Or.inl (by omega))]

example : clusterComputeToken [([1], [([2], ⟨0, some cdcSuffix⟩)])] [1] [2] [.value [7]] = .error .serialization :=
  compute_token_minimal_level _ [1] [2] [([2], ⟨0, some cdcSuffix⟩)] ⟨0, some cdcSuffix⟩ _ rfl rfl rfl (by decide)

/-! ### materialized views -/

/-- **Observed behaviour on materialized views.** `SchemaSnapshot` / `TableSnapshot` model `keyspace.tables`; views
live in `keyspace.views`, which neither `extract_partitioner_name` nor `lookup_table_meta` reads. So for a view (a name
that is not a key of its keyspace's `tables`), whatever partitioner the server reports for it: a prepared statement on
it gets the default partitioner, and `compute_token` / `compute_token_preserialized` answer `UnknownTable`. (Correct as
long as views use Murmur3, which they do today.) -/
theorem materialized_view_paths (ks view : List UInt8) (tablesP : List (List UInt8 × Option (List UInt8)))
    (tablesT : List (List UInt8 × TableInfo)) (schemaP : SchemaSnapshot) (schemaT : TableSnapshot)
    (key : List RawValue)
    (hP : schemaP.lookup ks = some tablesP) (hvP : tablesP.lookup view = none)
    (hT : schemaT.lookup ks = some tablesT) (hvT : tablesT.lookup view = none) :
    preparedPartitioner (some (ks, view)) schemaP = .murmur3 ∧
    clusterComputeToken schemaT ks view key = .error .unknownTable ∧
    clusterComputeTokenPreserialized schemaT ks view key = .error .unknownTable := by
  refine ⟨?_, ?_, ?_⟩
  · exact preparedPartitioner_default _ _ (Or.inr ⟨ks, view, rfl, Or.inr ⟨tablesP, hP, Or.inl hvP⟩⟩)
  · exact clusterComputeToken_unknown_table _ _ _ _ (Or.inr ⟨tablesT, hT, hvT⟩)
  · unfold clusterComputeTokenPreserialized
    rw [hT]; simp only []; rw [hvT]

example :
    preparedPartitioner (some ([1], [9])) [([1], [([2], some cdcSuffix)])] = .murmur3 ∧
    clusterComputeToken [([1], [([2], ⟨1, none⟩)])] [1] [9] [.value [7]] = .error .unknownTable :=
  let h := materialized_view_paths [1] [9] [([2], some cdcSuffix)] [([2], ⟨1, none⟩)]
    [([1], [([2], some cdcSuffix)])] [([1], [([2], ⟨1, none⟩)])] [.value [7]] rfl rfl rfl rfl
  ⟨h.1, h.2.1⟩

end ScyllaVerif.Props.C03

/-
C17 — type mismatches are always rejected and a failed bind leaves the request intact.
Property theorems only.  Models: `Model/Carrier.lean` (acceptance relations; serializers with the buffer threaded
through and returned ALSO ON FAILURE), `Model/Row.lean` (`SerializedValues`).  Helper lemmas:
`Proofs/Carrier.lean`, `Proofs/Row.lean`.
-/
import ScyllaVerif.Model.Carrier
import ScyllaVerif.Model.Row
import ScyllaVerif.Model.C17Bind
import ScyllaVerif.Proofs.Carrier
import ScyllaVerif.Proofs.Row
import ScyllaVerif.Proofs.CarrierFits
import ScyllaVerif.Proofs.CarrierStatic
import ScyllaVerif.Proofs.CarrierTc
import ScyllaVerif.Proofs.CarrierDims
import ScyllaVerif.Proofs.CarrierDocs
import ScyllaVerif.Proofs.PagerStream
import ScyllaVerif.Proofs.CarrierUdt
import ScyllaVerif.Generated.DocMatrix

namespace ScyllaVerif.Props.C17
open ScyllaVerif.Vint ScyllaVerif.Cql ScyllaVerif.Carrier ScyllaVerif.Row
open ScyllaVerif.Proofs.Carrier (ser_app ser_cell)
open ScyllaVerif.Proofs.Row (IsCell parseFuel_snoc parseFuel_canon resize_append)

/-! ## Part 1 — `SerializedValues::add_value`: rollback and value count

The per-value serializer is abstract here: ANY function on the buffer that only ever appends to it
(`Appends`) — it may well leave a partially written value behind when it fails — and that, when it succeeds,
has appended exactly one well-framed `[value]` (`WritesCell`).  `ser_appends` / `ser_writes_cell` below show
that every carrier's serializer of `Model/Carrier.lean` is such a function, at any nesting depth. -/

/-- The buffer after the call (successful or not) extends the buffer before it. -/
def Appends {ε : Type} (f : Bytes → Bytes × Option ε) : Prop := ∀ b, ∃ s, (f b).1 = b ++ s

/-- A successful call has appended exactly one `[value]`. -/
def WritesCell {ε : Type} (f : Bytes → Bytes × Option ε) : Prop :=
  ∀ b, (f b).2 = none → ∃ c, IsCell c ∧ (f b).1 = b ++ c

/-- **Atomicity.**  Whatever kind of failure (`TooManyValues`, a type mismatch detected before anything was
written, a failure deep inside a partially written collection, a size overflow detected by `finish`), after
a failed `add_value` the `SerializedValues` is what it was: same bytes, same count. -/
theorem addValueWith_atomic {ε : Type} (f : Bytes → Bytes × Option ε) (hf : Appends f) (sv sv' : SV)
    (e : AddErr ε) (h : addValueWith f sv = (sv', some e)) : sv' = sv := by
  unfold addValueWith at h
  split at h
  · cases h; rfl
  · obtain ⟨s, hs⟩ := hf sv.bytes
    generalize f sv.bytes = r at h hs
    obtain ⟨b, oe⟩ := r
    simp only at hs
    cases oe with
    | none => simp at h
    | some e' =>
      simp only [Prod.mk.injEq] at h
      obtain ⟨h1, _⟩ := h
      subst h1 hs
      simp [resize_append]

/-- `add_value` at `u16::MAX` values: `TooManyValues`, nothing changes (the serializer is not even called). -/
theorem too_many_values {ε : Type} (f : Bytes → Bytes × Option ε) (sv : SV) (h : sv.count = 65535) :
    addValueWith f sv = (sv, some .tooManyValues) := by
  simp [addValueWith, u16Max, h]

/-- `TooManyValues` is reported only at `u16::MAX` values. -/
theorem too_many_values_only {ε : Type} (f : Bytes → Bytes × Option ε) (sv sv' : SV)
    (h : addValueWith f sv = (sv', some .tooManyValues)) : sv.count = 65535 := by
  unfold addValueWith at h
  split at h
  · assumption
  · generalize f sv.bytes = r at h
    obtain ⟨b, oe⟩ := r
    cases oe <;> simp at h

/-- A successful `add_value`: one more value, the old bytes followed by exactly one new cell. -/
theorem addValueWith_ok {ε : Type} (f : Bytes → Bytes × Option ε) (hw : WritesCell f) (sv sv' : SV)
    (h : addValueWith f sv = (sv', none)) :
    sv.count ≠ 65535 ∧ sv'.count = sv.count + 1 ∧ ∃ c, IsCell c ∧ sv'.bytes = sv.bytes ++ c := by
  unfold addValueWith at h
  split at h
  · simp at h
  · rename_i hne
    have hw' := hw sv.bytes
    generalize f sv.bytes = r at h hw'
    obtain ⟨b, oe⟩ := r
    cases oe with
    | some e => simp at h
    | none =>
      simp only [Prod.mk.injEq, and_true] at h
      subst h
      obtain ⟨c, hc, hb⟩ := hw' rfl
      exact ⟨hne, rfl, c, hc, hb⟩

/-- The invariant of `SerializedValues`: at most `u16::MAX` values, and `element_count` is the number of
cells `iter()` finds in the buffer (in particular the buffer parses: `iter()` does not panic). -/
def Inv (sv : SV) : Prop :=
  sv.count ≤ 65535 ∧ ∃ cs, parseCells sv.bytes = some cs ∧ cs.length = sv.count

theorem inv_empty : Inv SV.empty := ⟨by decide, [], by decide, rfl⟩

/-- One `add_value` call — successful or failed, of any failure kind — preserves the invariant. -/
theorem inv_step {ε : Type} (f : Bytes → Bytes × Option ε) (hf : Appends f) (hw : WritesCell f) (sv : SV)
    (h : Inv sv) : Inv (addValueWith f sv).1 := by
  generalize hr : addValueWith f sv = r
  obtain ⟨sv', oe⟩ := r
  cases oe with
  | some e => rw [addValueWith_atomic f hf sv sv' e hr]; exact h
  | none =>
    obtain ⟨hne, hcount, c, hc, hb⟩ := addValueWith_ok f hw sv sv' hr
    obtain ⟨hle, cs, hp, hlen⟩ := h
    refine ⟨by simp only [hcount]; omega, ?_⟩
    unfold parseCells at hp
    obtain ⟨x, hx⟩ := parseFuel_snoc c hc _ sv.bytes cs hp
    exact ⟨cs ++ [x], by simp only [hb]; exact parseFuel_canon _ _ _ hx, by simp [hlen, hcount]⟩

/-- **`count_eq_cells`**, lifted to every sequence of `add_value` calls (successful or failed, in any order):
`element_count() == iter().count()`, and the count never exceeds `u16::MAX`. -/
theorem count_eq_cells_gen {ε : Type} (fs : List (Bytes → Bytes × Option ε))
    (h : ∀ f, f ∈ fs → Appends f ∧ WritesCell f) (sv : SV) (hsv : Inv sv) : Inv (addAll fs sv) := by
  induction fs generalizing sv with
  | nil => exact hsv
  | cons f fs ih =>
    simp only [addAll, List.foldl_cons]
    exact ih (fun g hg => h g (by simp [hg])) _ (inv_step f (h f (by simp)).1 (h f (by simp)).2 sv hsv)

/-! ### the serializers of `Model/Carrier.lean` are such functions -/

/-- Every carrier's serializer, against every column type, with or without `write_size`, successful or not,
only appends to the buffer (back-patching touches only what the call itself appended). -/
theorem ser_appends (t : CqlTy) (x : RVal) (ws : Bool) : Appends (ser t x ws) := ser_app t x ws

/-- A successful top-level serialization appends exactly one `[value]`. -/
theorem ser_writes_cell (t : CqlTy) (x : RVal) : WritesCell (ser t x true) := by
  intro b hok
  obtain ⟨c, hc, hb⟩ := ser_cell t x b hok
  exact ⟨c, hc, hb⟩

/-- `SerializedValues::add_value(&x, &t)`. -/
def addValue (t : CqlTy) (x : RVal) (sv : SV) : SV × Option (AddErr SerErr) := addValueWith (ser t x true) sv

/-- **`add_value_atomic`**: for every value of every carrier, every column type and every failure — a type
mismatch at the top, a mismatch or a wrong vector dimension or a left-over UDT field deep inside a partially
written collection / tuple / map / UDT, a size overflow found by `finish`, too many values — the
`SerializedValues` afterwards is the one before: same bytes, same count. -/
theorem add_value_atomic (t : CqlTy) (x : RVal) (sv sv' : SV) (e : AddErr SerErr)
    (h : addValue t x sv = (sv', some e)) : sv' = sv :=
  addValueWith_atomic _ (ser_appends t x true) sv sv' e h

/-- The rollback is not vacuous: here the serializer fails on the THIRD element of a list, after the list
header and two elements were appended to the buffer (9 + 4 + 16 bytes behind the 3 bytes bound before). -/
example :
    let x := RVal.vec [.scalar .i32 [0, 0, 0, 1], .scalar .i32 [0, 0, 0, 2], .scalar .str [120]]
    (ser (.list (.native .int)) x true [9, 9, 9]).2 = some ⟨[.elem], .mismatchedType⟩ ∧
    (ser (.list (.native .int)) x true [9, 9, 9]).1.length = 27 ∧
    (addValue (.list (.native .int)) x ⟨[9, 9, 9], 1⟩).1 = ⟨[9, 9, 9], 1⟩ := by decide +kernel

/-- **`count_eq_cells`** for the modelled serializers: after ANY sequence of `add_value` calls (any carriers,
any column types, successes and failures interleaved) starting from `SerializedValues::new()`,
`element_count()` equals the number of cells `iter()` yields, and is at most 65535. -/
theorem count_eq_cells (ops : List (CqlTy × RVal)) :
    Inv (ops.foldl (fun s op => (addValue op.1 op.2 s).1) SV.empty) := by
  have := count_eq_cells_gen (ops.map (fun op => ser op.1 op.2 true))
    (by
      intro f hf
      obtain ⟨op, _, rfl⟩ := List.mem_map.mp hf
      exact ⟨ser_appends _ _ _, ser_writes_cell _ _⟩)
    SV.empty inv_empty
  simpa [addAll, List.foldl_map, addValue] using this

example : Inv (([(CqlTy.native .int, RVal.scalar .i32 [0, 0, 0, 1]), (.native .int, .scalar .str [120]),
    (.native .text, .none)] : List (CqlTy × RVal)).foldl (fun s op => (addValue op.1 op.2 s).1) SV.empty) :=
  count_eq_cells _

/-- `RowWriter` counts a cell BEFORE it is written (`make_cell_writer`), so `from_closure` converts the count
at the end: more than `u16::MAX` cells ⇒ `TooManyValues`. -/
theorem from_closure_count (n : Nat) : fromClosureCount n = none ↔ n > 65535 := by
  unfold fromClosureCount u16Max
  split <;> simp <;> omega

/-- The closed form the driver uses for "`n` nulls" is `n` `add_value(&None, _)` calls. -/
theorem fillNulls_eq (n : Nat) (sv : SV) (h : sv.count ≤ 65535) (t : CqlTy) :
    fillNulls n sv = Nat.repeat (fun s => (addValue t .none s).1) n sv := by
  have hser : ∀ b, ser t .none true b = (b ++ nullCell, none) := by
    intro b; rw [ser]; simp [strip, setNull, nullBytes, nullCell]
  induction n with
  | zero => simp [fillNulls, Nat.repeat]
  | succ n ih =>
    rw [Nat.repeat, ← ih]
    simp only [addValue, addValueWith, fillNulls, u16Max, hser]
    by_cases hfull : sv.count + min n (65535 - sv.count) = 65535
    · have : min (n + 1) (65535 - sv.count) = min n (65535 - sv.count) := by omega
      simp [hfull, this]
    · have : min (n + 1) (65535 - sv.count) = min n (65535 - sv.count) + 1 := by omega
      simp [hfull, this, List.replicate_succ', List.append_assoc]
      omega

/-! ### `RowWriter`, `from_closure` / `from_serializable`: the count is the number of cells, refusal iff > 65535 -/

open ScyllaVerif.Proofs.Row (parseFuel_append)

/-- The writer's invariant: `value_count` (an unbounded count) is the number of cells in its buffer. -/
def WInv (w : RW) : Prop := ∃ cs, parseCells w.buf = some cs ∧ cs.length = w.count

/-- A row that may be appended: its count is the number of its cells (e.g. any `Inv` row). -/
def RowOk (sv : SV) : Prop := ∃ cs, parseCells sv.bytes = some cs ∧ cs.length = sv.count

/-- Every operation of the body writes through a well-behaved serializer / appends a consistent row. -/
def GoodOps {ε : Type} (ops : List (WOp ε)) : Prop :=
  ∀ op, op ∈ ops → match op with
    | .cell f => Appends f ∧ WritesCell f
    | .append sv => RowOk sv

theorem winv_new : WInv RW.new := ⟨[], by decide, rfl⟩

/-- **Every reachable writer state**: after any body that ran to its end, `value_count` equals the number of
cells in the buffer AND the number of values the body bound — with no bound on either (70000 values are counted
as 70000). -/
theorem writer_count_eq_cells {ε : Type} (ops : List (WOp ε)) (hg : GoodOps ops) (w w' : RW) (hw : WInv w)
    (h : runW ops w = (w', none)) : WInv w' ∧ w'.count = w.count + totalValues ops := by
  induction ops generalizing w with
  | nil => simp only [runW, Prod.mk.injEq, and_true] at h; subst h; exact ⟨hw, by simp [totalValues]⟩
  | cons op ops ih =>
    have hg' : GoodOps ops := fun o ho => hg o (by simp [ho])
    have hop := hg op (by simp)
    cases op with
    | cell f =>
      simp only at hop
      simp only [runW, RW.makeCell] at h
      have hc := hop.2 w.buf
      generalize f w.buf = r at h hc
      obtain ⟨b, oe⟩ := r
      cases oe with
      | some e => simp at h
      | none =>
        simp only at h
        obtain ⟨c, hcell, hb⟩ := hc rfl
        simp only at hb
        obtain ⟨cs, hp, hlen⟩ := hw
        unfold parseCells at hp
        obtain ⟨x, hx⟩ := parseFuel_snoc c hcell _ w.buf cs hp
        have hw1 : WInv ⟨b, w.count + 1⟩ :=
          ⟨cs ++ [x], by simp only [hb]; exact parseFuel_canon _ _ _ hx, by simp [hlen]⟩
        obtain ⟨hi, hcount⟩ := ih hg' _ hw1 h
        exact ⟨hi, by simp only [hcount, totalValues, List.map_cons, List.sum_cons, WOp.values]; omega⟩
    | append sv =>
      simp only at hop
      simp only [runW, RW.appendRow] at h
      obtain ⟨cs, hp, hlen⟩ := hw
      obtain ⟨cs2, hp2, hlen2⟩ := hop
      unfold parseCells at hp hp2
      have hw1 : WInv ⟨w.buf ++ sv.bytes, w.count + sv.count⟩ :=
        ⟨cs ++ cs2, parseFuel_canon _ _ _ (parseFuel_append _ _ _ hp _ _ _ hp2), by simp [hlen, hlen2]⟩
      obtain ⟨hi, hcount⟩ := ih hg' _ hw1 h
      exact ⟨hi, by simp only [hcount, totalValues, List.map_cons, List.sum_cons, WOp.values]; omega⟩

/-- A successful `from_closure` / `from_serializable`: the reported count equals the number of encoded cells,
equals the number of values bound, and is at most 65535. -/
theorem from_closure_ok {ε : Type} (ops : List (WOp ε)) (hg : GoodOps ops) (sv : SV)
    (h : fromClosure ops = .ok sv) : Inv sv ∧ sv.count = totalValues ops := by
  unfold fromClosure at h
  generalize hr : runW ops RW.new = r at h
  obtain ⟨w, oe⟩ := r
  cases oe with
  | some e => simp at h
  | none =>
    simp only at h
    obtain ⟨⟨cs, hp, hlen⟩, hcount⟩ := writer_count_eq_cells ops hg RW.new w winv_new hr
    cases hf : w.finish with
    | none => simp [hf] at h
    | some sv' =>
      simp only [hf, Except.ok.injEq] at h
      subst h
      unfold RW.finish u16Max at hf
      split at hf
      · rename_i hle
        simp only [Option.some.injEq] at hf
        subst hf
        exact ⟨⟨hle, cs, hp, hlen⟩, by simp [hcount, RW.new]⟩
      · cases hf

/-- **Refusal iff more than 65535 values**: when every value serializes, `from_closure` answers `TooManyValues`
exactly when the body bound more than `u16::MAX` values (however they were bound: cell by cell, or by appending
rows whose sum crosses the bound) — and then no `SerializedValues` exists at all. -/
theorem from_closure_too_many_iff {ε : Type} (ops : List (WOp ε)) (hg : GoodOps ops)
    (hrun : (runW ops RW.new).2 = none) :
    fromClosure ops = .error .tooManyValues ↔ totalValues ops > 65535 := by
  unfold fromClosure
  generalize hr : runW ops RW.new = r at hrun
  obtain ⟨w, oe⟩ := r
  simp only at hrun
  subst hrun
  obtain ⟨_, hcount⟩ := writer_count_eq_cells ops hg RW.new w winv_new hr
  simp only [RW.new, Nat.zero_add] at hcount
  unfold RW.finish u16Max
  simp only [hcount]
  by_cases hle : totalValues ops ≤ 65535
  · simp only [hle, if_true]
    constructor
    · intro h; cases h
    · intro h; omega
  · simp only [hle, if_false]
    constructor
    · intro _; omega
    · intro _; trivial

/-- The closed form the driver uses for long runs of successfully written cells. -/
theorem writeCells_eq {ε : Type} (cells : List Bytes) (w : RW) :
    runW (cells.map (fun c => WOp.cell (ε := ε) (fun b => (b ++ c, none)))) w = (w.writeCells cells, none) := by
  induction cells generalizing w with
  | nil => simp [runW, RW.writeCells]
  | cons c cs ih =>
    simp only [List.map_cons, runW, RW.makeCell, ih, RW.writeCells, List.flatten_cons, List.length_cons]
    simp [List.append_assoc]; omega

/-- Non-vacuity: 65536 nulls bound cell by cell are refused, 65535 are accepted with count 65535; two rows of
40000 values appended into one writer are refused although each is fine on its own. -/
example :
    (RW.new.writeCells (List.replicate 65536 nullCell)).finish = none ∧
    ((RW.new.writeCells (List.replicate 65535 nullCell)).finish.map (·.count)) = some 65535 ∧
    ((RW.new.appendRow ⟨[], 40000⟩).appendRow ⟨[], 40000⟩).finish = none := by
  refine ⟨?_, ?_, ?_⟩
  · unfold RW.finish
    simp only [RW.writeCells, RW.new, List.length_replicate, u16Max]
    rw [if_neg (by decide)]
  · unfold RW.finish
    simp only [RW.writeCells, RW.new, List.length_replicate, u16Max]
    rw [if_pos (by decide)]; rfl
  · decide

/-! ## Part 2 — serialization: mismatches are always rejected

`ser` is *value-directed* (as the Rust impls are): the element type of an empty `Vec`, the type behind a `None`
are never looked at.  `fits t x` is that check written without buffers; `accepts c t` is the static relation
between a carrier TYPE and a column type.  The theorems tie the three together, at any nesting depth. -/

open ScyllaVerif.Proofs.CarrierFits (ser_rel)
open ScyllaVerif.Proofs.CarrierStatic (accepts_fits reject_full)

/-- Soundness: whatever was serialized successfully passed every type / shape check on the way. -/
theorem ser_ok_fits (t : CqlTy) (x : RVal) (ws : Bool) (buf : Bytes) (h : (ser t x ws buf).2 = none) :
    fits t x = true := (ser_rel t x ws buf).1 h

/-- **Rejection**: a value that does not fit the column type is refused — whatever the buffer, whatever
`write_size`, at whatever depth the misfit sits. -/
theorem ser_rejects (t : CqlTy) (x : RVal) (ws : Bool) (buf : Bytes) (h : fits t x = false) :
    ∃ e, (ser t x ws buf).2 = some e := by
  cases hr : (ser t x ws buf).2 with
  | some e => exact ⟨e, rfl⟩
  | none => rw [ser_ok_fits t x ws buf hr] at h; cases h

/-- Completeness up to sizes: a value that fits is serialized, unless a cell exceeds `i32::MAX` bytes or a
collection `i32::MAX` elements (`SizeOverflow` / `TooManyElements` — the error branch is not assumed away). -/
theorem ser_fits_ok_or_size (t : CqlTy) (x : RVal) (ws : Bool) (buf : Bytes) (h : fits t x = true) :
    (ser t x ws buf).2 = none ∨ ∃ e, (ser t x ws buf).2 = some e ∧ e.kind.isSize = true := by
  cases hr : (ser t x ws buf).2 with
  | none => exact .inl rfl
  | some e => exact .inr ⟨e, rfl, (ser_rel t x ws buf).2 h e hr⟩

/- Full statement of `ser_ok_iff` (DESIGN §6 C17): `ser c t x = ok ↔ accepts c t ∧ nested sizes fit`, with the
sizes given by an arithmetic predicate on the value.  Proved below with "nested sizes fit" expressed as "the call
does not end in a size error" (no independent byte-count function of the value was defined), hence `_partial`. -/
/-- `ser` succeeds iff the value fits the type and no size error occurs. -/
theorem ser_ok_iff_partial (t : CqlTy) (x : RVal) (ws : Bool) (buf : Bytes) :
    (ser t x ws buf).2 = none ↔
      fits t x = true ∧ ∀ e, (ser t x ws buf).2 = some e → e.kind.isSize = false := by
  constructor
  · intro h; exact ⟨ser_ok_fits t x ws buf h, fun e he => by rw [h] at he; cases he⟩
  · rintro ⟨hf, hs⟩
    rcases ser_fits_ok_or_size t x ws buf hf with h | ⟨e, he, hk⟩
    · exact h
    · rw [hs e he] at hk; cases hk

/-- A non-size error is a type-check error or a wrong vector dimension (nothing else exists). -/
theorem error_classes (k : SerKind) : k.isSize = true ∨ k.isTypeCheck = true ∨ k = .invalidNumberOfElements := by
  cases k <;> simp [SerKind.isSize, SerKind.isTypeCheck]

/-- **Static acceptance ⇒ accepted**: if the carrier TYPE accepts the column type (and contains no `CqlValue`),
every value of it whose sequences have the dimensions of the vectors they meet is serialized (or is too big). -/
theorem accepted_pair_serializes (c : Carrier) (t : CqlTy) (x : RVal) (ws : Bool) (buf : Bytes)
    (ha : accepts c t = true) (ht : hasType c x = true) (hn : noDyn c = true) (hd : dimsOk t x = true) :
    (ser t x ws buf).2 = none ∨ ∃ e, (ser t x ws buf).2 = some e ∧ e.kind.isSize = true :=
  ser_fits_ok_or_size t x ws buf (accepts_fits c t x ha ht hn hd)

/-- **Static mismatch ⇒ rejected**: if the carrier TYPE does not accept the column type, every fully populated
value of it is refused (an empty collection / `None` never reaches the mismatch: see the `example` below). -/
theorem mismatched_pair_rejected (c : Carrier) (t : CqlTy) (x : RVal) (ws : Bool) (buf : Bytes)
    (ha : accepts c t = false) (ht : hasType c x = true) (hf : full x = true) :
    ∃ e, (ser t x ws buf).2 = some e :=
  ser_rejects t x ws buf (reject_full c t x ha ht hf)

/-- **… with a type-check error**: when moreover the sequences have the dimensions of the vectors they meet and
no size error occurs, the refusal is a `BuiltinTypeCheckError` kind (possibly wrapped by the collections it
was found in) — never a serialization-error kind. -/
theorem mismatched_pair_type_error (c : Carrier) (t : CqlTy) (x : RVal) (ws : Bool) (buf : Bytes)
    (ha : accepts c t = false) (ht : hasType c x = true) (hf : full x = true) (hd : dimsOk t x = true)
    (hs : ∀ e', (ser t x ws buf).2 = some e' → e'.kind.isSize = false) :
    ∃ e, (ser t x ws buf).2 = some e ∧ e.kind.isTypeCheck = true := by
  obtain ⟨e, he⟩ := mismatched_pair_rejected c t x ws buf ha ht hf
  refine ⟨e, he, ?_⟩
  rcases error_classes e.kind with h | h | h
  · rw [hs e he] at h; cases h
  · exact h
  · exact absurd h (ScyllaVerif.Proofs.CarrierDims.ser_reld t x ws buf hd e he)

/-- … and nothing of the mismatched value is bound: `add_value` fails and leaves the values as they were. -/
theorem mismatched_pair_never_bound (c : Carrier) (t : CqlTy) (x : RVal) (sv : SV)
    (ha : accepts c t = false) (ht : hasType c x = true) (hf : full x = true) :
    ∃ e, addValue t x sv = (sv, some e) := by
  generalize hr : addValue t x sv = r
  obtain ⟨sv', oe⟩ := r
  cases oe with
  | some e => rw [add_value_atomic t x sv sv' e hr]; exact ⟨e, rfl⟩
  | none =>
    exfalso
    obtain ⟨e, he⟩ := mismatched_pair_rejected c t x true sv.bytes ha ht hf
    unfold addValue addValueWith at hr
    split at hr
    · cases hr
    · generalize ser t x true sv.bytes = q at hr he
      obtain ⟨b, oe⟩ := q
      simp only at he
      subst he
      simp at hr

/-- Non-vacuity and the value-directedness: `Vec<i32>` against `list<text>` — the type pair is a mismatch, a
populated value is rejected (nested: the error wraps the element's `MismatchedType`), the EMPTY vector is written. -/
example :
    accepts (.vec (.scalar .i32)) (.list (.native .text)) = false ∧
    (ser (.list (.native .text)) (.vec [.scalar .i32 [0, 0, 0, 1]]) true []).2 = some ⟨[.elem], .mismatchedType⟩ ∧
    ser (.list (.native .text)) (.vec []) true [] = ([0, 0, 0, 4, 0, 0, 0, 0], none) ∧
    accepts (.hashMap (.scalar .str) (.vec (.opt (.scalar .i64)))) (.map (.native .ascii) (.vector (.native .bigint) 3)) = true ∧
    hasType (.hashMap (.scalar .str) (.vec (.opt (.scalar .i64)))) (.map [(.scalar .str [97], .vec [.none])]) = true := by
  decide +kernel

/-- **A mismatch of KIND is refused whatever the value holds** — in particular for EMPTY collections, which the
`full` hypothesis of the three theorems above excludes (an empty `Vec<i32>` bound to `text`, an empty map
bound to a list, a leaf bound to the wrong native, a tuple value longer than the tuple type, a UDT value of
another name): the error is a `BuiltinTypeCheckError` at the top (empty path), raised BEFORE ANY BYTE IS WRITTEN
(the buffer is returned as it was given). -/
theorem kind_mismatch_rejected (t : CqlTy) (x : RVal) (ws : Bool) (buf : Bytes)
    (h : kindOk t (strip x).2 = false) :
    ∃ k, ser t x ws buf = (buf, some ⟨[], k⟩) ∧ k.isTypeCheck = true := by
  rw [ser]
  generalize strip x = sc at h
  obtain ⟨chk, core⟩ := sc
  simp only [] at h ⊢
  split
  · exact ⟨.notEmptyable, rfl, rfl⟩
  · cases core with
    | null => simp [kindOk] at h
    | unset => simp [kindOk] at h
    | empty => simp [kindOk] at h
    | scalar s body =>
      cases t with
      | native n =>
        simp only [kindOk] at h
        simp only [serScalar, h, Bool.false_eq_true, if_false]
        exact ⟨.mismatchedType, rfl, rfl⟩
      | _ => exact ⟨.mismatchedType, rfl, rfl⟩
    | vec vs => cases t <;> simp [kindOk] at h <;> exact ⟨.notSetOrList, rfl, rfl⟩
    | set vs => cases t <;> simp [kindOk] at h <;> exact ⟨.notSetOrList, rfl, rfl⟩
    | map kvs => cases t <;> simp [kindOk] at h <;> exact ⟨.notMap, rfl, rfl⟩
    | tuple fs =>
      cases t with
      | tuple ts =>
        have hlt : ts.length < fs.length := by simpa [kindOk] using h
        simp only [hlt, if_true]
        exact ⟨.wrongElementCount, rfl, rfl⟩
      | _ => exact ⟨.notTuple, rfl, rfl⟩
    | udt ks name fs =>
      cases t with
      | udt dks dname fields =>
        have hc : (decide (ks ≠ dks) || decide (name ≠ dname)) = true := by
          simp only [kindOk] at h
          by_cases h1 : ks = dks <;> by_cases h2 : name = dname <;> simp_all
        simp only [hc, if_true]
        exact ⟨.nameMismatch, rfl, rfl⟩
      | _ => exact ⟨.notUdt, rfl, rfl⟩

/-- The auditor's example: the EMPTY `Vec<i32>` bound to `text` (and to a map). -/
example : kindOk (.native .text) (strip (.vec [])).2 = false ∧ kindOk (.map (.native .int) (.native .int)) (strip (.some (.vec []))).2 = false ∧
    ser (.native .text) (.vec []) true [1, 2] = ([1, 2], some ⟨[], .notSetOrList⟩) := by decide

/-! ### `CqlValue::UserDefinedType`: the field walk is the declarative rule -/

/-- **The UDT rule, declaratively** (what the harness's independent `dyn_fits` states, now a theorem about the
model of `serialize_udt`'s look-up / remove / left-over walk): a UDT value fits a UDT column iff keyspace and type
name are equal and EVERY field the value names exists in the column's type and fits the type of the like-named
field (fields the value does not name are null).  Field names distinct on both sides. -/
theorem udt_value_fits_iff (ks name vks vname : String) (fields : List (String × CqlTy)) (fs : List (String × RVal))
    (hf : (fields.map (·.1)).Nodup) (hm : (fs.map (·.1)).Nodup) :
    fits (.udt ks name fields) (.udt vks vname fs) = true ↔
      vks = ks ∧ vname = name ∧ ∀ p, p ∈ fs → ∃ t, (p.1, t) ∈ fields ∧ fits t p.2 = true := by
  rw [fits]
  simp only [strip, Bool.not_false, Bool.true_or, Bool.true_and, Bool.and_eq_true, decide_eq_true_eq, and_assoc]
  rw [ScyllaVerif.Proofs.CarrierUdt.fitsUdt_iff fields fs hf hm]

/-- **A value naming a field the type lacks is always refused** — whether it has fewer, as many or more fields
than the type, and even if that field is null: the unknown field's data is never silently dropped. -/
theorem udt_unknown_field_rejected (ks name vks vname : String) (fields : List (String × CqlTy))
    (fs : List (String × RVal)) (hf : (fields.map (·.1)).Nodup) (hm : (fs.map (·.1)).Nodup)
    (p : String × RVal) (hp : p ∈ fs) (hun : ∀ t, (p.1, t) ∉ fields) (ws : Bool) (buf : Bytes) :
    ∃ e, (ser (.udt ks name fields) (.udt vks vname fs) ws buf).2 = some e := by
  apply ser_rejects
  cases h : fits (.udt ks name fields) (.udt vks vname fs) with
  | false => rfl
  | true =>
    obtain ⟨_, _, hall⟩ := (udt_value_fits_iff ks name vks vname fields fs hf hm).mp h
    obtain ⟨t, ht, _⟩ := hall p hp
    exact absurd ht (hun t)

/-- Non-vacuity: the shape of the earlier missed seeded change — `{a, zzz}` against `udt{a, b, c}` (fewer fields than
the type, one unknown). -/
example : (ser (.udt "ks" "t" [("a", .native .int), ("b", .native .text), ("c", .native .int)])
    (.udt "ks" "t" [("a", .some (.scalar .i32 [0, 0, 0, 1])), ("zzz", .none)]) true []).2
      = some ⟨[], .noSuchFieldInUdt⟩ := by decide +kernel

/-! ## Part 3 — deserialization: `type_check` -/

open ScyllaVerif.Proofs.CarrierTc (tcheck_iff tcheckCols_iff)

/-- **`deser_typecheck_iff`**: `T::type_check(typ)` succeeds exactly on the pairs of `deserAccepts`, for every
carrier type and column type at any nesting depth (it recurses into element / key / value / field types). -/
theorem deser_typecheck_iff (c : Carrier) (t : CqlTy) : tcheck c t = none ↔ deserAccepts c t = true :=
  tcheck_iff c t

/-- Row level: a Rust tuple type-checks against the column specs iff the counts are equal and every column
type-checks; `Row` / `ColumnIterator` accept everything. -/
theorem row_typecheck_iff (cs : List Carrier) (ts : List CqlTy) :
    tcheckRow (.cols cs) ts = none ↔ cs.length = ts.length ∧ deserAcceptsZip cs ts = true := by
  unfold tcheckRow
  by_cases h : cs.length = ts.length
  · simp [h, tcheckCols_iff]
  · simp [h, tcLeaf]

theorem row_untyped (ts : List CqlTy) : tcheckRow .untyped ts = none := rfl

/-- (Definitional: `typedIterNew` IS the three-line `match` of `TypedRowIterator::new`; there is no model of
`next` / `deserialize` of a row — decoding is C01's subject — so these three lemmas only record what the
constructor guards.  The substance is `row_typecheck_iff`, the `checked_*` lemmas below and, for the pager,
`stream_rows_checked`.)  A typed row iterator exists only if `type_check` of the
row type against the result's column specs succeeded — for a Rust tuple: as many columns as fields and every
column accepted by its field's type, at any nesting depth — whatever the number and content of the rows. -/
theorem typed_iter_checked (rc : RowCarrier) (specs : List CqlTy) (rows : Nat) (it : TypedIter)
    (h : typedIterNew rc specs rows = .ok it) :
    it.rc = rc ∧ it.specs = specs ∧ tcheckRow rc specs = none := by
  unfold typedIterNew at h
  cases hc : tcheckRow rc specs with
  | some e => simp [hc] at h
  | none => simp only [hc, Except.ok.injEq] at h; subst h; exact ⟨rfl, rfl, rfl⟩

/-- … and a mismatching result yields the type-check error and NO iterator: not one row is decoded or
reinterpreted. -/
theorem typed_iter_refused (rc : RowCarrier) (specs : List CqlTy) (rows : Nat) (e : TcErr)
    (h : tcheckRow rc specs = some e) : typedIterNew rc specs rows = .error e := by
  simp [typedIterNew, h]

/-- For a tuple row type, a handed-out iterator means: equal counts and column-wise acceptance. -/
theorem typed_iter_cols (cs : List Carrier) (specs : List CqlTy) (rows : Nat) (it : TypedIter)
    (h : typedIterNew (.cols cs) specs rows = .ok it) :
    cs.length = specs.length ∧ deserAcceptsZip cs specs = true :=
  (row_typecheck_iff cs specs).mp (typed_iter_checked _ _ _ it h).2.2

/-- The `expect("Type check should have prevented this!")` in the tuple `deserialize` impls
(`ensure_tuple_type`) cannot fire on a type-checked column: acceptance of a Rust tuple forces a CQL tuple of
the same arity. -/
theorem checked_tuple_arity (cs : List Carrier) (t : CqlTy) (h : deserAccepts (.tuple cs) t = true) :
    ∃ ts, t = .tuple ts ∧ cs.length = ts.length := by
  cases t <;> simp [deserAccepts] at h
  exact ⟨_, rfl, h.1⟩

/-- … and likewise the `unreachable!("Typecheck should have prevented this scenario!")` / `expect` sites of every
reader: `Vec` (value.rs:1088-1103), the sets, `ListlikeIterator` (≈1005), `VectorIterator` (≈1246), the maps and
`MapIterator` (≈1462), `UdtIterator` (≈1813) — the accepted column has the kind the reader destructures. -/
theorem checked_collection_kind (c k v : Carrier) (t : CqlTy) :
    (deserAccepts (.vec c) t = true → (∃ e, t = .list e) ∨ (∃ e, t = .set e) ∨ ∃ e d, t = .vector e d) ∧
    (deserAccepts (.hashSet c) t = true → ∃ e, t = .set e) ∧
    (deserAccepts (.btreeSet c) t = true → ∃ e, t = .set e) ∧
    (deserAccepts (.listIter c) t = true → (∃ e, t = .list e) ∨ ∃ e, t = .set e) ∧
    (deserAccepts (.vecIter c) t = true → ∃ e d, t = .vector e d) ∧
    (deserAccepts (.hashMap k v) t = true → ∃ kt vt, t = .map kt vt) ∧
    (deserAccepts (.btreeMap k v) t = true → ∃ kt vt, t = .map kt vt) ∧
    (deserAccepts (.mapIter k v) t = true → ∃ kt vt, t = .map kt vt) ∧
    (deserAccepts .udtIter t = true → ∃ ks n fs, t = .udt ks n fs) := by
  refine ⟨?_, ?_, ?_, ?_, ?_, ?_, ?_, ?_, ?_⟩ <;> intro h <;> cases t <;> simp [deserAccepts] at h <;> simp

/-- **Decoding under checked columns never reaches a panic site of the typed readers**: for every carrier type and
column type that passed `type_check`, at any nesting depth (`Vec<BTreeMap<i32, (Vec<String>, HashSet<Uuid>)>>`, …),
none of the `unreachable!("Typecheck should have prevented this scenario!")` / `expect("Type check should have
prevented this!")` sites is reachable. -/
theorem checked_column_never_panics (c : Carrier) (t : CqlTy) (h : tcheck c t = none) : deserPanics c t = false :=
  ScyllaVerif.Proofs.CarrierTc.accepted_no_panic c t ((deser_typecheck_iff c t).mp h)

/-- **`next` of a typed iterator never panics on shape**: every row decoded through an iterator that
`typedIterNew` handed out (any number of rows) has exactly the columns the row type expects (no
`unreachable!` for a missing column, no failed `assert!(row.next().is_none())`) and every column's reader is safe. -/
theorem typed_iter_next_never_panics (rc : RowCarrier) (specs : List CqlTy) (rows : Nat) (it : TypedIter)
    (h : typedIterNew rc specs rows = .ok it) : rowDecodePanics it.rc it.specs = false := by
  obtain ⟨h1, h2, h3⟩ := typed_iter_checked rc specs rows it h
  rw [h1, h2]
  cases rc with
  | untyped => rfl
  | cols cs =>
    obtain ⟨hl, hz⟩ := (row_typecheck_iff cs specs).mp h3
    simp [rowDecodePanics, hl, ScyllaVerif.Proofs.CarrierTc.acceptedZip_no_panic cs specs hz]

/-- Non-vacuity: WITHOUT the check the sites are reachable (so the theorems are not about an empty set). -/
example : deserPanics (.vec (.scalar .i32)) (.native .int) = true ∧
    deserPanics (.tuple [.scalar .i32]) (.tuple [.native .int, .native .int]) = true ∧
    rowDecodePanics (.cols [.scalar .i32]) [.native .int, .native .int] = true ∧
    deserPanics (.vec (.btreeMap (.scalar .i32) (.tuple [.vec (.scalar .str), .hashSet (.scalar .uuid)])))
      (.list (.map (.native .int) (.tuple [.list (.native .text), .set (.native .uuid)]))) = false := by decide

example : typedIterNew (.cols [.scalar .i32, .scalar .str]) [.native .int, .native .blob] 1000
    = .error ⟨[.col 1], .mismatchedType⟩ := by rfl

/-! ### the pager's typed stream: every page is checked against ITS OWN metadata

`stickyRaws`: the raw row iterator cannot recover within a page (once a row is unreadable every later announced row
of that page is) — a fact about `RawRowLendingIterator` proved in C08 (`iterRows_after_error`,
`lending_iterator_is_plain_iterator`; `Props/C17Raw.lean` derives `stickyRaws` from them). -/

open ScyllaVerif.Proofs.PagerStream (typedStream_spec streamSpec_length streamSpec_mem untilFirstError_mem)

/-- **The typed stream IS its specification**: whatever the pages' column specs are (all different, changing back
and forth, zero-sized pages in between, truncated pages), for every row type (`check` is its `type_check`) and a
consumer that keeps polling through error items, the items are EXACTLY: page by page in order, one item per
announced row — the row iff it is readable and ITS PAGE'S OWN columns pass the check, a type-check error iff it is
readable and they do not, a row-deserialization error iff it is unreadable.  In particular every row of a
non-fitting page is an error item (also the rows after the first refused one: the flag is set only AFTER a
successful check), later fitting pages are delivered again, and nothing is lost or duplicated. -/
theorem typed_stream_is_spec (check : List (String × CqlTy) → Bool) (pages : List PageM) (outs : List StreamOut)
    (hs : ∀ p, p ∈ pages → stickyRaws p.raws = true) (h : typedStream check pages = some outs) :
    outs = streamSpec check 0 pages := typedStream_spec check pages outs hs h

/-- One item per announced row. -/
theorem typedStream_len (check : List (String × CqlTy) → Bool) (pages : List PageM) (outs : List StreamOut)
    (hs : ∀ p, p ∈ pages → stickyRaws p.raws = true) (h : typedStream check pages = some outs) :
    outs.length = (pages.map PageM.rows).sum := by
  rw [typed_stream_is_spec check pages outs hs h, streamSpec_length]

/-- **Every yielded row belongs to a page that passed `type_check` against that page's metadata**, and a
type-check error is only ever reported for a page that does not fit. -/
theorem stream_rows_checked (check : List (String × CqlTy) → Bool) (pages : List PageM) (outs : List StreamOut)
    (hs : ∀ p, p ∈ pages → stickyRaws p.raws = true) (h : typedStream check pages = some outs) :
    (∀ i, StreamOut.row i ∈ outs → ∃ p, pages[i]? = some p ∧ check p.specs = true) ∧
    (∀ i, StreamOut.typeErr i ∈ outs → ∃ p, pages[i]? = some p ∧ check p.specs = false) := by
  rw [typed_stream_is_spec check pages outs hs h]
  constructor <;> intro i hi
  · obtain ⟨k, p, b, hp, _, ho⟩ := streamSpec_mem check pages 0 _ hi
    cases b <;> cases hc : check p.specs <;> simp [itemOf, hc] at ho
    subst ho; exact ⟨p, hp, hc⟩
  · obtain ⟨k, p, b, hp, _, ho⟩ := streamSpec_mem check pages 0 _ hi
    cases b <;> cases hc : check p.specs <;> simp [itemOf, hc] at ho
    subst ho; exact ⟨p, hp, hc⟩

/-- The same for a consumer that stops at the first error item (it sees a prefix of those items). -/
theorem stream_rows_checked_until_error (check : List (String × CqlTy) → Bool) (pages : List PageM)
    (outs : List StreamOut) (hs : ∀ p, p ∈ pages → stickyRaws p.raws = true)
    (h : typedStream check pages = some outs) (i : Nat)
    (hi : StreamOut.row i ∈ untilFirstError outs) : ∃ p, pages[i]? = some p ∧ check p.specs = true :=
  (stream_rows_checked check pages outs hs h).1 i (untilFirstError_mem _ _ hi)

/-- A page that does not fit yields NO row, however many rows it has and however long the consumer keeps polling. -/
theorem nonfitting_page_yields_no_row (check : List (String × CqlTy) → Bool) (pages : List PageM)
    (outs : List StreamOut) (hs : ∀ p, p ∈ pages → stickyRaws p.raws = true)
    (h : typedStream check pages = some outs) (i : Nat) (p : PageM)
    (hp : pages[i]? = some p) (hbad : check p.specs = false) : StreamOut.row i ∉ outs := by
  intro hi
  obtain ⟨q, hq, hc⟩ := (stream_rows_checked check pages outs hs h).1 i hi
  rw [hp] at hq; cases hq
  rw [hbad] at hc; cases hc

private theorem itemOf_index (ok : Bool) (j m : Nat) (b : Bool) (o : Nat → StreamOut)
    (ho : o = .row ∨ o = .typeErr ∨ o = .rawErr) (h : o m = itemOf ok j b) : m = j := by
  rcases ho with rfl | rfl | rfl <;> cases b <;> cases ok <;> simp [itemOf] at h <;> exact h

/-- **Per-page counts** (what the membership statements alone do not give): the items about page `i` are exactly as
many as it announced rows — `p.rows` rows if it fits and is intact, `p.rows` type-check errors if it does not fit. -/
theorem stream_page_counts (check : List (String × CqlTy) → Bool) : ∀ (ps : List PageM) (j k : Nat) (p : PageM),
    ps[k]? = some p →
    (streamSpec check j ps).count (.row (j + k)) = (if check p.specs then p.raws.count true else 0) ∧
    (streamSpec check j ps).count (.typeErr (j + k)) = (if check p.specs then 0 else p.raws.count true) ∧
    (streamSpec check j ps).count (.rawErr (j + k)) = p.raws.count false
  | [], _, _, _, h => by simp at h
  | q :: ps, j, k, p, h => by
    have hother : ∀ (o : Nat → StreamOut) (m : Nat), (o = .row ∨ o = .typeErr ∨ o = .rawErr) → m ≠ j →
        (q.raws.map (itemOf (check q.specs) j)).count (o m) = 0 := by
      intro o m ho hm
      rw [List.count_eq_zero]
      intro hmem
      obtain ⟨b, _, hb⟩ := List.mem_map.mp hmem
      exact hm (itemOf_index _ j m b o ho hb.symm)
    have hlater : ∀ (o : Nat → StreamOut), (o = .row ∨ o = .typeErr ∨ o = .rawErr) →
        (streamSpec check (j + 1) ps).count (o j) = 0 := by
      intro o ho
      rw [List.count_eq_zero]
      intro hmem
      obtain ⟨k', p', b, _, _, hb⟩ := streamSpec_mem check ps (j + 1) _ hmem
      have := itemOf_index _ (j + 1 + k') j b o ho hb
      omega
    rw [streamSpec]
    simp only [List.count_append]
    cases k with
    | zero =>
      simp only [List.getElem?_cons_zero, Option.some.injEq] at h
      subst h
      simp only [Nat.add_zero, hlater _ (.inl rfl), hlater _ (.inr (.inl rfl)), hlater _ (.inr (.inr rfl))]
      have hcount : ∀ (rs : List Bool),
          (rs.map (itemOf (check q.specs) j)).count (.row j) = (if check q.specs then rs.count true else 0) ∧
          (rs.map (itemOf (check q.specs) j)).count (.typeErr j) = (if check q.specs then 0 else rs.count true) ∧
          (rs.map (itemOf (check q.specs) j)).count (.rawErr j) = rs.count false := by
        intro rs
        induction rs with
        | nil => cases check q.specs <;> simp
        | cons r rs ih =>
          cases r <;> cases hc : check q.specs <;> simp [itemOf, hc, List.count_cons] at ih ⊢ <;> omega
      simpa using hcount q.raws
    | succ k =>
      have h' : ps[k]? = some p := by simpa using h
      have ih := stream_page_counts check ps (j + 1) k p h'
      have hj : j + (k + 1) = j + 1 + k := by omega
      have hne : j + 1 + k ≠ j := by omega
      rw [hj, hother _ _ (.inl rfl) hne, hother _ _ (.inr (.inl rfl)) hne, hother _ _ (.inr (.inr rfl)) hne]
      simpa using ih

/-- The constructor refuses a first page that does not fit: no stream, no row. -/
theorem stream_ctor_refuses (check : List (String × CqlTy) → Bool) (p : PageM) (ps : List PageM)
    (h : check p.specs = false) : typedStream check (p :: ps) = none := by
  simp [typedStream, h]

/-- **The raw-row-error arm** (pager.rs:726-731): an unreadable row skips the closure of `poll_next`, so the
`fresh_page` bit of a freshly fetched page is LOST and the flag keeps the previous page's verdict.  It is harmless
only because the raw iterator is sticky: after an unreadable row no row of that page is ever readable, hence none is
decoded — whatever the flag says.  Without stickiness the arm WOULD let an unchecked row through (second conjunct:
the counterexample the model exhibits). -/
theorem raw_error_then_no_row_decoded (ok : Bool) (i : Nat) (rs : List Bool) (fresh flag : Bool)
    (hs : stickyRaws (false :: rs) = true) :
    ∀ o, o ∈ (pageRows ok i (false :: rs) fresh flag).1 → o = .rawErr i := by
  have hall : (false :: rs).all (· == false) = true := by
    simp only [stickyRaws] at hs; simp only [List.all_cons, hs]; rfl
  rw [ScyllaVerif.Proofs.PagerStream.pageRows_all_bad ok i _ fresh flag hall]
  intro o ho
  obtain ⟨b, hb, rfl⟩ := List.mem_map.mp ho
  have : b = false := by
    have := List.all_eq_true.mp hall b hb
    simpa using this
  subst this; rfl

example : (pageRows false 1 [false, true] true true).1 = [.rawErr 1, .row 1] ∧ stickyRaws [false, true] = false := by
  decide

/-- … and the same for every row the pager's typed stream yields: it belongs to a page whose own columns passed
the check (`stream_rows_checked`), hence decoding it cannot panic on shape. -/
theorem stream_row_never_panics (cs : List Carrier) (pages : List PageM) (outs : List StreamOut)
    (hs : ∀ p, p ∈ pages → stickyRaws p.raws = true)
    (h : typedStream (fun specs => (tcheckRow (.cols cs) (specs.map (·.2))).isNone) pages = some outs)
    (i : Nat) (hi : StreamOut.row i ∈ outs) :
    ∃ p, pages[i]? = some p ∧ rowDecodePanics (.cols cs) (p.specs.map (·.2)) = false := by
  obtain ⟨p, hp, hc⟩ := (stream_rows_checked _ pages outs hs h).1 i hi
  refine ⟨p, hp, ?_⟩
  have hnone : tcheckRow (.cols cs) (p.specs.map (·.2)) = none := by
    cases hh : tcheckRow (.cols cs) (p.specs.map (·.2)) with
    | none => rfl
    | some e => simp [hh] at hc
  obtain ⟨hl, hz⟩ := (row_typecheck_iff cs _).mp hnone
  simp [rowDecodePanics, hl, ScyllaVerif.Proofs.CarrierTc.acceptedZip_no_panic cs _ hz]

/-- Non-vacuity, the shapes of the missed seeded changes: page 0 `[pk int, v bigint]` ×2, a zero-sized page, page 2
`[pk int, v double]` ×3 whose LAST row is truncated, page 3 fitting again, under a stream typed `(i32, i64)`: the two
rows of page 0, a type-check error per readable row of the non-fitting page (never one of its rows, also not after
the first error), the row error, then the row of the fitting page that follows. -/
example :
    let check := fun (specs : List (String × CqlTy)) =>
      (tcheckRow (.cols [.scalar .i32, .scalar .i64]) (specs.map (·.2))).isNone
    typedStream check [PageM.intact [("pk", .native .int), ("v", .native .bigint)] 2, PageM.intact [] 0,
      ⟨[("pk", .native .int), ("v", .native .double)], [true, true, false]⟩,
      PageM.intact [("pk", .native .int), ("v", .native .bigint)] 1]
      = some [.row 0, .row 0, .typeErr 2, .typeErr 2, .rawErr 2, .row 3] := by
  decide

/-- On read, sets are not lists and tuples need the exact arity; on write they do not (non-vacuity of the
difference between the two relations). -/
example :
    deserAccepts (.hashSet (.scalar .i32)) (.list (.native .int)) = false ∧
    accepts (.hashSet (.scalar .i32)) (.list (.native .int)) = true ∧
    deserAccepts (.tuple [.scalar .i32]) (.tuple [.native .int, .native .text]) = false ∧
    accepts (.tuple [.scalar .i32]) (.tuple [.native .int, .native .text]) = true ∧
    tcheck (.vec (.hashMap (.scalar .i32) (.scalar .str))) (.list (.map (.native .int) (.native .int)))
      = some ⟨[.elem, .val], .mismatchedType⟩ := by decide +kernel

/-! ## Part 3b — row-level binding: `SerializeRow` through `from_serializable`, and `new_from_frame` -/

section RowBind
open ScyllaVerif.C17Bind
open ScyllaVerif.Proofs.Row (readValue_split parseFuel_cons)

/-- A successful column loop is a run of the writer over the columns' serializers, and every value fitted. -/
private theorem bindCells_run : ∀ (pairs : List (Col × RVal)) (w w' : RW), bindCells pairs w = (w', none) →
    runW (pairs.map (fun p => WOp.cell (ser p.1.ty p.2 true))) w = (w', none) ∧
    ∀ p, p ∈ pairs → fits p.1.ty p.2 = true
  | [], w, w', h => by simp only [bindCells, Prod.mk.injEq, and_true] at h; subst h; simp [runW]
  | (c, v) :: rest, w, w', h => by
    simp only [bindCells, RW.makeCell] at h
    simp only [List.map_cons, runW, RW.makeCell]
    cases hr : ser c.ty v true w.buf with
    | mk b oe =>
      rw [hr] at h
      cases oe with
      | some e => simp at h
      | none =>
        simp only at h ⊢
        obtain ⟨hrun, hfit⟩ := bindCells_run rest _ w' h
        refine ⟨hrun, ?_⟩
        intro p hp
        rcases List.mem_cons.mp hp with rfl | hp
        · exact ser_ok_fits c.ty v true w.buf (by rw [hr])
        · exact hfit p hp

private theorem bindByName_run (m : List (String × RVal)) : ∀ (cols : List Col) (w w' : RW),
    bindByName m cols w = (w', none) →
    runW (cols.map (fun c => WOp.cell (ser c.ty ((lookupName c.name m).getD .none) true))) w = (w', none) ∧
    ∀ c, c ∈ cols → ∃ v, lookupName c.name m = some v ∧ fits c.ty v = true
  | [], w, w', h => by simp only [bindByName, Prod.mk.injEq, and_true] at h; subst h; simp [runW]
  | c :: rest, w, w', h => by
    rw [bindByName] at h
    cases hl : lookupName c.name m with
    | none => simp [hl] at h
    | some v =>
      simp only [hl, RW.makeCell] at h
      simp only [List.map_cons, runW, RW.makeCell, hl, Option.getD_some]
      cases hr : ser c.ty v true w.buf with
      | mk b oe =>
        rw [hr] at h
        cases oe with
        | some e => simp at h
        | none =>
          simp only at h ⊢
          obtain ⟨hrun, hfit⟩ := bindByName_run m rest _ w' h
          refine ⟨hrun, ?_⟩
          intro c' hc'
          rcases List.mem_cons.mp hc' with rfl | hc'
          · exact ⟨v, hl, ser_ok_fits _ v true w.buf (by rw [hr])⟩
          · exact hfit c' hc'

private theorem cells_good (ops : List (CqlTy × RVal)) :
    GoodOps (ops.map (fun p => WOp.cell (ε := SerErr) (ser p.1 p.2 true))) := by
  intro op hop
  obtain ⟨p, _, rfl⟩ := List.mem_map.mp hop
  exact ⟨ser_appends _ _ _, ser_writes_cell _ _⟩

private theorem cells_total (ops : List (CqlTy × RVal)) :
    totalValues (ops.map (fun p => WOp.cell (ε := SerErr) (ser p.1 p.2 true))) = ops.length := by
  induction ops with
  | nil => rfl
  | cons p ps ih =>
    simp only [totalValues, List.map_cons, List.sum_cons, WOp.values] at ih ⊢
    rw [ih]; simp; omega

/-- A positional row (tuple / slice / `Vec`) against another number of bind markers: `WrongColumnCount`, before
anything is written — no `SerializedValues`. -/
theorem bind_wrong_column_count (vs : List RVal) (cols : List Col) (h : cols.length ≠ vs.length) :
    fromSerializable (.seq vs) cols = .error .wrongColumnCount := by
  simp [fromSerializable, serializeRow, h]

/-- **A positional bind that succeeds**: as many values as bind markers, EVERY value fits its column's type (at
any nesting depth), the reported count is the number of bind markers = the number of encoded cells, ≤ 65535. -/
theorem bind_positional_ok (vs : List RVal) (cols : List Col) (sv : SV)
    (h : fromSerializable (.seq vs) cols = .ok sv) :
    vs.length = cols.length ∧ (∀ p, p ∈ cols.zip vs → fits p.1.ty p.2 = true) ∧ Inv sv ∧ sv.count = cols.length := by
  unfold fromSerializable serializeRow at h
  by_cases hl : cols.length ≠ vs.length
  · simp [hl] at h
  · have hl' : cols.length = vs.length := by omega
    simp only [hl, if_false] at h
    cases hb : bindCells (cols.zip vs) RW.new with
    | mk w oe =>
      rw [hb] at h
      cases oe with
      | some e => simp at h
      | none =>
        obtain ⟨hrun, hfit⟩ := bindCells_run _ _ _ hb
        have hops : (cols.zip vs).map (fun p => WOp.cell (ε := SerErr) (ser p.1.ty p.2 true)) =
            ((cols.zip vs).map (fun p => (p.1.ty, p.2))).map (fun p => WOp.cell (ser p.1 p.2 true)) := by
          simp [List.map_map]
        rw [hops] at hrun
        obtain ⟨⟨cs, hp, hlen⟩, hcount⟩ := writer_count_eq_cells _ (cells_good _) RW.new w winv_new hrun
        rw [cells_total] at hcount
        simp only [List.length_map, List.length_zip, RW.new, Nat.zero_add] at hcount
        cases hf : w.finish with
        | none => simp [hf] at h
        | some sv' =>
          simp only [hf, Except.ok.injEq] at h
          subst h
          unfold RW.finish u16Max at hf
          split at hf
          · rename_i hle
            simp only [Option.some.injEq] at hf
            subst hf
            exact ⟨hl'.symm, hfit, ⟨hle, cs, hp, hlen⟩, by simp only [hcount]; omega⟩
          · cases hf

/-- **A positional bind with a mismatching value is refused** — wherever in the row it sits and however deep in
the value the misfit is: no `SerializedValues` comes into being (the values bound so far are dropped with the writer). -/
theorem bind_positional_mismatch_rejected (vs : List RVal) (cols : List Col) (p : Col × RVal)
    (hp : p ∈ cols.zip vs) (hm : fits p.1.ty p.2 = false) : ∃ e, fromSerializable (.seq vs) cols = .error e := by
  cases h : fromSerializable (.seq vs) cols with
  | error e => exact ⟨e, rfl⟩
  | ok sv =>
    have := (bind_positional_ok vs cols sv h).2.1 p hp
    rw [hm] at this; cases this

/-- The column loop stops at the FIRST value that does not fit, and names that column (unless an earlier, fitting
value was too big). -/
private theorem bindCells_first_misfit : ∀ (pre : List (Col × RVal)) (p : Col × RVal) (post : List (Col × RVal)) (w : RW),
    (∀ q, q ∈ pre → fits q.1.ty q.2 = true) → fits p.1.ty p.2 = false →
    ∃ w' n e, bindCells (pre ++ p :: post) w = (w', some (.column n e)) ∧
      (n = p.1.name ∨ (e.kind.isSize = true ∧ ∃ q, q ∈ pre ∧ n = q.1.name))
  | [], p, post, w, _, hp => by
    obtain ⟨e, he⟩ := ser_rejects p.1.ty p.2 true w.buf hp
    obtain ⟨c, v⟩ := p
    simp only [List.nil_append, bindCells, RW.makeCell]
    cases hr : ser c.ty v true w.buf with
    | mk b oe =>
      rw [hr] at he
      simp only at he
      subst he
      exact ⟨_, c.name, e, rfl, .inl rfl⟩
  | q :: pre, p, post, w, hpre, hp => by
    obtain ⟨c, v⟩ := q
    simp only [List.cons_append, bindCells, RW.makeCell]
    have hq : fits c.ty v = true := hpre (c, v) (by simp)
    cases hr : ser c.ty v true w.buf with
    | mk b oe =>
      cases oe with
      | some e =>
        have hsz : e.kind.isSize = true := by
          rcases ser_fits_ok_or_size c.ty v true w.buf hq with h | ⟨e', he', hk⟩
          · rw [hr] at h; cases h
          · rw [hr] at he'; cases he'; exact hk
        exact ⟨_, c.name, e, rfl, .inr ⟨hsz, (c, v), by simp, rfl⟩⟩
      | none =>
        obtain ⟨w', n, e, hb, hn⟩ := bindCells_first_misfit pre p post ⟨b, w.count + 1⟩
          (fun q hq => hpre q (by simp [hq])) hp
        refine ⟨w', n, e, hb, ?_⟩
        rcases hn with h | ⟨hs, q, hq, hqn⟩
        · exact .inl h
        · exact .inr ⟨hs, q, by simp [hq], hqn⟩

/-- **The refusal names the first misfitting column**: a positional bind whose values fit up to some column and
whose value for that column does not fit fails with `ColumnSerializationFailed` for THAT column (or, if an earlier
fitting value exceeded the size limits, with that earlier column's size error). -/
theorem bind_positional_first_misfit (vs : List RVal) (cols : List Col) (pre post : List (Col × RVal)) (p : Col × RVal)
    (hl : cols.length = vs.length) (hz : cols.zip vs = pre ++ p :: post)
    (hpre : ∀ q, q ∈ pre → fits q.1.ty q.2 = true) (hp : fits p.1.ty p.2 = false) :
    ∃ n e, fromSerializable (.seq vs) cols = .error (.column n e) ∧
      (n = p.1.name ∨ (e.kind.isSize = true ∧ ∃ q, q ∈ pre ∧ n = q.1.name)) := by
  obtain ⟨w', n, e, hb, hn⟩ := bindCells_first_misfit pre p post RW.new hpre hp
  refine ⟨n, e, ?_, hn⟩
  have hne : ¬ cols.length ≠ vs.length := by omega
  simp [fromSerializable, serializeRow, hne, hz, hb]

private theorem bindByName_first_missing (m : List (String × RVal)) : ∀ (pre : List Col) (c : Col) (post : List Col) (w : RW),
    (∀ q, q ∈ pre → ∃ v, lookupName q.name m = some v ∧ fits q.ty v = true) → lookupName c.name m = none →
    ∃ w' err, bindByName m (pre ++ c :: post) w = (w', some err) ∧
      (err = .valueMissingForColumn c.name ∨ ∃ n e, err = .column n e ∧ e.kind.isSize = true ∧ ∃ q, q ∈ pre ∧ n = q.name)
  | [], c, post, w, _, hc => by
    simp only [List.nil_append, bindByName, hc]
    exact ⟨w, _, rfl, .inl rfl⟩
  | q :: pre, c, post, w, hpre, hc => by
    obtain ⟨v, hv, hfit⟩ := hpre q (by simp)
    simp only [List.cons_append, bindByName, hv, RW.makeCell]
    cases hr : ser q.ty v true w.buf with
    | mk b oe =>
      cases oe with
      | some e =>
        have hsz : e.kind.isSize = true := by
          rcases ser_fits_ok_or_size q.ty v true w.buf hfit with h | ⟨e', he', hk⟩
          · rw [hr] at h; cases h
          · rw [hr] at he'; cases he'; exact hk
        exact ⟨_, _, rfl, .inr ⟨q.name, e, rfl, hsz, q, by simp, rfl⟩⟩
      | none =>
        obtain ⟨w', err, hb, hn⟩ := bindByName_first_missing m pre c post ⟨b, w.count + 1⟩
          (fun q hq => hpre q (by simp [hq])) hc
        refine ⟨w', err, hb, ?_⟩
        rcases hn with h | ⟨n, e, he, hs, q', hq', hqn⟩
        · exact .inl h
        · exact .inr ⟨n, e, he, hs, q', by simp [hq'], hqn⟩

/-- **The refusal names the first bind marker without a value** (markers in their order; earlier markers found
fitting values): `ValueMissingForColumn` for that marker, or an earlier column's size error. -/
theorem bind_byname_first_missing (m : List (String × RVal)) (pre post : List Col) (c : Col)
    (hpre : ∀ q, q ∈ pre → ∃ v, lookupName q.name m = some v ∧ fits q.ty v = true)
    (hc : lookupName c.name m = none) :
    fromSerializable (.byName m) (pre ++ c :: post) = .error (.valueMissingForColumn c.name) ∨
    ∃ n e, fromSerializable (.byName m) (pre ++ c :: post) = .error (.column n e) ∧ e.kind.isSize = true ∧
      ∃ q, q ∈ pre ∧ n = q.name := by
  obtain ⟨w', err, hb, hn⟩ := bindByName_first_missing m pre c post RW.new hpre hc
  rcases hn with h | ⟨n, e, he, hs, hq⟩
  · left; subst h; simp [fromSerializable, serializeRow, hb]
  · right; subst he; exact ⟨n, e, by simp [fromSerializable, serializeRow, hb], hs, hq⟩

private theorem bindByName_all_fit (m : List (String × RVal)) : ∀ (cols : List Col) (w : RW),
    (∀ q, q ∈ cols → ∃ v, lookupName q.name m = some v ∧ fits q.ty v = true) →
    (bindByName m cols w).2 = none ∨ ∃ n e, (bindByName m cols w).2 = some (.column n e) ∧ e.kind.isSize = true
  | [], w, _ => by simp [bindByName]
  | q :: rest, w, h => by
    obtain ⟨v, hv, hfit⟩ := h q (by simp)
    simp only [bindByName, hv, RW.makeCell]
    cases hr : ser q.ty v true w.buf with
    | mk b oe =>
      cases oe with
      | some e =>
        have hsz : e.kind.isSize = true := by
          rcases ser_fits_ok_or_size q.ty v true w.buf hfit with h' | ⟨e', he', hk⟩
          · rw [hr] at h'; cases h'
          · rw [hr] at he'; cases he'; exact hk
        exact .inr ⟨q.name, e, rfl, hsz⟩
      | none => exact bindByName_all_fit m rest _ (fun q hq => h q (by simp [hq]))

/-- **The refusal names the smallest key that no bind marker uses**: when every marker found a fitting value but
the map has keys that name no marker, the bind fails with `NoColumnWithName` for the lexicographically smallest
such key (or with a column's size error) — never succeeds. -/
theorem bind_byname_unknown_names_min (m : List (String × RVal)) (cols : List Col) (k : String)
    (hall : ∀ q, q ∈ cols → ∃ v, lookupName q.name m = some v ∧ fits q.ty v = true)
    (hk : minName ((m.map (·.1)).filter (fun k => !(cols.any (fun c => c.name == k)))) = some k) :
    fromSerializable (.byName m) cols = .error (.noColumnWithName k) ∨
    ∃ n e, fromSerializable (.byName m) cols = .error (.column n e) ∧ e.kind.isSize = true := by
  rcases bindByName_all_fit m cols RW.new hall with h | ⟨n, e, he, hs⟩
  · left
    cases hb : bindByName m cols RW.new with
    | mk w oe =>
      rw [hb] at h; simp only at h; subst h
      simp [fromSerializable, serializeRow, hb, hk]
  · right
    cases hb : bindByName m cols RW.new with
    | mk w oe =>
      rw [hb] at he; simp only at he; subst he
      exact ⟨n, e, by simp [fromSerializable, serializeRow, hb], hs⟩

/-- **A by-name bind that succeeds**: every bind marker found a value of its name, every such value fits, the count
is the number of bind markers = the number of cells; and (`bind_byname_unknown_rejected`) no key is left over. -/
theorem bind_byname_ok (m : List (String × RVal)) (cols : List Col) (sv : SV)
    (h : fromSerializable (.byName m) cols = .ok sv) :
    (∀ c, c ∈ cols → ∃ v, lookupName c.name m = some v ∧ fits c.ty v = true) ∧ Inv sv ∧ sv.count = cols.length := by
  unfold fromSerializable serializeRow at h
  cases hb : bindByName m cols RW.new with
  | mk w oe =>
    simp only [hb] at h
    cases oe with
    | some e => simp at h
    | none =>
      simp only at h
      obtain ⟨hrun, hfit⟩ := bindByName_run m cols _ _ hb
      have hops : cols.map (fun c => WOp.cell (ε := SerErr) (ser c.ty ((lookupName c.name m).getD .none) true)) =
          (cols.map (fun c => (c.ty, (lookupName c.name m).getD RVal.none))).map (fun p => WOp.cell (ser p.1 p.2 true)) := by
        simp [List.map_map]
      rw [hops] at hrun
      obtain ⟨⟨cs, hp, hlen⟩, hcount⟩ := writer_count_eq_cells _ (cells_good _) RW.new w winv_new hrun
      rw [cells_total] at hcount
      simp only [List.length_map, RW.new, Nat.zero_add] at hcount
      cases hmn : minName (List.filter (fun k => !cols.any fun c => c.name == k) (List.map (fun x => x.fst) m)) with
      | some k => simp [hmn] at h
      | none =>
        simp only [hmn] at h
        cases hf : w.finish with
        | none => simp [hf] at h
        | some sv' =>
          simp only [hf, Except.ok.injEq] at h
          subst h
          unfold RW.finish u16Max at hf
          split at hf
          · rename_i hle
            simp only [Option.some.injEq] at hf
            subst hf
            exact ⟨hfit, ⟨hle, cs, hp, hlen⟩, hcount⟩
          · cases hf

/-- A bind marker for which the map has no value: refused (`ValueMissingForColumn`, or an earlier column's error). -/
theorem bind_byname_missing_rejected (m : List (String × RVal)) (cols : List Col) (c : Col) (hc : c ∈ cols)
    (hm : lookupName c.name m = none) : ∃ e, fromSerializable (.byName m) cols = .error e := by
  cases h : fromSerializable (.byName m) cols with
  | error e => exact ⟨e, rfl⟩
  | ok sv =>
    obtain ⟨v, hv, _⟩ := (bind_byname_ok m cols sv h).1 c hc
    rw [hm] at hv; cases hv

private theorem minName_none : ∀ (l : List String), minName l = none → l = []
  | [], _ => rfl
  | a :: r, h => by
    simp only [minName] at h
    cases hr : minName r with
    | none => simp [hr] at h
    | some b => simp only [hr] at h; split at h <;> cases h

/-- A key of the map that names no bind marker: refused (`NoColumnWithName`, or an earlier error) — the value is
not silently dropped. -/
theorem bind_byname_unknown_rejected (m : List (String × RVal)) (cols : List Col) (k : String)
    (hk : k ∈ m.map (·.1)) (hn : ∀ c, c ∈ cols → c.name ≠ k) : ∃ e, fromSerializable (.byName m) cols = .error e := by
  cases h : fromSerializable (.byName m) cols with
  | error e => exact ⟨e, rfl⟩
  | ok sv =>
    exfalso
    unfold fromSerializable serializeRow at h
    cases hb : bindByName m cols RW.new with
    | mk w oe =>
      simp only [hb] at h
      cases oe with
      | some e => simp at h
      | none =>
        simp only at h
        cases hmn : minName (List.filter (fun k => !cols.any fun c => c.name == k) (List.map (fun x => x.fst) m)) with
        | some k' => simp [hmn] at h
        | none =>
          have hnil := minName_none _ hmn
          have hmem : k ∈ List.filter (fun k => !cols.any fun c => c.name == k) (List.map (fun x => x.fst) m) := by
            rw [List.mem_filter]
            refine ⟨hk, ?_⟩
            simp only [Bool.not_eq_true', List.any_eq_false, beq_iff_eq]
            intro c hc; exact hn c hc
          rw [hnil] at hmem
          cases hmem

/-- **Every value of a by-name row is taken by some bind marker** — whatever the marker list looks like, in
particular when it REPEATS names (`… a = :v AND b = :v`): a successful bind writes one cell per MARKER (a repeated
name serializes the same value again), but it can only succeed if every key / field is the name of at least one
marker: fields are counted by name, not by the number of columns serialized, so a repeated marker can never make up
for a field that no marker takes (whose value would otherwise be silently dropped). -/
theorem bind_byname_every_value_taken (m : List (String × RVal)) (cols : List Col) (sv : SV)
    (h : fromSerializable (.byName m) cols = .ok sv) (k : String) (hk : k ∈ m.map (·.1)) :
    ∃ c, c ∈ cols ∧ c.name = k := by
  apply Classical.byContradiction
  intro hno
  obtain ⟨e, he⟩ := bind_byname_unknown_rejected m cols k hk (fun c hc hn => hno ⟨c, hc, hn⟩)
  rw [h] at he; cases he

/-- Non-vacuity, the seeded shape: fields `a`, `b`; markers `a, a` (as many columns as fields, `b` never taken) is
refused naming `b`; markers `a, a, b` succeed with THREE cells. -/
example :
    let row := RowVal.byName [("a", .scalar .i32 [0, 0, 0, 1]), ("b", .scalar .str [97])]
    fromSerializable row [⟨"a", .native .int⟩, ⟨"a", .native .int⟩] = .error (.noColumnWithName "b") ∧
    fromSerializable row [⟨"a", .native .int⟩, ⟨"a", .native .int⟩, ⟨"b", .native .text⟩]
      = .ok ⟨[0, 0, 0, 4, 0, 0, 0, 1, 0, 0, 0, 4, 0, 0, 0, 1, 0, 0, 0, 1, 97], 3⟩ := ⟨rfl, rfl⟩

example :
    fromSerializable (.seq [.scalar .i32 [0, 0, 0, 1], .scalar .str [97]]) [⟨"a", .native .int⟩, ⟨"b", .native .text⟩]
      = .ok ⟨[0, 0, 0, 4, 0, 0, 0, 1, 0, 0, 0, 1, 97], 2⟩ ∧
    fromSerializable (.seq [.scalar .i32 [0, 0, 0, 1]]) [⟨"a", .native .int⟩, ⟨"b", .native .text⟩] = .error .wrongColumnCount ∧
    fromSerializable (.seq [.scalar .i32 [0, 0, 0, 1], .scalar .str [97]]) [⟨"a", .native .int⟩, ⟨"b", .native .int⟩]
      = .error (.column "b" ⟨[], .mismatchedType⟩) ∧
    fromSerializable (.byName [("a", .scalar .i32 [0, 0, 0, 1]), ("zz", .none)]) [⟨"a", .native .int⟩]
      = .error (.noColumnWithName "zz") ∧
    fromSerializable (.byName [("a", .scalar .i32 [0, 0, 0, 1])]) [⟨"a", .native .int⟩, ⟨"b", .native .int⟩]
      = .error (.valueMissingForColumn "b") := ⟨rfl, rfl, rfl, rfl, rfl⟩

/-! ### batches -/

private theorem bindBatch_ok : ∀ (ss : List (List Col)) (rs : List (List RVal)) (i : Nat) (svs : List SV),
    bindBatch ss rs i = .ok svs →
    ss.length = rs.length ∧ svs.length = ss.length ∧
    ∀ (k : Nat) (cols : List Col) (vs : List RVal) (sv : SV), ss[k]? = some cols → rs[k]? = some vs → svs[k]? = some sv →
      fromSerializable (.seq vs) cols = .ok sv
  | [], [], _, svs, h => by
    simp only [bindBatch, Except.ok.injEq] at h; subst h
    exact ⟨rfl, rfl, by intro k cols vs sv hc; simp at hc⟩
  | [], _ :: _, _, _, h => by simp [bindBatch] at h
  | _ :: _, [], _, _, h => by simp [bindBatch] at h
  | cols :: ss, vs :: rs, i, svs, h => by
    rw [bindBatch] at h
    cases hf : fromSerializable (.seq vs) cols with
    | error e => simp [hf] at h
    | ok sv =>
      simp only [hf] at h
      cases hb : bindBatch ss rs (i + 1) with
      | error e => simp [hb] at h
      | ok rest =>
        simp only [hb, Except.ok.injEq] at h; subst h
        obtain ⟨h1, h2, h3⟩ := bindBatch_ok ss rs (i + 1) rest hb
        refine ⟨by simp [h1], by simp [h2], ?_⟩
        intro k cols' vs' sv' hc hv hs
        cases k with
        | zero =>
          simp only [List.getElem?_cons_zero, Option.some.injEq] at hc hv hs
          subst hc hv hs; exact hf
        | succ k => exact h3 k cols' vs' sv' (by simpa using hc) (by simpa using hv) (by simpa using hs)

/-- **A batch bind that succeeds**: as many value lists as statements, and EVERY value list was bound against ITS OWN
statement's bind markers (not its neighbour's): it has that statement's number of values, every value fits that
statement's column type, and the cells written for it are counted correctly. -/
theorem batch_bind_ok (stmts : List (List Col)) (rows : List (List RVal)) (svs : List SV)
    (h : bindBatch stmts rows 0 = .ok svs) :
    stmts.length = rows.length ∧ svs.length = stmts.length ∧
    ∀ (k : Nat) (cols : List Col) (vs : List RVal) (sv : SV), stmts[k]? = some cols → rows[k]? = some vs → svs[k]? = some sv →
      vs.length = cols.length ∧ (∀ p, p ∈ cols.zip vs → fits p.1.ty p.2 = true) ∧ Inv sv ∧ sv.count = cols.length := by
  obtain ⟨h1, h2, h3⟩ := bindBatch_ok stmts rows 0 svs h
  exact ⟨h1, h2, fun k cols vs sv hc hv hs => bind_positional_ok vs cols sv (h3 k cols vs sv hc hv hs)⟩

/-- **A batch with a misfitting value anywhere is refused as a whole**: no request is built — not even the statements
bound before the failing one survive. -/
theorem batch_mismatch_rejected (stmts : List (List Col)) (rows : List (List RVal)) (k : Nat) (cols : List Col)
    (vs : List RVal) (p : Col × RVal) (hc : stmts[k]? = some cols) (hv : rows[k]? = some vs)
    (hp : p ∈ cols.zip vs) (hm : fits p.1.ty p.2 = false) : ∃ e, bindBatch stmts rows 0 = .error e := by
  cases h : bindBatch stmts rows 0 with
  | error e => exact ⟨e, rfl⟩
  | ok svs =>
    exfalso
    obtain ⟨h1, h2, h3⟩ := batch_bind_ok stmts rows svs h
    have hk : k < svs.length := by
      rw [h2]; exact (List.getElem?_eq_some_iff.mp hc).1
    obtain ⟨sv, hsv⟩ : ∃ sv, svs[k]? = some sv := ⟨svs[k], by simp [hk]⟩
    have := (h3 k cols vs sv hc hv hsv).2.1 p hp
    rw [hm] at this; cases this

/-- A different number of value lists and statements is refused. -/
theorem batch_counts_mismatch_rejected (stmts : List (List Col)) (rows : List (List RVal))
    (h : stmts.length ≠ rows.length) : ∃ e, bindBatch stmts rows 0 = .error e := by
  cases hb : bindBatch stmts rows 0 with
  | error e => exact ⟨e, rfl⟩
  | ok svs => exact absurd (batch_bind_ok stmts rows svs hb).1 h

/-- Non-vacuity, the seeded shape: two statements with different bind markers; swapping the value lists is refused. -/
example :
    (bindBatch [[⟨"a", .native .int⟩], [⟨"b", .native .text⟩]] [[.scalar .i32 [0, 0, 0, 1]], [.scalar .str [97]]] 0).isOk = true ∧
    bindBatch [[⟨"a", .native .int⟩], [⟨"b", .native .text⟩]] [[.scalar .str [97]], [.scalar .i32 [0, 0, 0, 1]]] 0
      = .error (.stmt 0 (.column "a" ⟨[], .mismatchedType⟩)) ∧
    bindBatch [[⟨"a", .native .int⟩], [⟨"b", .native .text⟩]] [[.scalar .i32 [0, 0, 0, 1]], [.scalar .i32 [0, 0, 0, 1]]] 0
      = .error (.stmt 1 (.column "b" ⟨[], .mismatchedType⟩)) := ⟨rfl, rfl, rfl⟩

/-! ### `Session::batch`: the cached first value list -/

/-- **The Session path binds exactly like the frame path**: pre-serializing value list #0 against
`statements.first()` (iff it is prepared), caching the bytes and appending them verbatim later is THE SAME as binding
every list against its own statement's context — same cells, same error — because the statement the first list is
checked against IS statement #0. -/
theorem session_batch_eq_frame_batch (stmts : List BStmt) (rows : List (List RVal)) :
    sessionBatch stmts rows = bindBatch (attemptCtxs stmts rows) rows 0 := by
  unfold sessionBatch
  cases stmts with
  | nil => simp [peekFirst]
  | cons s ss =>
    cases rows with
    | nil => cases s <;> simp [peekFirst]
    | cons vs rs =>
      cases s with
      | query cols => simp [peekFirst]
      | prepared cols =>
        simp only [peekFirst, attemptCtxs, BStmt.ctx]
        rw [bindBatch]
        cases hf : fromSerializable (.seq vs) cols with
        | error e => rfl
        | ok sv => rfl

private theorem attemptCtxs_get : ∀ (stmts : List BStmt) (rows : List (List RVal)) (k : Nat) (s : BStmt) (vs : List RVal),
    stmts[k]? = some s → rows[k]? = some vs → (attemptCtxs stmts rows)[k]? = some (s.ctx vs)
  | [], _, _, _, _, h, _ => by simp at h
  | _ :: _, [], _, _, _, _, h => by simp at h
  | s' :: ss, vs' :: rs, 0, s, vs, hs, hv => by
    simp only [List.getElem?_cons_zero, Option.some.injEq] at hs hv
    subst hs hv; simp [attemptCtxs]
  | s' :: ss, vs' :: rs, k + 1, s, vs, hs, hv => by
    simp only [attemptCtxs, List.getElem?_cons_succ] at hs hv ⊢
    exact attemptCtxs_get ss rs k s vs hs hv

private theorem attemptCtxs_length : ∀ (stmts : List BStmt) (rows : List (List RVal)),
    (attemptCtxs stmts rows).length = stmts.length
  | [], _ => rfl
  | _ :: ss, [] => by simp [attemptCtxs, attemptCtxs_length ss []]
  | _ :: ss, _ :: rs => by simp [attemptCtxs, attemptCtxs_length ss rs]

/-- **Every value list is type-checked against ITS OWN statement's bind markers before any byte of the batch is sent,
and the bytes sent for statement k are the cells of list k**: a `Session::batch` that reaches the wire has as many
lists as statements; list k has statement k's number of values, each fitting statement k's column type (at any
depth), and what is sent for statement k is exactly `from_serializable(list k, statement k's markers)`. -/
theorem session_batch_ok (stmts : List BStmt) (rows : List (List RVal)) (svs : List SV)
    (h : sessionBatch stmts rows = .ok svs) :
    stmts.length = rows.length ∧ svs.length = stmts.length ∧
    ∀ (k : Nat) (s : BStmt) (vs : List RVal) (sv : SV), stmts[k]? = some s → rows[k]? = some vs → svs[k]? = some sv →
      fromSerializable (.seq vs) (s.ctx vs) = .ok sv ∧ vs.length = (s.ctx vs).length ∧
      (∀ p, p ∈ (s.ctx vs).zip vs → fits p.1.ty p.2 = true) ∧ Inv sv ∧ sv.count = (s.ctx vs).length := by
  rw [session_batch_eq_frame_batch] at h
  obtain ⟨h1, h2, h3⟩ := bindBatch_ok _ rows 0 svs h
  rw [attemptCtxs_length] at h1 h2
  refine ⟨h1, h2, ?_⟩
  intro k s vs sv hs hv hsv
  have hf := h3 k (s.ctx vs) vs sv (attemptCtxs_get stmts rows k s vs hs hv) hv hsv
  exact ⟨hf, bind_positional_ok vs (s.ctx vs) sv hf⟩

/-- **A list that does not fit its own statement stops the whole batch** — also list #0 of a batch whose first
statement is unprepared and a LATER one prepared (the shape in which checking the first list against "the first
prepared statement anywhere" would let it through): no frame is sent. -/
theorem session_batch_mismatch_rejected (stmts : List BStmt) (rows : List (List RVal)) (k : Nat) (s : BStmt)
    (vs : List RVal) (p : Col × RVal) (hs : stmts[k]? = some s) (hv : rows[k]? = some vs)
    (hp : p ∈ (s.ctx vs).zip vs) (hm : fits p.1.ty p.2 = false) : ∃ e, sessionBatch stmts rows = .error e := by
  rw [session_batch_eq_frame_batch]
  exact batch_mismatch_rejected _ rows k (s.ctx vs) vs p (attemptCtxs_get stmts rows k s vs hs hv) hv hp hm

/-- Non-vacuity, the seeded shape: statement #0 unprepared with a `bigint` marker, statement #1 prepared with an
`int` marker.  An `i32` for statement #0 is refused although it would fit statement #1's marker; an `i64` is accepted
although it would not. -/
example :
    let stmts := [BStmt.query [⟨"a", .native .bigint⟩], .prepared [⟨"b", .native .int⟩]]
    sessionBatch stmts [[.scalar .i32 [0, 0, 0, 5]], [.scalar .i32 [0, 0, 0, 6]]]
      = .error (.stmt 0 (.column "a" ⟨[], .mismatchedType⟩)) ∧
    (sessionBatch stmts [[.scalar .i64 [0, 0, 0, 0, 0, 0, 0, 5]], [.scalar .i32 [0, 0, 0, 6]]]).isOk = true :=
  ⟨rfl, rfl⟩

/-! ### `new_from_frame` -/

private theorem readValues_spec : ∀ (n : Nat) (body rest : Bytes), readValues n body = some rest →
    ∃ pre cs fuel, body = pre ++ rest ∧ parseCellsFuel fuel pre = some cs ∧ cs.length = n
  | 0, body, rest, h => by
    simp only [readValues, Option.some.injEq] at h; subst h
    exact ⟨[], [], 1, by simp, by simp [parseCellsFuel], rfl⟩
  | n + 1, body, rest, h => by
    rw [readValues] at h
    cases hr : readValue body with
    | none => simp [hr] at h
    | some p =>
      obtain ⟨x, r1⟩ := p
      simp only [hr] at h
      obtain ⟨c, hc, hbody⟩ := readValue_split body r1 x hr
      obtain ⟨pre, cs, fuel, hpre, hparse, hlen⟩ := readValues_spec n r1 rest h
      obtain ⟨y, hy⟩ := parseFuel_cons c hc fuel pre cs hparse
      exact ⟨c ++ pre, y :: cs, fuel + 1, by rw [hbody, hpre, List.append_assoc], hy, by simp [hlen]⟩

/-- **`new_from_frame`**: the `SerializedValues` it builds from request bytes satisfies the same invariant — the
count read from the frame is the number of cells in the bytes it kept, at most 65535 — and it consumed exactly
`[short n]` ++ those bytes (the rest of the buffer is left for the caller). -/
theorem new_from_frame_inv (buf rest : Bytes) (sv : SV) (h : newFromFrame buf = some (sv, rest)) :
    Inv sv ∧ ∃ a b, buf = [a, b] ++ sv.bytes ++ rest := by
  match buf, h with
  | a :: b :: body, h =>
    simp only [newFromFrame] at h
    cases hr : readValues (beNat [a, b]) body with
    | none => simp [hr] at h
    | some r =>
      simp only [hr, Option.some.injEq, Prod.mk.injEq] at h
      obtain ⟨hsv, hrest⟩ := h
      subst hrest hsv
      obtain ⟨pre, cs, fuel, hpre, hparse, hlen⟩ := readValues_spec _ _ _ hr
      have htake : List.take (body.length - r.length) body = pre := by
        rw [hpre]; simp
      have hlt : beNat [a, b] < 256 ^ 2 := ScyllaVerif.Proofs.Vint.beNat_lt [a, b]
      refine ⟨⟨by simp only []; omega, cs, ?_, hlen⟩, a, b, ?_⟩
      · simp only [htake]; exact parseFuel_canon _ _ _ hparse
      · simp only [htake, hpre]; simp
  | [], h => simp [newFromFrame] at h
  | [_], h => simp [newFromFrame] at h

example : newFromFrame [0, 2, 0xff, 0xff, 0xff, 0xff, 0, 0, 0, 1, 7, 9, 9] =
    some (⟨[0xff, 0xff, 0xff, 0xff, 0, 0, 0, 1, 7], 2⟩, [9, 9]) ∧ newFromFrame [0, 2, 0, 0, 0, 1, 7] = none := by
  decide +kernel

end RowBind

/-! ## Part 4 — the documentation's compatibility matrix

`Generated/DocMatrix.lean` is a hand transcription of the documentation, written independently of `accepts` /
`deserAccepts`.  The two theorems below reduce "the model's relations are the documented ones, for every
documented carrier type at any nesting depth and every column type" to the agreement of the 19 × 20 LEAF tables,
which is then checked exhaustively (a finite table: `decide`). -/

open ScyllaVerif.DocMatrix
open ScyllaVerif.Proofs.CarrierDocs (deser_eq_docs ser_eq_docs doc_imp_acc)

/-- The leaf tables of the model are the documentation's table (all 19 leaf carriers; an `exact_type_check!`
transcribed with an extra or a missing native fails here). -/
theorem leaf_tables_are_documented :
    (∀ s, Scalar.deNatives s = docNatives s) ∧ (∀ s, Scalar.serNatives s = docNatives s) := by
  constructor <;> intro s <;> cases s <;> rfl

/-- **`type_check` accepts exactly the documented pairs**: for every carrier type the documentation speaks
about (leaves, `Option`, `MaybeEmpty`, `Vec`, sets, maps, n-ary tuples, `CqlValue`, nested to any depth) and
EVERY column type. -/
theorem typecheck_matches_docs (c : Carrier) (t : CqlTy) (h : documentedDe c = true) :
    tcheck c t = none ↔ docAccepts c t = true := by
  rw [deser_typecheck_iff, deser_eq_docs leaf_tables_are_documented.1 c t h]

/-- **Every pair the documentation lists is accepted on write** — `docAccepts` is the strict documentation relation
(sets only into sets, tuples of equal arity), not a copy of the model — for every carrier type without a
`MaybeEmpty` layer, at any nesting depth. -/
theorem documented_pair_accepted (c : Carrier) (t : CqlTy) (hn : noME c = true) (h : docAccepts c t = true) :
    accepts c t = true := doc_imp_acc leaf_tables_are_documented.2 c t hn h

/-- … hence serialized: every value of a documented pair (no `CqlValue` inside, vector dimensions respected)
is written, or is too big. -/
theorem documented_pair_serializes (c : Carrier) (t : CqlTy) (x : RVal) (ws : Bool) (buf : Bytes)
    (hn : noME c = true) (h : docAccepts c t = true) (ht : hasType c x = true) (hd : noDyn c = true)
    (hdim : dimsOk t x = true) :
    (ser t x ws buf).2 = none ∨ ∃ e, (ser t x ws buf).2 = some e ∧ e.kind.isSize = true :=
  accepted_pair_serializes c t x ws buf (documented_pair_accepted c t hn h) ht hd hdim

/-- (`docLooseSer` has the recursion of `accepts`: this equality holds for every carrier and only records that
the model's write-side relation is "the documented pairs plus the three deviations the code comments name";
the independent statement is `documented_pair_accepted` above.)  On write, the accepted pairs are the
documented ones plus those deviations. -/
theorem accepts_matches_docs (c : Carrier) (t : CqlTy) (h : documentedSer c = true) :
    accepts c t = docLooseSer c t := ser_eq_docs leaf_tables_are_documented.2 c t h

/-- TEST (finite universe, `decide`): every strictly documented pair is accepted on write (no `MaybeEmpty`
carrier in this universe: it additionally needs an emptiable column); `CqlValue`, `Unset`, `MaybeUnset`
carriers and UDT columns included (45 carriers × 47 column types of nesting ≤ 2). -/
example : carriersT.all (fun c => typesT.all (fun t =>
    (!docAccepts c t || accepts c t) && (!documentedDe c || deserAccepts c t == docAccepts c t) &&
    accepts c t == docLooseSer c t)) = true := by decide +kernel

/-- Non-vacuity: a documented carrier three levels deep, with a `CqlValue` inside, against a matching and a
mismatching column type. -/
example :
    let c : Carrier := .hashMap (.scalar .str) (.vec (.tuple [.scalar .i32, .dyn, .opt (.scalar .uuid)]))
    documentedDe c = true ∧
    docAccepts c (.map (.native .ascii) (.set (.tuple [.native .int, .udt "ks" "t" [], .native .uuid]))) = true ∧
    docAccepts c (.map (.native .ascii) (.set (.tuple [.native .int, .udt "ks" "t" []]))) = false := by decide

end ScyllaVerif.Props.C17

import ScyllaVerif.Model.Speculative
import ScyllaVerif.Model.SpecStmtConfig
import ScyllaVerif.Model.Exec
/-! C13 — speculative execution is idempotent-only, bounded, and first real answer wins (theorems).

All theorems are about `run s evs = evs.foldl step s` for *every* list of events `evs`: `step` ignores events
that cannot happen in the current state (completion of a fiber that is not running, the timer branch after
the fused sleep terminated, anything after the return), so every list of events is a schedule, and ties
between the timer and a completion are simply both orders of the two events.  `Event.deadline` is the client-side
request timeout around the whole runner (`execution.rs:486-499`).  That a *fiber* is sequential (one attempt at a
time) is NOT built into `step`: it is the named hypothesis `Sequential` on the schedule, used only by the theorems
that count attempts on the wire, and discharged for the retry loop of C06 (`sequential_of_exec_fibers`). -/
namespace ScyllaVerif.Props.C13
open ScyllaVerif.Speculative

variable {α τ : Type}

/-! ### 1. the classification `can_be_ignored` (decision logic stated outright, over the whole error universe) -/

/-- A success is always a real answer. -/
theorem ok_is_never_ignored (a : α) : canBeIgnored (.ok a : Res α) = false := rfl

/-- `DbError::can_speculative_retry` depends on the variant only — never on a payload (consistency, counts,
`data_present`, write type, statement id, error code, the operation type and the `rejected_by_coordinator` flag of
`RateLimitReached`, …). -/
theorem canSpeculativeRetry_iff (d : DbErr) :
    d.canSpeculativeRetry = true ↔
      d.kind ∈ [DbKind.unavailable, .overloaded, .isBootstrapping, .readTimeout, .writeTimeout, .readFailure,
                .writeFailure, .unprepared, .serverError, .rateLimitReached] := by
  cases d <;> simp [DbErr.canSpeculativeRetry, DbErr.kind]

theorem classification_ignores_payload (d d' : DbErr) (h : d.kind = d'.kind) :
    d.canSpeculativeRetry = d'.canSpeculativeRetry := by
  have h1 := canSpeculativeRetry_iff d
  have h2 := canSpeculativeRetry_iff d'
  rw [h] at h1
  cases hd : d.canSpeculativeRetry <;> cases hd' : d'.canSpeculativeRetry <;> simp_all

/-- In particular a rate-limit rejection is ignorable whoever rejected it and whatever the operation. -/
theorem rateLimitReached_ignorable (op : OpType) (rejectedByCoordinator : Bool) (msg : String) :
    canBeIgnored (.err (.lastAttemptError (.dbError (.rateLimitReached op rejectedByCoordinator) msg)) : Res α) = true := rfl

/-- **Which errors are ignorable** (may differ on another node, so they must not end the call): every
`ConnectionPoolError`, every `BrokenConnectionError` whatever broke the connection, `UnableToAllocStreamId`, and the
`DbError`s `Unavailable, Overloaded, IsBootstrapping, ReadTimeout, WriteTimeout, ReadFailure, WriteFailure, Unprepared,
ServerError, RateLimitReached` with any payload and any message — and nothing else. -/
theorem canBeIgnored_err_iff (e : ReqErr) :
    canBeIgnored (.err e : Res α) = true ↔
      (∃ k, e = .connectionPoolError k) ∨
      (∃ k, e = .lastAttemptError (.brokenConnectionError k)) ∨
      e = .lastAttemptError .unableToAllocStreamId ∨
      (∃ d msg, e = .lastAttemptError (.dbError d msg) ∧
        d.kind ∈ [DbKind.unavailable, .overloaded, .isBootstrapping, .readTimeout, .writeTimeout, .readFailure,
                  .writeFailure, .unprepared, .serverError, .rateLimitReached]) := by
  cases e with
  | lastAttemptError a =>
    cases a with
    | dbError d msg =>
      simp only [canBeIgnored, ReqErr.canBeIgnored, AttemptErr.canBeIgnored, canSpeculativeRetry_iff]
      constructor
      · intro h; exact Or.inr (Or.inr (Or.inr ⟨d, msg, rfl, h⟩))
      · intro h
        rcases h with ⟨k, hk⟩ | ⟨k, hk⟩ | hk | ⟨d', m', hk, hd⟩
        · cases hk
        · cases hk
        · cases hk
        · cases hk; exact hd
    | _ => simp [canBeIgnored, ReqErr.canBeIgnored, AttemptErr.canBeIgnored]
  | _ => simp [canBeIgnored, ReqErr.canBeIgnored]

/-- **Which results are real answers** (end the call at once): a success, `EmptyPlan`, `RequestTimeout`, the nine
(de)serialisation / protocol attempt errors with any nested error, and the `DbError`s `SyntaxError, Invalid,
AlreadyExists, FunctionFailure, AuthenticationError, Unauthorized, ConfigError, TruncateError, ProtocolError, Other`. -/
theorem real_answer_iff (r : Res α) :
    canBeIgnored r = false ↔
      (∃ a, r = .ok a) ∨ r = .err .emptyPlan ∨ (∃ ms, r = .err (.requestTimeout ms)) ∨
      (∃ e, r = .err (.lastAttemptError e) ∧
        (e = .serializationError ∨ (∃ s, e = .cqlRequestSerialization s) ∨ (∃ s, e = .bodyExtensionsParseError s) ∨
         (∃ s, e = .cqlResultParseError s) ∨ (∃ s, e = .cqlErrorParseError s) ∨ (∃ s, e = .unexpectedResponse s) ∨
         e = .repreparedIdChanged ∨ e = .repreparedIdMissingInBatch ∨ e = .nonfinishedPagingState ∨
         (∃ d msg, e = .dbError d msg ∧
           d.kind ∈ [DbKind.syntaxError, .invalid, .alreadyExists, .functionFailure, .authenticationError,
                     .unauthorized, .configError, .truncateError, .protocolError, .other]))) := by
  cases r with
  | ok a => simp [canBeIgnored]
  | err e =>
    cases e with
    | emptyPlan => simp [canBeIgnored, ReqErr.canBeIgnored]
    | connectionPoolError k => simp [canBeIgnored, ReqErr.canBeIgnored]
    | requestTimeout ms => simp [canBeIgnored, ReqErr.canBeIgnored]
    | lastAttemptError a =>
      cases a with
      | dbError d msg => cases d <;> simp [canBeIgnored, ReqErr.canBeIgnored, AttemptErr.canBeIgnored, DbErr.canSpeculativeRetry, DbErr.kind]
      | _ => simp [canBeIgnored, ReqErr.canBeIgnored, AttemptErr.canBeIgnored]

example : canBeIgnored (.err (.lastAttemptError (.dbError .overloaded "m")) : Res Nat) = true := by decide
example : canBeIgnored (.err (.lastAttemptError (.dbError (.rateLimitReached .read false) "m")) : Res Nat) = true := by decide
example : canBeIgnored (.err (.lastAttemptError (.dbError .invalid "m")) : Res Nat) = false := by decide

/-! ### 2. basic facts about `step` / `run` -/

private theorem run_nil (s : St α τ) : run s [] = s := rfl
private theorem run_cons (s : St α τ) (e : Event α) (es : List (Event α)) : run s (e :: es) = run (step s e) es := rfl
private theorem run_append (s : St α τ) (es fs : List (Event α)) : run s (es ++ fs) = run (run s es) fs := by
  simp [run, List.foldl_append]

/-- After the return nothing happens any more. -/
private theorem step_of_returned {s : St α τ} {r : Res α} (h : s.returned = some r) (e : Event α) : step s e = s := by
  simp [step, h]

private theorem run_of_returned {s : St α τ} {r : Res α} (h : s.returned = some r) (evs : List (Event α)) :
    run s evs = s := by
  induction evs with
  | nil => rfl
  | cons e es ih => rw [run_cons, step_of_returned h, ih]

/-- The returned value is final. -/
theorem returned_stable {s : St α τ} {r : Res α} (h : s.returned = some r) (evs : List (Event α)) :
    (run s evs).returned = some r := by
  rw [run_of_returned h]; exact h

/-! ### 3. the inductive invariant -/

/-- Invariant of the request state for a policy with `m` speculative executions over the plan `plan0`. -/
structure Inv (m : Nat) (plan0 : List τ) (s : St α τ) : Prop where
  budget : s.started + s.retriesRemaining ≤ 1 + m
  started_pos : 1 ≤ s.started
  running_lt : ∀ i ∈ s.running, i < s.started
  running_nodup : s.running.Nodup
  unarmed : s.sleepArmed = false → s.retriesRemaining = 0
  live : s.returned = none → s.running ≠ [] ∨ (s.sleepArmed = true ∧ 0 < s.retriesRemaining)
  plan_split : (s.handed.reverse.map (·.2)) ++ s.plan = plan0
  attempts_handed : ∀ p ∈ s.attempts, p ∈ s.handed ∧ p.1 ∈ s.running
  returned_idle : s.returned ≠ none → s.running = []

private theorem inv_initSpec (m : Nat) (dl : Option Nat) (plan : List τ) : Inv m plan (initSpec m dl plan : St α τ) := by
  constructor <;> simp [initSpec] <;> omega

private theorem inv_initSingle (m : Nat) (dl : Option Nat) (plan : List τ) : Inv m plan (initSingle dl plan : St α τ) := by
  constructor <;> simp [initSingle]

theorem inv_init (idem : Bool) (pol : Option Nat) (dl : Option Nat) (plan : List τ) :
    Inv (pol.getD 0) plan (init idem pol dl plan : St α τ) := by
  unfold init
  cases pol with
  | none => exact inv_initSingle _ _ _
  | some m => cases idem <;> simp <;> first | exact inv_initSpec _ _ _ | exact inv_initSingle _ _ _

private theorem currentTarget_mem {h : List (Nat × τ)} {i : Nat} {t : τ} (hc : currentTarget h i = some t) :
    (i, t) ∈ h := by
  unfold currentTarget at hc
  cases hf : h.find? (fun p => p.1 == i) with
  | none => simp [hf] at hc
  | some p =>
    simp [hf] at hc
    have hp := List.find?_some hf
    have hm := List.mem_of_find?_eq_some hf
    simp at hp
    cases p with
    | mk a b => simp_all

private theorem nodup_filter_map {a : List (Nat × τ)} (i : Nat) (h : (a.map (·.1)).Nodup) :
    ((a.filter (fun p => p.1 != i)).map (·.1)).Nodup := by
  induction a with
  | nil => simp
  | cons p ps ih =>
    simp only [List.map_cons, List.nodup_cons] at h
    by_cases hp : p.1 = i
    · simp [hp]; simpa using ih h.2
    · simp only [List.filter_cons, bne_iff_ne, ne_eq, hp, not_false_eq_true, ↓reduceIte, List.map_cons, List.nodup_cons]
      refine ⟨?_, ih h.2⟩
      intro hm
      apply h.1
      simp only [List.mem_map, List.mem_filter] at hm ⊢
      obtain ⟨q, ⟨hq, _⟩, hq2⟩ := hm
      exact ⟨q, hq, hq2⟩

private theorem inv_checkDone {m : Nat} {plan0 : List τ} {x : St α τ}
    (h1 : x.started + x.retriesRemaining ≤ 1 + m) (h2 : 1 ≤ x.started)
    (h3 : ∀ i ∈ x.running, i < x.started) (h4 : x.running.Nodup)
    (h5 : x.sleepArmed = false → x.retriesRemaining = 0)
    (h7 : (x.handed.reverse.map (·.2)) ++ x.plan = plan0)
    (h8 : ∀ p ∈ x.attempts, p ∈ x.handed ∧ p.1 ∈ x.running)
    (hx : x.returned = none) : Inv m plan0 (checkDone x) := by
  unfold checkDone
  by_cases hc : (x.running.isEmpty && x.retriesRemaining == 0) = true
  · simp only [hc, ↓reduceIte]
    refine ⟨h1, h2, h3, h4, h5, by simp, h7, h8, ?_⟩
    intro _
    simp only [Bool.and_eq_true, List.isEmpty_iff] at hc
    exact hc.1
  · simp only [hc, Bool.false_eq_true, ↓reduceIte]
    refine ⟨h1, h2, h3, h4, h5, ?_, h7, h8, fun h => absurd hx h⟩
    intro _
    simp only [Bool.and_eq_true, List.isEmpty_iff, beq_iff_eq, not_and] at hc
    by_cases he : x.running = []
    · right
      have hz := hc he
      refine ⟨?_, by omega⟩
      cases hs : x.sleepArmed with
      | true => rfl
      | false => exact absurd (h5 hs) hz
    · exact Or.inl he

theorem step_inv {m : Nat} {plan0 : List τ} {s : St α τ} (hi : Inv m plan0 s) (e : Event α) :
    Inv m plan0 (step s e) := by
  obtain ⟨h1, h2, h3, h4, h5, h6, h7, h8, h9⟩ := hi
  unfold step
  cases hr : s.returned with
  | some r => simp only []; exact ⟨h1, h2, h3, h4, h5, h6, h7, h8, h9⟩
  | none =>
    simp only []
    cases e with
    | timerFires =>
      simp only []
      by_cases ha : s.sleepArmed = true
      · by_cases hz : s.retriesRemaining > 0
        · simp only [ha, hz, Bool.not_true, Bool.false_eq_true, ↓reduceIte]
          refine ⟨?_, ?_, ?_, ?_, ?_, ?_, h7, ?_, fun h => absurd rfl h⟩ <;> simp only []
          · omega
          · omega
          · intro i hm
            simp only [List.mem_append, List.mem_singleton] at hm
            rcases hm with h | h
            · have := h3 i h; omega
            · omega
          · rw [List.nodup_append]
            refine ⟨h4, by simp, ?_⟩
            intro a ha' b hb
            simp only [List.mem_singleton] at hb
            have := h3 a ha'; omega
          · simp
          · intro _; left; simp
          · intro p hp
            have := h8 p hp
            exact ⟨this.1, List.mem_append_left _ this.2⟩
        · simp only [ha, hz, Bool.not_true, Bool.false_eq_true, ↓reduceIte]
          refine ⟨h1, h2, h3, h4, ?_, ?_, h7, h8, fun h => absurd rfl h⟩ <;> simp only []
          · intro _; omega
          · intro _
            rcases h6 hr with h | h
            · exact Or.inl h
            · exact absurd h.2 hz
      · simp only [ha, Bool.not_false, ↓reduceIte]
        exact ⟨h1, h2, h3, h4, h5, h6, h7, h8, h9⟩
    | pop i =>
      simp only []
      split
      · exact ⟨h1, h2, h3, h4, h5, h6, h7, h8, h9⟩
      · split
        · exact ⟨h1, h2, h3, h4, h5, h6, h7, h8, h9⟩
        · rename_i t rest hp
          refine ⟨h1, h2, h3, h4, h5, fun _ => h6 hr, ?_, ?_, fun h => absurd rfl h⟩ <;> simp only []
          · rw [← h7, hp]; simp
          · intro p hp'
            have := h8 p hp'
            exact ⟨List.mem_cons_of_mem _ this.1, this.2⟩
    | send i =>
      simp only []
      split
      · exact ⟨h1, h2, h3, h4, h5, h6, h7, h8, h9⟩
      · rename_i hc
        split
        · exact ⟨h1, h2, h3, h4, h5, h6, h7, h8, h9⟩
        · rename_i t ht
          refine ⟨h1, h2, h3, h4, h5, fun _ => h6 hr, h7, ?_, fun h => absurd rfl h⟩
          simp only []
          intro p hp'
          simp only [List.mem_cons] at hp'
          rcases hp' with h | h
          · subst h
            refine ⟨currentTarget_mem ht, ?_⟩
            simpa using hc
          · exact h8 p h
    | attemptDone i =>
      simp only []
      refine ⟨h1, h2, h3, h4, h5, fun _ => h6 hr, h7, ?_, fun h => absurd rfl h⟩
      intro p hp
      exact h8 p (List.mem_filter.mp hp).1
    | complete i o =>
      simp only []
      split
      · exact ⟨h1, h2, h3, h4, h5, h6, h7, h8, h9⟩
      · rename_i hc
        simp only [Bool.not_eq_eq_eq_not] at hc
        have hmem : i ∈ s.running := by simpa using hc
        have e3 : ∀ j ∈ s.running.erase i, j < s.started := fun j hj => h3 j (List.mem_of_mem_erase hj)
        have e4 : (s.running.erase i).Nodup := h4.erase i
        have e8 : ∀ p ∈ s.attempts.filter (fun p => p.1 != i), p ∈ s.handed ∧ p.1 ∈ s.running.erase i := by
          intro p hp
          have hf := List.mem_filter.mp hp
          have := h8 p hf.1
          refine ⟨this.1, ?_⟩
          have hne : p.1 ≠ i := by simpa using hf.2
          exact (List.mem_erase_of_ne hne).mpr this.2
        cases o with
        | none =>
          simp only []
          apply inv_checkDone <;> simp only [] <;> first | assumption | omega | simp
        | some r =>
          simp only []
          split
          · refine ⟨h1, h2, ?_, ?_, h5, ?_, h7, ?_, ?_⟩ <;> simp
          · apply inv_checkDone <;> simp only [] <;> assumption
    | deadline =>
      simp only []
      split
      · exact ⟨h1, h2, h3, h4, h5, h6, h7, h8, h9⟩
      · refine ⟨h1, h2, ?_, ?_, h5, ?_, h7, ?_, ?_⟩ <;> simp

theorem run_inv {m : Nat} {plan0 : List τ} {s : St α τ} (hi : Inv m plan0 s) (evs : List (Event α)) :
    Inv m plan0 (run s evs) := by
  induction evs generalizing s with
  | nil => exact hi
  | cons e es ih => exact ih (step_inv hi e)

private theorem running_le_started {m : Nat} {plan0 : List τ} {s : St α τ} (hi : Inv m plan0 s) :
    s.running.length ≤ s.started := by
  have hsub : s.running ⊆ List.range s.started := fun i h => List.mem_range.mpr (hi.running_lt i h)
  simpa using hi.running_nodup.length_le_of_subset hsub

/-! ### 3b. per-fiber sequentiality: a named hypothesis on the schedule, discharged for the C06 retry loop -/

/-- **The hypothesis.** In the schedule no fiber sends an attempt while its previous attempt is outstanding
(between two `send i` there is an `attemptDone i` or `complete i _`).  `step` does not enforce this. -/
def Sequential (evs : List (Event α)) : Prop := sequential (fun _ => false) evs = true

/-- Link between the phases tracked along the schedule and the state. -/
structure Seq (ph : Nat → Bool) (s : St α τ) : Prop where
  phase : ∀ p ∈ s.attempts, ph p.1 = true
  nodup : (s.attempts.map (·.1)).Nodup

private theorem attempts_nil_of_returned {m : Nat} {plan0 : List τ} {s : St α τ} (hi : Inv m plan0 s)
    (h : s.returned ≠ none) : s.attempts = [] := by
  have hr := hi.returned_idle h
  cases ha : s.attempts with
  | nil => rfl
  | cons p ps =>
    have := (hi.attempts_handed p (by simp [ha])).2
    simp [hr] at this

@[simp] private theorem checkDone_attempts (x : St α τ) : (checkDone x).attempts = x.attempts := by
  unfold checkDone; split <;> rfl

private theorem seq_filter {ph : Nat → Bool} {a : List (Nat × τ)} (i : Nat)
    (h1 : ∀ p ∈ a, ph p.1 = true) (h2 : (a.map (·.1)).Nodup) :
    (∀ p ∈ a.filter (fun p => p.1 != i), (fun j => if j = i then false else ph j) p.1 = true) ∧
    ((a.filter (fun p => p.1 != i)).map (·.1)).Nodup := by
  refine ⟨?_, nodup_filter_map i h2⟩
  intro p hp
  have hf := List.mem_filter.mp hp
  have hne : p.1 ≠ i := by simpa using hf.2
  simp [hne, h1 p hf.1]

private theorem step_seq {m : Nat} {plan0 : List τ} {s : St α τ} {ph : Nat → Bool} (hi : Inv m plan0 s)
    (hs : Seq ph s) (e : Event α) (ok : (match e with | .send i => !ph i | _ => true) = true) :
    Seq (phaseStep ph e) (step s e) := by
  cases hr : s.returned with
  | some r =>
    rw [step_of_returned hr]
    have := attempts_nil_of_returned hi (by simp [hr])
    exact ⟨by simp [this], by simp [this]⟩
  | none =>
    obtain ⟨hp, hn⟩ := hs
    unfold step
    simp only [hr]
    cases e with
    | timerFires =>
      simp only [phaseStep]
      split
      · exact ⟨hp, hn⟩
      · split <;> exact ⟨hp, hn⟩
    | pop i =>
      simp only [phaseStep]
      split
      · exact ⟨hp, hn⟩
      · split <;> exact ⟨hp, hn⟩
    | deadline =>
      simp only [phaseStep]
      split
      · exact ⟨hp, hn⟩
      · exact ⟨by simp, by simp⟩
    | send i =>
      simp only []
      simp only [Bool.not_eq_eq_eq_not, Bool.not_true] at ok
      have hph : ∀ p ∈ s.attempts, (phaseStep ph (.send i : Event α)) p.1 = true := by
        intro p hpm
        simp only [phaseStep]
        split
        · rfl
        · exact hp p hpm
      split
      · exact ⟨hph, hn⟩
      · split
        · exact ⟨hph, hn⟩
        · refine ⟨?_, ?_⟩
          · intro p hpm
            simp only [List.mem_cons] at hpm
            rcases hpm with h | h
            · subst h; simp [phaseStep]
            · exact hph p h
          · simp only [List.map_cons, List.nodup_cons, List.mem_map, not_exists, not_and]
            refine ⟨?_, hn⟩
            intro p hpm hpi
            have := hp p hpm
            rw [hpi, ok] at this
            cases this
    | attemptDone i =>
      simp only [phaseStep]
      have := seq_filter i hp hn
      exact ⟨this.1, this.2⟩
    | complete i o =>
      simp only [phaseStep]
      have hf := seq_filter i hp hn
      split
      · rename_i hc
        simp only [Bool.not_eq_eq_eq_not, Bool.not_true] at hc
        refine ⟨?_, hn⟩
        intro p hpm
        have hrun := (hi.attempts_handed p hpm).2
        have hne : p.1 ≠ i := by
          intro h; rw [h] at hrun
          have : s.running.contains i = true := by simpa using hrun
          rw [hc] at this; cases this
        simp [hne, hp p hpm]
      · cases o with
        | none => exact ⟨by simpa using hf.1, by simpa using hf.2⟩
        | some r =>
          simp only []
          split
          · exact ⟨by simp, by simp⟩
          · exact ⟨by simpa using hf.1, by simpa using hf.2⟩

private theorem run_seq {m : Nat} {plan0 : List τ} {s : St α τ} {ph : Nat → Bool} (hi : Inv m plan0 s)
    (hs : Seq ph s) (evs : List (Event α)) (ok : sequential ph evs = true) :
    ∃ ph', Seq ph' (run s evs) := by
  induction evs generalizing s ph with
  | nil => exact ⟨ph, hs⟩
  | cons e es ih =>
    simp only [sequential, Bool.and_eq_true] at ok
    exact ih (step_inv hi e) (step_seq hi hs e ok.1) ok.2

/-- Under the hypothesis, every fiber has at most one attempt on the wire, in every reachable state. -/
theorem one_attempt_per_fiber (idem : Bool) (pol : Option Nat) (dl : Option Nat) (plan : List τ)
    (evs : List (Event α)) (hseq : Sequential evs) :
    ((run (init idem pol dl plan : St α τ) evs).attempts.map (·.1)).Nodup := by
  have h0 : Seq (fun _ => false) (init idem pol dl plan : St α τ) := by
    constructor <;> (unfold init; cases pol <;> cases idem <;> simp [initSpec, initSingle])
  obtain ⟨ph', h⟩ := run_seq (inv_init idem pol dl plan) h0 evs hseq
  exact h.nodup

-- the hypothesis is needed: a fiber that sent twice without waiting has two attempts on the wire
example : (run (init false (some 2) none [10, 11] : St Nat Nat) [.pop 0, .send 0, .send 0]).attempts.length = 2 := by
  decide
example : ¬ Sequential ([.pop 0, .send 0, .send 0] : List (Event Nat)) := by unfold Sequential; decide
example : Sequential ([.pop 0, .send 0, .attemptDone 0, .send 0, .timerFires, .pop 1, .send 1] : List (Event Nat)) := by
  unfold Sequential; decide

/-! The hypothesis holds for the fibers of C06 (`Model/Exec.lean`, `run_request_speculative_fiber`): a trace of the
retry loop is a *list* of attempts — `Exec.exec` consumes `outcomes k` (the result of attempt `k`) before it issues
attempt `k + 1` — so the events of one fiber are `(send, attemptDone)* complete`, and any interleaving of such
fibers with each other, with pops, timer ticks and the deadline is `Sequential`. -/

/-- Sequentiality of one fiber (`b` = it has an attempt outstanding). -/
def seq1 (i : Nat) : Bool → List (Event α) → Bool
  | _, [] => true
  | b, .send j :: es => if j = i then !b && seq1 i true es else seq1 i b es
  | b, .attemptDone j :: es => if j = i then seq1 i false es else seq1 i b es
  | b, .complete j _ :: es => if j = i then seq1 i false es else seq1 i b es
  | b, _ :: es => seq1 i b es

/-- The attempt-related events of fiber `i` in a schedule. -/
def phaseEvents (i : Nat) (evs : List (Event α)) : List (Event α) :=
  evs.filter fun e => match e with
    | .send j => j == i
    | .attemptDone j => j == i
    | .complete j _ => j == i
    | _ => false

/-- The attempt-related events of fiber `i` when it runs the C06 loop with trace `tr` and completes with `o`. -/
def fiberEvents (i : Nat) (tr : Exec.Trace) (o : Outcome α) : List (Event α) :=
  tr.attempts.flatMap (fun _ => [.send i, .attemptDone i]) ++ [.complete i o]

private theorem sequential_of_seq1 (evs : List (Event α)) (ph : Nat → Bool)
    (h : ∀ i, seq1 i (ph i) evs = true) : sequential ph evs = true := by
  induction evs generalizing ph with
  | nil => rfl
  | cons e es ih =>
    simp only [sequential, Bool.and_eq_true]
    cases e with
    | send j =>
      have hj := h j
      simp only [seq1, ↓reduceIte, Bool.and_eq_true] at hj
      refine ⟨hj.1, ih _ ?_⟩
      intro i
      by_cases hij : i = j
      · subst hij; simpa [phaseStep] using hj.2
      · have := h i
        have hji : ¬ j = i := fun h => hij h.symm
        simp only [seq1, hji, ↓reduceIte] at this
        simpa [phaseStep, hij] using this
    | attemptDone j =>
      refine ⟨rfl, ih _ ?_⟩
      intro i
      have := h i
      by_cases hij : i = j
      · subst hij; simpa [phaseStep, seq1] using this
      · have hji : ¬ j = i := fun h => hij h.symm
        simp only [seq1, hji, ↓reduceIte] at this
        simpa [phaseStep, hij] using this
    | complete j o =>
      refine ⟨rfl, ih _ ?_⟩
      intro i
      have := h i
      by_cases hij : i = j
      · subst hij; simpa [phaseStep, seq1] using this
      · have hji : ¬ j = i := fun h => hij h.symm
        simp only [seq1, hji, ↓reduceIte] at this
        simpa [phaseStep, hij] using this
    | timerFires => exact ⟨rfl, ih _ (fun i => by simpa [seq1, phaseStep] using h i)⟩
    | pop j => exact ⟨rfl, ih _ (fun i => by simpa [seq1, phaseStep] using h i)⟩
    | deadline => exact ⟨rfl, ih _ (fun i => by simpa [seq1, phaseStep] using h i)⟩

private theorem seq1_phaseEvents (i : Nat) (b : Bool) (evs : List (Event α)) :
    seq1 i b (phaseEvents i evs) = seq1 i b evs := by
  unfold phaseEvents
  induction evs generalizing b with
  | nil => rfl
  | cons e es ih =>
    rw [List.filter_cons]
    cases e with
    | send j =>
      by_cases h : j = i
      · simp only [h, beq_self_eq_true, ↓reduceIte, seq1]; rw [ih]
      · have hb : (j == i) = false := by simpa using h
        simp only [hb, Bool.false_eq_true, ↓reduceIte, seq1, h]; exact ih b
    | attemptDone j =>
      by_cases h : j = i
      · simp only [h, beq_self_eq_true, ↓reduceIte, seq1]; exact ih false
      · have hb : (j == i) = false := by simpa using h
        simp only [hb, Bool.false_eq_true, ↓reduceIte, seq1, h]; exact ih b
    | complete j o =>
      by_cases h : j = i
      · simp only [h, beq_self_eq_true, ↓reduceIte, seq1]; exact ih false
      · have hb : (j == i) = false := by simpa using h
        simp only [hb, Bool.false_eq_true, ↓reduceIte, seq1, h]; exact ih b
    | timerFires => simp only [Bool.false_eq_true, ↓reduceIte, seq1]; exact ih b
    | pop j => simp only [Bool.false_eq_true, ↓reduceIte, seq1]; exact ih b
    | deadline => simp only [Bool.false_eq_true, ↓reduceIte, seq1]; exact ih b

private theorem seq1_prefix (i : Nat) (l1 l2 : List (Event α)) (b : Bool) (hp : l1 <+: l2)
    (h : seq1 i b l2 = true) : seq1 i b l1 = true := by
  obtain ⟨t, rfl⟩ := hp
  induction l1 generalizing b with
  | nil => rfl
  | cons e es ih =>
    cases e with
    | send j =>
      by_cases hj : j = i
      · simp only [List.cons_append, seq1, hj, ↓reduceIte, Bool.and_eq_true] at h ⊢
        exact ⟨h.1, ih true h.2⟩
      · simp only [List.cons_append, seq1, hj, ↓reduceIte] at h ⊢
        exact ih b h
    | attemptDone j =>
      by_cases hj : j = i
      · simp only [List.cons_append, seq1, hj, ↓reduceIte] at h ⊢; exact ih false h
      · simp only [List.cons_append, seq1, hj, ↓reduceIte] at h ⊢; exact ih b h
    | complete j o =>
      by_cases hj : j = i
      · simp only [List.cons_append, seq1, hj, ↓reduceIte] at h ⊢; exact ih false h
      · simp only [List.cons_append, seq1, hj, ↓reduceIte] at h ⊢; exact ih b h
    | timerFires => simp only [List.cons_append, seq1] at h ⊢; exact ih b h
    | pop j => simp only [List.cons_append, seq1] at h ⊢; exact ih b h
    | deadline => simp only [List.cons_append, seq1] at h ⊢; exact ih b h

/-- The events of a fiber running ANY trace of the C06 loop are sequential … -/
theorem fiber_trace_sequential (i : Nat) (tr : Exec.Trace) (o : Outcome α) :
    seq1 i false (fiberEvents i tr o) = true := by
  unfold fiberEvents
  induction tr.attempts with
  | nil => simp [seq1]
  | cons a as ih => simpa [seq1] using ih

/-- … in particular those of `Exec.exec`, the retry loop itself, for every policy, oracle, fuel, plan and start. -/
theorem exec_fiber_sequential {σ : Type} (P : Exec.PolicyFn σ) (idem : Bool) (outcomes : Nat → Exec.Outcome)
    (fuel : Nat) (plan : List Exec.Target) (t : Nat) (loc : Exec.Loc σ) (i : Nat) (o : Outcome α) :
    seq1 i false (fiberEvents i (Exec.exec P idem outcomes fuel plan t loc) o) = true :=
  fiber_trace_sequential i _ o

/-- **Discharge of the hypothesis**: if the attempt-related events of every fiber `i` in the schedule are (a
prefix of — the fiber may be cancelled) those of a C06 fiber trace, the schedule is `Sequential`, however the
fibers, the pops, the timer and the deadline are interleaved. -/
theorem sequential_of_exec_fibers (evs : List (Event α)) (tr : Nat → Exec.Trace) (o : Nat → Outcome α)
    (h : ∀ i, phaseEvents i evs <+: fiberEvents i (tr i) (o i)) : Sequential evs := by
  apply sequential_of_seq1
  intro i
  rw [← seq1_phaseEvents]
  exact seq1_prefix i _ _ false (h i) (fiber_trace_sequential i (tr i) (o i))

example : (phaseEvents 0 ([.pop 0, .send 0, .timerFires, .pop 1, .send 1, .attemptDone 0, .pop 0, .send 0] : List (Event Nat))).length
    = 3 := by decide

private theorem attempts_le_running {m : Nat} {plan0 : List τ} {s : St α τ} (hi : Inv m plan0 s)
    (hn : (s.attempts.map (·.1)).Nodup) : s.attempts.length ≤ s.running.length := by
  have hsub : s.attempts.map (·.1) ⊆ s.running := by
    intro i h
    obtain ⟨p, hp, rfl⟩ := List.mem_map.mp h
    exact (hi.attempts_handed p hp).2
  simpa using hn.length_le_of_subset hsub

/-! ### 4. the idempotence gate -/

/-- The gate (`execution.rs:418-420`), stated outright: the speculative machine runs iff there is a policy
AND the request is idempotent; in every other case exactly one sequential fiber runs, without a timer. -/
theorem gate_speculative (m : Nat) (dl : Option Nat) (plan : List τ) :
    (init true (some m) dl plan : St α τ) = initSpec m dl plan := rfl
theorem gate_nonidempotent (pol : Option Nat) (dl : Option Nat) (plan : List τ) :
    (init false pol dl plan : St α τ) = initSingle dl plan := by cases pol <;> rfl
theorem gate_no_policy (idem : Bool) (dl : Option Nat) (plan : List τ) :
    (init idem none dl plan : St α τ) = initSingle dl plan := rfl

/-- **A request not marked idempotent has exactly one execution, whatever speculative policy is configured** —
unconditionally, for every policy, plan, timeout and schedule: one fiber is started and no other ever is. -/
theorem nonidempotent_single_execution (pol : Option Nat) (dl : Option Nat) (plan : List τ) (evs : List (Event α)) :
    let s := run (init false pol dl plan : St α τ) evs
    s.started = 1 ∧ s.running.length ≤ 1 := by
  intro s
  have hi : Inv 0 plan s := by
    have := run_inv (inv_initSingle 0 dl plan (α := α)) evs
    rw [← gate_nonidempotent pol] at this
    exact this
  have h1 := hi.budget
  have h2 := hi.started_pos
  have h3 := running_le_started hi
  exact ⟨by omega, by omega⟩

/-- **… hence it is never in flight on two nodes at once**: given that a fiber is sequential (`Sequential`, which
holds for the C06 retry loop: `sequential_of_exec_fibers`), at most one attempt is on the wire at every point. -/
theorem nonidempotent_single_fiber (pol : Option Nat) (dl : Option Nat) (plan : List τ) (evs : List (Event α))
    (hseq : Sequential evs) :
    let s := run (init false pol dl plan : St α τ) evs
    s.started = 1 ∧ s.running.length ≤ 1 ∧ s.attempts.length ≤ 1 := by
  intro s
  have h := nonidempotent_single_execution pol dl plan evs (α := α)
  have hi : Inv (pol.getD 0) plan s := run_inv (inv_init false pol dl plan) evs
  have ha := attempts_le_running hi (one_attempt_per_fiber false pol dl plan evs hseq)
  exact ⟨h.1, h.2, Nat.le_trans ha h.2⟩

/-- The same without a policy, idempotent or not. -/
theorem no_policy_single_fiber (idem : Bool) (dl : Option Nat) (plan : List τ) (evs : List (Event α))
    (hseq : Sequential evs) :
    let s := run (init idem none dl plan : St α τ) evs
    s.started = 1 ∧ s.running.length ≤ 1 ∧ s.attempts.length ≤ 1 := by
  intro s
  have hi : Inv 0 plan s := run_inv (inv_initSingle 0 dl plan) evs
  have h1 := hi.budget
  have h2 := hi.started_pos
  have h3 := running_le_started hi
  have ha := attempts_le_running hi (one_attempt_per_fiber idem none dl plan evs hseq)
  exact ⟨by omega, by omega, by omega⟩

/-! #### provenance of what the gate sees (session APIs) -/

/-- The flag handed to the gate is the statement's own — for a batch the BATCH's (`batch.config`): the member
statements' flags never matter. -/
theorem gate_flag_ignores_members (idem : Bool) (ms ms' : List Bool) (own : Option (Option Nat)) (dflt : Option Nat) :
    (Submitted.mk idem ms own dflt).gateIdempotent = (Submitted.mk idem ms' own dflt).gateIdempotent := rfl

/-- **A batch that is not marked idempotent has exactly one execution** — whatever its members are marked, whichever
profile supplies whatever speculative policy, for every plan, timeout and schedule. -/
theorem unmarked_batch_single_execution (members : List Bool) (own : Option (Option Nat)) (dflt : Option Nat)
    (dl : Option Nat) (plan : List τ) (evs : List (Event α)) :
    let s := run ((Submitted.mk false members own dflt).start dl plan : St α τ) evs
    s.started = 1 ∧ s.running.length ≤ 1 :=
  nonidempotent_single_execution _ dl plan evs

/-- The policy that bounds the executions is the CHOSEN profile's: the statement's (batch's) handle if it has one —
the session default is then irrelevant — else the session default. -/
theorem started_le_chosen_profile (r : Submitted) (dl : Option Nat) (plan : List τ) (evs : List (Event α)) :
    (run (r.start dl plan : St α τ) evs).started ≤ 1 + (r.gatePolicy).getD 0 := by
  have hi := run_inv (inv_init r.gateIdempotent r.gatePolicy dl plan (α := α)) evs
  have h1 := hi.budget
  have h2 := hi.started_pos
  unfold Submitted.start
  omega

theorem gate_policy_own_profile (idem : Bool) (ms : List Bool) (p : Option Nat) (dflt dflt' : Option Nat) :
    (Submitted.mk idem ms (some p) dflt).gatePolicy = p ∧
    (Submitted.mk idem ms (some p) dflt).gatePolicy = (Submitted.mk idem ms (some p) dflt').gatePolicy := ⟨rfl, rfl⟩

theorem gate_policy_session_default (idem : Bool) (ms : List Bool) (dflt : Option Nat) :
    (Submitted.mk idem ms none dflt).gatePolicy = dflt := rfl

-- an unmarked batch of members that are all marked idempotent, under an aggressive policy: still one execution
example : (run ((Submitted.mk false [true, true] none (some 3)).start none [10, 11, 12] : St Nat Nat)
    [.pop 0, .send 0, .timerFires, .timerFires, .pop 1, .send 1]).started = 1 := by decide
-- the statement's profile (max 1) wins over the session default (max 3)
example : (run ((Submitted.mk true [] (some (some 1)) (some 3)).start none ([] : List Nat) : St Nat Nat)
    [.timerFires, .timerFires, .timerFires]).started = 2 := by decide

-- non-vacuity: with the same policy an idempotent request does get a second execution after a timer tick
example : (run (init true (some 2) none [10, 11, 12] : St Nat Nat) [.pop 0, .send 0, .timerFires, .pop 1, .send 1]).attempts
    = [(1, 11), (0, 10)] := by decide
example : (run (init false (some 2) none [10, 11, 12] : St Nat Nat) [.pop 0, .send 0, .timerFires, .pop 1, .send 1]).attempts
    = [(0, 10)] := by decide

/-! ### 5. bounds -/

/-- At most `1 + max_retry_count` executions are ever started. -/
theorem started_le (idem : Bool) (m : Nat) (dl : Option Nat) (plan : List τ) (evs : List (Event α)) :
    (run (init idem (some m) dl plan : St α τ) evs).started ≤ 1 + m := by
  have hi := run_inv (inv_init idem (some m) dl plan (α := α)) evs
  have := hi.budget
  simp only [Option.getD_some] at this
  omega

/-- … hence at most `1 + max_retry_count` fibers run and (fibers being sequential) at most that many attempts are
on the wire. -/
theorem in_flight_le (idem : Bool) (m : Nat) (dl : Option Nat) (plan : List τ) (evs : List (Event α))
    (hseq : Sequential evs) :
    let s := run (init idem (some m) dl plan : St α τ) evs
    s.attempts.length ≤ s.running.length ∧ s.running.length ≤ s.started ∧ s.started ≤ 1 + m := by
  intro s
  have hi : Inv ((some m).getD 0) plan s := run_inv (inv_init idem (some m) dl plan) evs
  exact ⟨attempts_le_running hi (one_attempt_per_fiber idem (some m) dl plan evs hseq), running_le_started hi,
    started_le idem m dl plan evs⟩

example : (run (init true (some 1) none ([] : List Nat) : St Nat Nat) [.timerFires, .timerFires, .timerFires]).started = 2 := by
  decide

@[simp] private theorem checkDone_started (x : St α τ) : (checkDone x).started = x.started := by
  unfold checkDone; split <;> rfl
@[simp] private theorem checkDone_retries (x : St α τ) : (checkDone x).retriesRemaining = x.retriesRemaining := by
  unfold checkDone; split <;> rfl
@[simp] private theorem checkDone_running (x : St α τ) : (checkDone x).running = x.running := by
  unfold checkDone; split <;> rfl
@[simp] private theorem checkDone_sleepArmed (x : St α τ) : (checkDone x).sleepArmed = x.sleepArmed := by
  unfold checkDone; split <;> rfl
@[simp] private theorem checkDone_lastError (x : St α τ) : (checkDone x).lastError = x.lastError := by
  unfold checkDone; split <;> rfl

private theorem step_no_retries {s : St α τ} (h : s.retriesRemaining = 0) (e : Event α) :
    (step s e).retriesRemaining = 0 ∧ (step s e).started = s.started := by
  unfold step
  cases s.returned with
  | some r => exact ⟨h, rfl⟩
  | none =>
    simp only []
    cases e with
    | timerFires =>
      simp only []
      split
      · exact ⟨h, rfl⟩
      · split
        · omega
        · exact ⟨h, rfl⟩
    | pop i =>
      simp only []
      split
      · exact ⟨h, rfl⟩
      · split <;> exact ⟨h, rfl⟩
    | send i =>
      simp only []
      split
      · exact ⟨h, rfl⟩
      · split <;> exact ⟨h, rfl⟩
    | attemptDone i => exact ⟨h, rfl⟩
    | complete i o =>
      simp only []
      split
      · exact ⟨h, rfl⟩
      · cases o with
        | none => simp
        | some r => simp only []; split <;> simp [h]
    | deadline => simp only []; split <;> exact ⟨h, rfl⟩

private theorem run_no_retries {s : St α τ} (h : s.retriesRemaining = 0) (evs : List (Event α)) :
    (run s evs).retriesRemaining = 0 ∧ (run s evs).started = s.started := by
  induction evs generalizing s with
  | nil => exact ⟨h, rfl⟩
  | cons e es ih =>
    have hs := step_no_retries h e
    have := ih hs.1
    rw [run_cons]; exact ⟨this.1, this.2.trans hs.2⟩

/-- Once a fiber reported the plan exhausted (`None`), no further execution is ever started — whatever
happens afterwards, in any state (reachable or not). -/
theorem no_start_after_exhaustion (s : St α τ) (i : Nat) (hr : s.returned = none) (hi : i ∈ s.running)
    (evs : List (Event α)) :
    (run (step s (.complete i none)) evs).started = s.started := by
  have h0 : (step s (.complete i none)).retriesRemaining = 0 ∧ (step s (.complete i none)).started = s.started := by
    unfold step
    simp [hr, hi]
  exact (run_no_retries h0.1 evs).2.trans h0.2

example : (run (step (initSpec 3 none [] : St Nat Nat) (.complete 0 none)) [.timerFires, .timerFires]).started = 1 := by decide
-- (without the exhaustion the timer does start a second execution)
example : (run (initSpec 3 none [] : St Nat Nat) [.timerFires]).started = 2 := by decide

/-! ### 6. the shared plan -/

/-- `SharedPlan`: what was handed out (oldest first) followed by what is left is the plan — every target is
handed out at most once, in plan order, whichever fibers ask in whichever order. -/
theorem handed_is_plan_prefix (idem : Bool) (pol : Option Nat) (dl : Option Nat) (plan : List τ) (evs : List (Event α)) :
    let s := run (init idem pol dl plan : St α τ) evs
    s.handed.reverse.map (·.2) ++ s.plan = plan :=
  (run_inv (inv_init idem pol dl plan) evs).plan_split

/-- No two executions (indeed no two pops) get the same plan target. -/
theorem distinct_targets (idem : Bool) (pol : Option Nat) (dl : Option Nat) (plan : List τ) (hp : plan.Nodup)
    (evs : List (Event α)) :
    ((run (init idem pol dl plan : St α τ) evs).handed.map (·.2)).Nodup := by
  have h := handed_is_plan_prefix idem pol dl plan evs (α := α)
  simp only at h
  rw [← h, List.nodup_append] at hp
  have := hp.1
  rw [List.map_reverse] at this
  unfold List.Nodup at this ⊢
  rw [List.pairwise_reverse] at this
  exact this.imp (fun h => Ne.symm h)

/-- The same for any notion of "same target" (`f` = what a target really is): if the plan has no two entries that
are the same target, no two pops get the same target. -/
theorem distinct_targets_up_to {β : Type} (f : τ → β) (idem : Bool) (pol : Option Nat) (dl : Option Nat)
    (plan : List τ) (hp : (plan.map f).Nodup) (evs : List (Event α)) :
    (((run (init idem pol dl plan : St α τ) evs).handed.map (·.2)).map f).Nodup := by
  have h := handed_is_plan_prefix idem pol dl plan evs (α := α)
  simp only at h
  rw [← h, List.map_append, List.nodup_append] at hp
  have := hp.1
  rw [List.map_reverse, List.map_reverse] at this
  unfold List.Nodup at this ⊢
  rw [List.pairwise_reverse] at this
  exact this.imp (fun h => Ne.symm h)

/-! #### the plan of a page fetch is duplicate-free (so `plan.Nodup` is not an assumption for paged requests)

`PagingExecutor::fetch_one_page` does not hand the load-balancing plan to the execution core as it is: it puts the
stable coordinator of the previous page in front and filters it out of the load-balancing plan (`pagerPlan`).  The
load-balancing plan names every node at most once (C05: `plan_nodup`, on node ids).  A target is the node for an
unsharded node and (node, shard) for a sharded one (`canonTarget`); a coordinator has no shard iff its node is
unsharded (`Coordinator::shard`, pager.rs:343-347). -/

private theorem canon_fst (sharded : Nat → Bool) (t : PlanTarget) : (canonTarget sharded t).1 = t.1 := rfl

/-- **The plan of a page fetch has no two entries that are the same target** — for a sharded and for an unsharded
coordinator (placeholder shard included), wherever the coordinator is in the load-balancing plan, and without one. -/
theorem pagerPlan_nodup (sharded : Nat → Bool) (coord : Option (Nat × Option Nat)) (lbPlan : List PlanTarget)
    (hlb : (lbPlan.map (·.1)).Nodup)
    (hcoord : ∀ cn cs, coord = some (cn, cs) → (cs = none ↔ sharded cn = false)) :
    ((pagerPlan coord lbPlan).map (canonTarget sharded)).Nodup := by
  have hlbc : ∀ l : List PlanTarget, (l.map (·.1)).Nodup → (l.map (canonTarget sharded)).Nodup := by
    intro l hl
    unfold List.Nodup at hl ⊢
    rw [List.pairwise_map] at hl ⊢
    exact hl.imp (fun hne heq => hne (by rw [← canon_fst sharded, heq, canon_fst]))
  cases coord with
  | none => exact hlbc _ hlb
  | some c =>
    obtain ⟨cn, cs⟩ := c
    have hc := hcoord cn cs rfl
    simp only [pagerPlan, List.map_cons, List.nodup_cons]
    refine ⟨?_, ?_⟩
    · intro hmem
      obtain ⟨t, ht, heq⟩ := List.mem_map.mp hmem
      have hf := (List.mem_filter.mp ht).2
      have hn : t.1 = cn := by
        have := congrArg Prod.fst heq
        simpa [canonTarget] using this
      cases cs with
      | none => simp [hn] at hf
      | some ls =>
        have hsh : sharded cn = true := by
          cases h : sharded cn with
          | true => rfl
          | false => have := hc.mpr h; cases this
        have hs : t.2 = ls := by
          have := congrArg Prod.snd heq
          simpa [canonTarget, hn, hsh] using this
        simp [hn, hs] at hf
    · apply hlbc
      exact hlb.sublist (List.filter_sublist.map _)

/-- The same from the weaker hypothesis that the load-balancing plan has no two entries that are the same TARGET
(what `lbPlan_nodup` below gives for any policy satisfying `PolicyDistinct`, e.g. the single-target policy). -/
theorem pagerPlan_nodup_of_targets (sharded : Nat → Bool) (coord : Option (Nat × Option Nat)) (lbPlan : List PlanTarget)
    (hlb : (lbPlan.map (canonTarget sharded)).Nodup)
    (hcoord : ∀ cn cs, coord = some (cn, cs) → (cs = none ↔ sharded cn = false)) :
    ((pagerPlan coord lbPlan).map (canonTarget sharded)).Nodup := by
  cases coord with
  | none => exact hlb
  | some c =>
    obtain ⟨cn, cs⟩ := c
    have hc := hcoord cn cs rfl
    simp only [pagerPlan, List.map_cons, List.nodup_cons]
    refine ⟨?_, hlb.sublist (List.filter_sublist.map _)⟩
    intro hmem
    obtain ⟨t, ht, heq⟩ := List.mem_map.mp hmem
    have hf := (List.mem_filter.mp ht).2
    have hn : t.1 = cn := by
      have := congrArg Prod.fst heq
      simpa [canonTarget] using this
    cases cs with
    | none => simp [hn] at hf
    | some ls =>
      have hsh : sharded cn = true := by
        cases h : sharded cn with
        | true => rfl
        | false => have := hc.mpr h; cases this
      have hs : t.2 = ls := by
        have := congrArg Prod.snd heq
        simpa [canonTarget, hn, hsh] using this
      simp [hn, hs] at hf

/-- **No two executions of one page fetch use the same target**, with no assumption on the pager's plan: only the
load-balancing plan must name every node at most once (C05). -/
theorem distinct_targets_paged (sharded : Nat → Bool) (coord : Option (Nat × Option Nat)) (lbPlan : List PlanTarget)
    (hlb : (lbPlan.map (·.1)).Nodup)
    (hcoord : ∀ cn cs, coord = some (cn, cs) → (cs = none ↔ sharded cn = false))
    (idem : Bool) (pol : Option Nat) (dl : Option Nat) (evs : List (Event α)) :
    (((run (init idem pol dl (pagerPlan coord lbPlan) : St α PlanTarget) evs).handed.map (·.2)).map
      (canonTarget sharded)).Nodup :=
  distinct_targets_up_to _ idem pol dl _ (pagerPlan_nodup sharded coord lbPlan hlb hcoord) evs

/-- In particular an unsharded coordinator's node is in the plan exactly once (the filter drops every target on it,
whatever shard the load-balancing plan assigned — not just the placeholder shard). -/
theorem pagerPlan_unsharded_coordinator_once (cn : Nat) (lbPlan : List PlanTarget) :
    ((pagerPlan (some (cn, none)) lbPlan).map (·.1)).count cn = 1 := by
  simp only [pagerPlan, List.map_cons, List.count_cons_self]
  have : ((lbPlan.filter fun t => !(t.1 == cn && true)).map (·.1)).count cn = 0 := by
    rw [List.count_eq_zero]
    intro hmem
    obtain ⟨t, ht, heq⟩ := List.mem_map.mp hmem
    have := (List.mem_filter.mp ht).2
    simp [heq] at this
  simpa using this

-- unsharded coordinator 1, which the load-balancing plan names first, as (1, 0): it is not repeated …
example : pagerPlan (some (1, none)) [(1, 0), (2, 0), (3, 0)] = [(1, 2137), (2, 0), (3, 0)] := by decide
-- … (with the filter `(node, shard.unwrap_or(2137)) != target` it would be: [(1, 2137), (1, 0), (2, 0), (3, 0)])
-- sharded coordinator (2, 1): only the equal target is dropped, another shard of the same node is a different target
example : pagerPlan (some (2, some 1)) [(1, 0), (2, 1), (3, 0)] = [(2, 1), (1, 0), (3, 0)] := by decide
example : pagerPlan (some (2, some 1)) [(1, 0), (2, 0), (3, 0)] = [(2, 1), (1, 0), (2, 0), (3, 0)] := by decide

/-! #### `load_balancing::Plan` over an ARBITRARY policy: which hypothesis on the policy makes its plan duplicate-free

`plan.Nodup` is not a fact about every plan: `Plan` (plan.rs) only skips fallback entries EQUAL to the picked one
(node and `Option<Shard>`).  The hypothesis a policy must satisfy is `PolicyDistinct`; it holds for the single-target
policy (below) and for the default policy (C05 `plan_nodup`: every node at most once, see `nodup_targets_of_nodes`). -/

/-- Two entries a policy yields are the same target: same node, and the node is unsharded, or one of them names no
shard (it may be sent to ANY shard of the node), or they name the same shard. -/
def rawSame (sharded : Nat → Bool) (a b : RawTarget) : Prop :=
  a.1 = b.1 ∧ (sharded a.1 = false ∨ a.2 = none ∨ b.2 = none ∨ a.2 = b.2)

/-- **The hypothesis on a load-balancing policy** (exact: `lbRaw_pairwise_iff`).  With the policy's first choice
`policyHead` (the picked entry, or the first fallback entry when `pick` returns `None`) and `policyKept` (the fallback
after it, minus the exact copies of the first choice, which `Plan` skips): the kept fallback names no two entries that
are the same target, and none that is the same target as the first choice. -/
structure PolicyDistinct (sharded : Nat → Bool) (pick : Option RawTarget) (fallback : List RawTarget) : Prop where
  kept_distinct : (policyKept pick fallback).Pairwise (fun a b => ¬ rawSame sharded a b)
  head_distinct : ∀ h, policyHead pick fallback = some h → ∀ f ∈ policyKept pick fallback, ¬ rawSame sharded h f

private theorem lbRaw_eq (pick : Option RawTarget) (fallback : List RawTarget) :
    lbRaw pick fallback = match policyHead pick fallback with
      | none => []
      | some h => h :: policyKept pick fallback := by
  cases pick with
  | some p =>
    simp only [lbRaw, policyHead, policyKept]
    congr 1
  | none =>
    cases fallback with
    | nil => simp [lbRaw, policyHead]
    | cons f rest =>
      simp only [lbRaw, policyHead, policyKept, List.head?_cons, List.tail_cons]
      congr 1

/-- The hypothesis is exactly "the entries `Plan` takes from the policy are pairwise different targets". -/
theorem lbRaw_pairwise_iff (sharded : Nat → Bool) (pick : Option RawTarget) (fallback : List RawTarget) :
    PolicyDistinct sharded pick fallback ↔
      (lbRaw pick fallback).Pairwise (fun a b => ¬ rawSame sharded a b) := by
  rw [lbRaw_eq]
  cases hh : policyHead pick fallback with
  | none =>
    simp only [List.Pairwise.nil, iff_true]
    have hk : policyKept pick fallback = [] := by
      cases pick with
      | some p => simp [policyHead] at hh
      | none =>
        cases fallback with
        | nil => simp [policyKept]
        | cons f rest => simp [policyHead] at hh
    exact ⟨by simp [hk], by intro h hhd; rw [hh] at hhd; cases hhd⟩
  | some h =>
    simp only [List.pairwise_cons]
    constructor
    · intro hp; exact ⟨hp.head_distinct h hh, hp.kept_distinct⟩
    · intro hp
      exact ⟨hp.2, by intro h' hh'; rw [hh] at hh'; cases hh'; exact hp.1⟩

theorem lbRaw_pairwise (sharded : Nat → Bool) (pick : Option RawTarget) (fallback : List RawTarget)
    (h : PolicyDistinct sharded pick fallback) :
    (lbRaw pick fallback).Pairwise (fun a b => ¬ rawSame sharded a b) :=
  (lbRaw_pairwise_iff sharded pick fallback).mp h

theorem rawSameB_iff (sharded : Nat → Bool) (a b : RawTarget) : rawSameB sharded a b = true ↔ rawSame sharded a b := by
  simp only [rawSameB, rawSame, Bool.and_eq_true, Bool.or_eq_true, beq_iff_eq, Bool.not_eq_eq_eq_not, Bool.not_true,
    Option.isNone_iff_eq_none]
  constructor
  · rintro ⟨h1, h2⟩
    refine ⟨h1, ?_⟩
    rcases h2 with ((h | h) | h) | h
    · exact Or.inl h
    · exact Or.inr (Or.inl h)
    · exact Or.inr (Or.inr (Or.inl h))
    · exact Or.inr (Or.inr (Or.inr h))
  · rintro ⟨h1, h2⟩
    refine ⟨h1, ?_⟩
    rcases h2 with h | h | h | h
    · exact Or.inl (Or.inl (Or.inl h))
    · exact Or.inl (Or.inl (Or.inr h))
    · exact Or.inl (Or.inr h)
    · exact Or.inr h

private theorem pairwiseB_iff {β : Type} (r : β → β → Bool) (l : List β) :
    pairwiseB r l = true ↔ l.Pairwise (fun a b => r a b = true) := by
  induction l with
  | nil => simp [pairwiseB]
  | cons x xs ih => simp [pairwiseB, List.pairwise_cons, ih, List.all_eq_true]

/-- The hypothesis is decidable: `policyDistinctB` (what the model driver prints for a scripted policy) decides it. -/
theorem policyDistinctB_iff (sharded : Nat → Bool) (pick : Option RawTarget) (fallback : List RawTarget) :
    policyDistinctB sharded pick fallback = true ↔ PolicyDistinct sharded pick fallback := by
  have hneg : ∀ a b, (!rawSameB sharded a b) = true ↔ ¬ rawSame sharded a b := by
    intro a b
    rw [← rawSameB_iff]; simp
  simp only [policyDistinctB, Bool.and_eq_true, pairwiseB_iff]
  constructor
  · intro h
    refine ⟨h.1.imp (fun hab => (hneg _ _).mp hab), ?_⟩
    intro hd hhd f hf
    rw [hhd] at h
    exact (hneg _ _).mp (List.all_eq_true.mp h.2 f hf)
  · intro h
    refine ⟨h.kept_distinct.imp (fun hab => (hneg _ _).mpr hab), ?_⟩
    cases hhd : policyHead pick fallback with
    | none => rfl
    | some hd =>
      simp only [List.all_eq_true]
      intro f hf
      exact (hneg _ _).mpr (h.head_distinct hd hhd f hf)

private theorem mem_resolveAll (raw : List RawTarget) (ρ : List Nat) (x : Nat × Nat) (h : x ∈ resolveAll raw ρ) :
    ∃ e ∈ raw, e.1 = x.1 ∧ ∀ s, e.2 = some s → s = x.2 := by
  induction raw generalizing ρ with
  | nil => simp [resolveAll] at h
  | cons e rest ih =>
    obtain ⟨n, os⟩ := e
    cases os with
    | some s =>
      simp only [resolveAll, List.mem_cons] at h
      rcases h with h | h
      · exact ⟨(n, some s), by simp, by simp [h], by intro s' hs'; simp at hs'; simp [h, ← hs']⟩
      · obtain ⟨e, he, h1, h2⟩ := ih ρ h
        exact ⟨e, List.mem_cons_of_mem _ he, h1, h2⟩
    | none =>
      cases ρ with
      | nil =>
        simp only [resolveAll, List.mem_cons] at h
        rcases h with h | h
        · exact ⟨(n, none), by simp, by simp [h], by intro s' hs'; simp at hs'⟩
        · obtain ⟨e, he, h1, h2⟩ := ih [] h
          exact ⟨e, List.mem_cons_of_mem _ he, h1, h2⟩
      | cons r ρ' =>
        simp only [resolveAll, List.mem_cons] at h
        rcases h with h | h
        · exact ⟨(n, none), by simp, by simp [h], by intro s' hs'; simp at hs'⟩
        · obtain ⟨e, he, h1, h2⟩ := ih ρ' h
          exact ⟨e, List.mem_cons_of_mem _ he, h1, h2⟩

private theorem resolved_head_fresh (sharded : Nat → Bool) (n : Nat) (os : Option Nat) (sh : Nat)
    (hsh : ∀ s, os = some s → s = sh) (rest : List RawTarget) (ρ : List Nat)
    (hd : ∀ e ∈ rest, ¬ rawSame sharded (n, os) e) :
    canonTarget sharded (n, sh) ∉ (resolveAll rest ρ).map (canonTarget sharded) := by
  intro hmem
  obtain ⟨x, hx, heq⟩ := List.mem_map.mp hmem
  obtain ⟨e, he, h1, h2⟩ := mem_resolveAll rest ρ x hx
  apply hd e he
  have hn : x.1 = n := by
    have := congrArg Prod.fst heq
    simpa [canonTarget] using this
  refine ⟨by simp [h1, hn], ?_⟩
  by_cases hs0 : sharded n = false
  · exact Or.inl hs0
  · have hs : sharded n = true := by simpa using hs0
    right
    cases os with
    | none => exact Or.inl rfl
    | some s =>
      right
      cases hes : e.2 with
      | none => exact Or.inl rfl
      | some s' =>
        right
        have h3 := h2 s' hes
        have h4 := hsh s rfl
        have := congrArg Prod.snd heq
        simp only [canonTarget, hn, hs, ↓reduceIte] at this
        simp [h3, h4, this]

/-- Whatever shards are drawn for the shard-less entries, a plan whose raw entries are pairwise different targets is
duplicate-free as a list of targets. -/
theorem resolved_nodup (sharded : Nat → Bool) (raw : List RawTarget) (ρ : List Nat)
    (h : raw.Pairwise (fun a b => ¬ rawSame sharded a b)) :
    ((resolveAll raw ρ).map (canonTarget sharded)).Nodup := by
  induction raw generalizing ρ with
  | nil => simp [resolveAll]
  | cons e rest ih =>
    obtain ⟨n, os⟩ := e
    simp only [List.pairwise_cons] at h
    cases os with
    | some s =>
      simp only [resolveAll, List.map_cons, List.nodup_cons]
      exact ⟨resolved_head_fresh sharded n (some s) s (by intro s' h'; simpa using h'.symm) rest ρ h.1, ih ρ h.2⟩
    | none =>
      cases ρ with
      | nil =>
        simp only [resolveAll, List.map_cons, List.nodup_cons]
        exact ⟨resolved_head_fresh sharded n none 0 (by intro s' h'; cases h') rest [] h.1, ih [] h.2⟩
      | cons r ρ' =>
        simp only [resolveAll, List.map_cons, List.nodup_cons]
        exact ⟨resolved_head_fresh sharded n none r (by intro s' h'; cases h') rest ρ' h.1, ih ρ' h.2⟩

/-- **The plan of a policy satisfying `PolicyDistinct` has no two entries that are the same target** (for every
random shard assignment). -/
theorem lbPlan_nodup (sharded : Nat → Bool) (pick : Option RawTarget) (fallback : List RawTarget) (ρ : List Nat)
    (h : PolicyDistinct sharded pick fallback) :
    ((resolveAll (lbRaw pick fallback) ρ).map (canonTarget sharded)).Nodup :=
  resolved_nodup sharded _ ρ (lbRaw_pairwise sharded pick fallback h)

/-- The single-target policy satisfies the hypothesis (its fallback is empty) … -/
theorem singleTarget_distinct (sharded : Nat → Bool) (found : Bool) (node : Nat) (shard : Option Nat) :
    PolicyDistinct sharded (singleTargetPick found node shard) singleTargetFallback :=
  ⟨by cases found <;> simp [policyKept, singleTargetFallback, singleTargetPick],
   by intro p _ f hf; cases found <;> simp [policyKept, singleTargetFallback, singleTargetPick] at hf⟩

/-- … its plan is the one configured target, or empty when the node is unknown … -/
theorem singleTarget_plan (found : Bool) (node : Nat) (shard : Option Nat) :
    lbRaw (singleTargetPick found node shard) singleTargetFallback = if found then [(node, shard)] else [] := by
  cases found <;> simp [lbRaw, singleTargetPick, singleTargetFallback]

/-- … so a request routed by it (paged or not) never has two executions on the same RESOLVED target (`canonTarget`:
node, and shard on a sharded node).  For an unpaged request and for the first page the plan is that one target, so the
second execution finds the plan exhausted; the same holds on later pages when the coordinator is filtered out of the
load-balancing plan (`singleTarget_paged_plan_one`).  It does NOT hold for a shard-less single target on a SHARDED node
on pages ≥ 1: the stable coordinator `(n, its shard)` is followed by `(n, freshly drawn shard)`, which the pager's filter
keeps unless the two shards coincide — two different resolved targets on one node (`singleTarget_paged_shardless_two`).
That is the difference between the two notions: `rawSame` judges what a POLICY yields, before shards are drawn (a
shard-less entry may land on any shard, so the policy must not name the node again); `canonTarget` judges resolved
plan entries, where a shard-less entry has become one concrete shard, and the pager compares resolved entries. -/
theorem distinct_targets_single_target (sharded : Nat → Bool) (found : Bool) (node : Nat) (shard : Option Nat)
    (ρ : List Nat) (coord : Option (Nat × Option Nat))
    (hcoord : ∀ cn cs, coord = some (cn, cs) → (cs = none ↔ sharded cn = false))
    (idem : Bool) (pol : Option Nat) (dl : Option Nat) (evs : List (Event α)) :
    (((run (init idem pol dl
        (pagerPlan coord (resolveAll (lbRaw (singleTargetPick found node shard) singleTargetFallback) ρ)) :
          St α PlanTarget) evs).handed.map (·.2)).map (canonTarget sharded)).Nodup :=
  distinct_targets_up_to _ idem pol dl _
    (pagerPlan_nodup_of_targets sharded coord _
      (lbPlan_nodup sharded _ _ ρ (singleTarget_distinct sharded found node shard)) hcoord) evs

/-- On later pages the single-target plan is still one target when the configured shard is the coordinator's, or the
coordinator is unsharded. -/
theorem singleTarget_paged_plan_one (node : Nat) (s : Nat) (cs : Option Nat) (h : cs = none ∨ cs = some s) :
    pagerPlan (some (node, cs)) [(node, s)] = [(node, cs.getD 2137)] := by
  rcases h with rfl | rfl <;> simp [pagerPlan]

/-- … and is two targets on one node when the freshly drawn shard differs from the coordinator's. -/
theorem singleTarget_paged_shardless_two (node cs r : Nat) (h : cs ≠ r) :
    pagerPlan (some (node, some cs)) (resolveAll [(node, none)] [r]) = [(node, cs), (node, r)] := by
  simp [pagerPlan, resolveAll, h]

example : pagerPlan (some (5, some 1)) [(5, 0)] = [(5, 1), (5, 0)] := by decide

/-- For any policy satisfying the hypothesis, paged (`coord`) or not (`coord = none`). -/
theorem distinct_targets_of_policy (sharded : Nat → Bool) (pick : Option RawTarget) (fallback : List RawTarget)
    (ρ : List Nat) (h : PolicyDistinct sharded pick fallback) (coord : Option (Nat × Option Nat))
    (hcoord : ∀ cn cs, coord = some (cn, cs) → (cs = none ↔ sharded cn = false))
    (idem : Bool) (pol : Option Nat) (dl : Option Nat) (evs : List (Event α)) :
    (((run (init idem pol dl (pagerPlan coord (resolveAll (lbRaw pick fallback) ρ)) : St α PlanTarget) evs).handed.map
      (·.2)).map (canonTarget sharded)).Nodup :=
  distinct_targets_up_to _ idem pol dl _
    (pagerPlan_nodup_of_targets sharded coord _ (lbPlan_nodup sharded pick fallback ρ h) hcoord) evs

/-- The default policy names every node at most once (C05 `plan_nodup`); that is (more than) target-distinctness. -/
theorem nodup_targets_of_nodes (sharded : Nat → Bool) (l : List PlanTarget) (hl : (l.map (·.1)).Nodup) :
    (l.map (canonTarget sharded)).Nodup := by
  unfold List.Nodup at hl ⊢
  rw [List.pairwise_map] at hl ⊢
  exact hl.imp (fun hne heq => hne (by rw [← canon_fst sharded, heq, canon_fst]))

-- the hypothesis is needed, and exact equality is not enough: a fallback that re-emits the picked node without a
-- shard is not filtered by `Plan` (the entries differ as values) and puts the node into the plan twice
example : lbRaw (some (5, some 1)) [(5, none)] = [(5, some 1), (5, none)] := by decide
example : resolveAll (lbRaw (some (5, some 1)) [(5, none)]) [1] = [(5, 1), (5, 1)] := by decide
example : ¬ PolicyDistinct (fun _ => true) (some (5, some 1)) [(5, none)] := by
  intro h
  exact h.head_distinct (5, some 1) rfl (5, none) (by decide) ⟨rfl, Or.inr (Or.inr (Or.inl rfl))⟩
-- an exact copy of the picked entry is skipped
example : lbRaw (some (5, some 1)) [(5, some 1), (6, none)] = [(5, some 1), (6, none)] := by decide

private theorem inj_of_nodup_map {β γ : Type} (f : β → γ) :
    ∀ {l : List β}, (l.map f).Nodup → ∀ a ∈ l, ∀ b ∈ l, f a = f b → a = b
  | [], _, _, ha, _, _, _ => by simp at ha
  | x :: xs, h, a, ha, b, hb, hab => by
    simp only [List.map_cons, List.nodup_cons, List.mem_map, not_exists, not_and] at h
    simp only [List.mem_cons] at ha hb
    rcases ha with rfl | ha <;> rcases hb with rfl | hb
    · rfl
    · exact absurd hab.symm (h.1 b hb)
    · exact absurd hab (h.1 a ha)
    · exact inj_of_nodup_map f h.2 a ha b hb hab

/-- The attempts on the wire at any moment are on pairwise distinct targets (and, fibers being sequential, belong
to pairwise distinct fibers): two executions never talk to the same plan target. -/
theorem outstanding_attempts_distinct (idem : Bool) (pol : Option Nat) (dl : Option Nat) (plan : List τ) (hp : plan.Nodup)
    (evs : List (Event α)) (hseq : Sequential evs) :
    let s := run (init idem pol dl plan : St α τ) evs
    (s.attempts.map (·.1)).Nodup ∧ (s.attempts.map (·.2)).Nodup := by
  intro s
  have hi : Inv (pol.getD 0) plan s := run_inv (inv_init idem pol dl plan) evs
  have hd : (s.handed.map (·.2)).Nodup := distinct_targets idem pol dl plan hp evs
  have h1 : (s.attempts.map (·.1)).Nodup := one_attempt_per_fiber idem pol dl plan evs hseq
  refine ⟨h1, ?_⟩
  unfold List.Nodup at h1 ⊢
  rw [List.pairwise_map] at h1 ⊢
  refine h1.imp_of_mem ?_
  intro a b ha hb hne heq
  have := inj_of_nodup_map (·.2) hd a (hi.attempts_handed a ha).1 b (hi.attempts_handed b hb).1 heq
  exact hne (by rw [this])

example : (run (init true (some 2) none [10, 11, 12] : St Nat Nat)
    [.pop 0, .timerFires, .pop 1, .pop 0, .timerFires, .pop 2, .pop 1]).handed = [(0, 12), (1, 11), (0, 10)] := by decide

/-! ### 7. the returned value -/

/-- "is a real answer": a success or a definitive error. -/
def real (r : Res α) : Bool := !canBeIgnored r

/-- `s` returned by exhaustion: the value is the last error (`EmptyPlan` if none), every started execution has
finished and none may still be started. -/
def ReturnedByExhaustion (s : St α τ) : Prop :=
  ∀ r, s.returned = some r →
    r = s.lastError.getD (.err .emptyPlan) ∧ s.running = [] ∧ s.retriesRemaining = 0

private theorem consumed_of_returned {s : St α τ} {r : Res α} (h : s.returned = some r) (evs : List (Event α)) :
    consumed s evs = [] := by
  induction evs with
  | nil => rfl
  | cons e es ih =>
    simp only [consumed, step_of_returned h, ih, List.append_nil]
    cases e with
    | complete i o => cases o <;> simp [consumedBy, h]
    | _ => simp [consumedBy]

private theorem checkDone_exhaustion (x : St α τ) (hx : x.returned = none) :
    ReturnedByExhaustion (checkDone x) := by
  intro r hr
  unfold checkDone at hr ⊢
  split at hr
  · rename_i hc
    simp only [hc, ↓reduceIte]
    simp only [Bool.and_eq_true, List.isEmpty_iff, beq_iff_eq] at hc
    simp only [Option.some.injEq] at hr
    exact ⟨hr.symm, hc.1, hc.2⟩
  · rw [hx] at hr; cases hr

/-- What one event does to (`returned`, `lastError`), case by case. -/
private theorem step_result {s : St α τ} (hr : s.returned = none) (e : Event α) (hd : deadlineBy s e = false) :
    match consumedBy s e with
    | some r => if real r then (step s e).returned = some r
                else (step s e).lastError = some r ∧ ReturnedByExhaustion (step s e)
    | none => (step s e).lastError = s.lastError ∧ ReturnedByExhaustion (step s e) := by
  have hnone : ReturnedByExhaustion s := by intro r h; rw [hr] at h; cases h
  cases e with
  | timerFires =>
    simp only [consumedBy]
    unfold step
    simp only [hr]
    split
    · exact ⟨rfl, hnone⟩
    · split
      · exact ⟨rfl, by intro r h; cases h⟩
      · exact ⟨rfl, by intro r h; cases h⟩
  | pop i =>
    simp only [consumedBy]
    unfold step
    simp only [hr]
    split
    · exact ⟨rfl, hnone⟩
    · split
      · exact ⟨rfl, hnone⟩
      · exact ⟨rfl, by intro r h; cases h⟩
  | send i =>
    simp only [consumedBy]
    unfold step
    simp only [hr]
    split
    · exact ⟨rfl, hnone⟩
    · split
      · exact ⟨rfl, hnone⟩
      · exact ⟨rfl, by intro r h; cases h⟩
  | attemptDone i =>
    simp only [consumedBy]
    unfold step
    simp only [hr]
    exact ⟨trivial, by intro r h; cases h⟩
  | deadline =>
    simp only [deadlineBy, hr, Option.isNone_none, Bool.true_and, Option.isSome_eq_false_iff, Option.isNone_iff_eq_none] at hd
    simp only [consumedBy]
    unfold step
    simp only [hr, hd]
    exact ⟨trivial, hnone⟩
  | complete i o =>
    cases o with
    | none =>
      simp only [consumedBy]
      unfold step
      simp only [hr]
      split
      · exact ⟨rfl, hnone⟩
      · exact ⟨by simp, checkDone_exhaustion _ rfl⟩
    | some r =>
      simp only [consumedBy, hr, Option.isNone_none, Bool.true_and]
      by_cases hm : s.running.contains i = true
      · simp only [hm, ↓reduceIte]
        unfold step
        simp only [hr, hm, Bool.not_true, Bool.false_eq_true, ↓reduceIte, real]
        by_cases hc : canBeIgnored r = true
        · simp only [hc, Bool.not_true, Bool.false_eq_true, ↓reduceIte]
          exact ⟨by simp, checkDone_exhaustion _ rfl⟩
        · simp only [Bool.not_eq_true] at hc
          simp [hc]
      · simp only [hm, Bool.false_eq_true, ↓reduceIte]
        unfold step
        simp only [hr]
        simp only [Bool.not_eq_true] at hm
        simp only [hm, Bool.not_false, ↓reduceIte]
        exact ⟨trivial, hnone⟩

@[simp] private theorem checkDone_deadlineMs (x : St α τ) : (checkDone x).deadlineMs = x.deadlineMs := by
  unfold checkDone; split <;> rfl

private theorem step_deadlineMs (s : St α τ) (e : Event α) : (step s e).deadlineMs = s.deadlineMs := by
  unfold step
  cases s.returned with
  | some r => rfl
  | none =>
    simp only []
    cases e with
    | timerFires =>
      simp only []
      split
      · rfl
      · split <;> rfl
    | pop i =>
      simp only []
      split
      · rfl
      · split <;> rfl
    | send i =>
      simp only []
      split
      · rfl
      · split <;> rfl
    | attemptDone i => rfl
    | complete i o =>
      simp only []
      split
      · rfl
      · cases o with
        | none => simp
        | some r => simp only []; split <;> simp
    | deadline => simp only []; split <;> rfl

private theorem run_deadlineMs (s : St α τ) (evs : List (Event α)) : (run s evs).deadlineMs = s.deadlineMs := by
  induction evs generalizing s with
  | nil => rfl
  | cons e es ih => rw [run_cons, ih, step_deadlineMs]

private theorem deadlineHit_of_returned {s : St α τ} {r : Res α} (h : s.returned = some r) (evs : List (Event α)) :
    deadlineHit s evs = false := by
  induction evs with
  | nil => rfl
  | cons e es ih =>
    simp only [deadlineHit, step_of_returned h, ih, Bool.or_false]
    cases e <;> simp [deadlineBy, h]

/-- The complete description of the result of the call, for every state that has not returned and every schedule:
with `T` = the results consumed in schedule order,
* if the client-side timeout took effect, the call returned `RequestTimeout` (and no real answer had been consumed);
* otherwise, if `T` contains a real answer, the call returned the FIRST one;
* otherwise `last_error` is the last element of `T` (or what it was before), and if the call returned, it
  returned by exhaustion. -/
theorem result_spec (s : St α τ) (hr : s.returned = none) (evs : List (Event α)) :
    if deadlineHit s evs then
      (∃ ms, s.deadlineMs = some ms ∧ (run s evs).returned = some (.err (.requestTimeout ms))) ∧
      (consumed s evs).find? real = none
    else
      match (consumed s evs).find? real with
      | some r => (run s evs).returned = some r
      | none => (run s evs).lastError = ((consumed s evs).getLast?.or s.lastError) ∧
                ReturnedByExhaustion (run s evs) := by
  induction evs generalizing s with
  | nil =>
    simp only [deadlineHit, Bool.false_eq_true, ↓reduceIte, consumed, List.find?_nil, run_nil, List.getLast?_nil,
      Option.none_or, true_and]
    intro r h; rw [hr] at h; cases h
  | cons e es ih =>
    rw [run_cons]
    simp only [consumed, deadlineHit]
    by_cases hd : deadlineBy s e = true
    · -- the timeout takes effect now
      have he : e = .deadline := by
        cases e <;> simp [deadlineBy] at hd ⊢
      subst he
      simp only [deadlineBy, hr, Option.isNone_none, Bool.true_and] at hd
      obtain ⟨ms, hms⟩ := Option.isSome_iff_exists.mp hd
      have hret : (step s .deadline).returned = some (.err (.requestTimeout ms)) := by
        unfold step; simp [hr, hms]
      simp only [deadlineBy, hr, hd, Option.isNone_none, Bool.and_self, Bool.true_or, ↓reduceIte, consumedBy,
        Option.toList_none, List.nil_append]
      rw [consumed_of_returned hret, run_of_returned hret]
      exact ⟨⟨ms, hms, hret⟩, rfl⟩
    · simp only [Bool.not_eq_true] at hd
      have hs := step_result hr e hd
      simp only [hd, Bool.false_or]
      cases hret : (step s e).returned with
      | some r1 =>
        rw [consumed_of_returned hret, run_of_returned hret, List.append_nil, deadlineHit_of_returned hret]
        simp only [Bool.false_eq_true, ↓reduceIte]
        cases hc : consumedBy s e with
        | some r =>
          simp only [hc] at hs
          by_cases hreal : real r = true
          · simp only [hreal, ↓reduceIte] at hs
            simp [hreal, hs]
          · simp only [hreal, Bool.false_eq_true, ↓reduceIte] at hs
            simp [hreal, hs]
        | none =>
          simp only [hc] at hs
          simpa using hs
      | none =>
        have ih' := ih (step s e) hret
        -- what this event contributed to `T` is ignorable (the call has not returned)
        have hign : (consumedBy s e).toList.find? real = none ∧
            (step s e).lastError = ((consumedBy s e).toList.getLast?.or s.lastError) := by
          cases hc : consumedBy s e with
          | some r =>
            simp only [hc] at hs
            by_cases hreal : real r = true
            · simp only [hreal, ↓reduceIte] at hs
              rw [hs] at hret; cases hret
            · simp only [hreal, Bool.false_eq_true, ↓reduceIte] at hs
              simp [hreal, hs.1]
          | none =>
            simp only [hc] at hs
            simp [hs.1]
        by_cases hdl : deadlineHit (step s e) es = true
        · simp only [hdl, ↓reduceIte, step_deadlineMs] at ih' ⊢
          refine ⟨ih'.1, ?_⟩
          rw [List.find?_append, hign.1, ih'.2]; rfl
        · simp only [hdl, Bool.false_eq_true, ↓reduceIte] at ih' ⊢
          rw [List.find?_append, hign.1, Option.none_or]
          cases hf : (consumed (step s e) es).find? real with
          | some r2 => simpa [hf] using ih'
          | none =>
            simp only [hf] at ih' ⊢
            refine ⟨?_, ih'.2⟩
            rw [ih'.1, hign.2, List.getLast?_append]
            cases (consumed (step s e) es).getLast? <;> simp

private theorem init_returned (idem : Bool) (pol : Option Nat) (dl : Option Nat) (plan : List τ) :
    (init idem pol dl plan : St α τ).returned = none ∧ (init idem pol dl plan : St α τ).lastError = none ∧
    (init idem pol dl plan : St α τ).deadlineMs = dl := by
  unfold init
  cases pol with
  | none => exact ⟨rfl, rfl, rfl⟩
  | some m => cases idem <;> exact ⟨rfl, rfl, rfl⟩

/-- **First real answer wins**: if, in schedule order, some consumed result is a success or a definitive error,
the call returns the first such result (for every policy, plan, timeout and schedule, speculative or not) — the
client-side timeout cannot pre-empt an answer that was already consumed, and does not fire afterwards. -/
theorem first_real_answer_wins (idem : Bool) (pol : Option Nat) (dl : Option Nat) (plan : List τ) (evs : List (Event α))
    (r : Res α) (h : (consumed (init idem pol dl plan : St α τ) evs).find? real = some r) :
    (run (init idem pol dl plan : St α τ) evs).returned = some r := by
  have := result_spec _ (init_returned idem pol dl plan).1 evs
  by_cases hd : deadlineHit (init idem pol dl plan : St α τ) evs = true
  · simp only [hd, ↓reduceIte] at this
    rw [this.2] at h; cases h
  · simp only [hd, Bool.false_eq_true, ↓reduceIte, h] at this
    exact this

/-- **Otherwise the last error**: if every consumed result was ignorable, the timeout did not take effect and the
call returned, it returned the last of them (`EmptyPlan` if there was none), and it did so only when every started
execution had finished (`running = []`) and none could still be started (`retriesRemaining = 0`). -/
theorem otherwise_last_error (idem : Bool) (pol : Option Nat) (dl : Option Nat) (plan : List τ) (evs : List (Event α))
    (hd : deadlineHit (init idem pol dl plan : St α τ) evs = false)
    (h : (consumed (init idem pol dl plan : St α τ) evs).find? real = none)
    (r : Res α) (hr : (run (init idem pol dl plan : St α τ) evs).returned = some r) :
    r = (consumed (init idem pol dl plan : St α τ) evs).getLast?.getD (.err .emptyPlan) ∧
    (run (init idem pol dl plan : St α τ) evs).running = [] ∧
    (run (init idem pol dl plan : St α τ) evs).retriesRemaining = 0 := by
  have := result_spec _ (init_returned idem pol dl plan (α := α)).1 evs
  simp only [hd, Bool.false_eq_true, ↓reduceIte, h] at this
  obtain ⟨hl, hx⟩ := this
  have := hx r hr
  rw [hl, (init_returned idem pol dl plan).2.1, Option.or_none] at this
  exact this

/-- **The client-side timeout** (`execution.rs:486-499`): if it takes effect, the call returns `RequestTimeout`, and
it can only take effect while no real answer has been consumed. -/
theorem timeout_at_deadline (idem : Bool) (pol : Option Nat) (dl : Option Nat) (plan : List τ) (evs : List (Event α))
    (hd : deadlineHit (init idem pol dl plan : St α τ) evs = true) :
    (∃ ms, dl = some ms ∧ (run (init idem pol dl plan : St α τ) evs).returned = some (.err (.requestTimeout ms))) ∧
    (consumed (init idem pol dl plan : St α τ) evs).find? real = none := by
  have := result_spec _ (init_returned idem pol dl plan (α := α)).1 evs
  simpa [hd, (init_returned idem pol dl plan (α := α)).2.2] using this

private theorem deadlineHit_false_of_no_deadline (s : St α τ) (h : s.deadlineMs = none) (evs : List (Event α)) :
    deadlineHit s evs = false := by
  induction evs generalizing s with
  | nil => rfl
  | cons e es ih =>
    simp only [deadlineHit, ih (step s e) (by rw [step_deadlineMs, h]), Bool.or_false]
    cases e <;> simp [deadlineBy, h]

/-- Without a configured `request_timeout` the deadline never takes effect. -/
theorem no_timeout_without_deadline (idem : Bool) (pol : Option Nat) (plan : List τ) (evs : List (Event α)) :
    deadlineHit (init idem pol none plan : St α τ) evs = false :=
  deadlineHit_false_of_no_deadline _ (init_returned idem pol none plan).2.2 evs

/-- With a configured `request_timeout` the call has returned once the deadline passed, whatever the fibers do
(no fairness needed): every schedule that contains the `deadline` event has returned after it. -/
theorem deadline_forces_return (idem : Bool) (pol : Option Nat) (ms : Nat) (plan : List τ) (evs₁ evs₂ : List (Event α)) :
    (run (init idem pol (some ms) plan : St α τ) (evs₁ ++ .deadline :: evs₂)).returned ≠ none := by
  rw [run_append, run_cons]
  have hdl : (run (init idem pol (some ms) plan : St α τ) evs₁).deadlineMs = some ms := by
    rw [run_deadlineMs]; exact (init_returned idem pol (some ms) plan).2.2
  cases hr : (run (init idem pol (some ms) plan : St α τ) evs₁).returned with
  | some r =>
    rw [step_of_returned hr, returned_stable hr]; simp
  | none =>
    have : (step (run (init idem pol (some ms) plan : St α τ) evs₁) .deadline).returned
        = some (.err (.requestTimeout ms)) := by
      unfold step; simp [hr, hdl]
    rw [returned_stable this]; simp

/-- … and conversely the call does not linger: as soon as nothing runs and nothing may be started, it has returned. -/
theorem returns_when_exhausted (idem : Bool) (pol : Option Nat) (dl : Option Nat) (plan : List τ) (evs : List (Event α))
    (h1 : (run (init idem pol dl plan : St α τ) evs).running = [])
    (h2 : (run (init idem pol dl plan : St α τ) evs).retriesRemaining = 0) :
    (run (init idem pol dl plan : St α τ) evs).returned ≠ none := by
  intro hn
  have hi : Inv (pol.getD 0) plan (run (init idem pol dl plan : St α τ) evs) := run_inv (inv_init idem pol dl plan) evs
  rcases hi.live hn with h | h
  · exact h h1
  · omega

/-- **What the user-visible call returns** (`run_request_no_side_effects`: the runner under the optional client-side
timeout).  Every returned value is exactly one of:
* the first real answer (success or definitive error) consumed, the timeout not having taken effect;
* the last (ignorable) error — `EmptyPlan` if there was none — after every started execution finished and none may
  still be started, the timeout not having taken effect;
* `RequestTimeout`, the timeout having taken effect at the deadline before any real answer was consumed. -/
theorem result_characterisation (idem : Bool) (pol : Option Nat) (dl : Option Nat) (plan : List τ) (evs : List (Event α))
    (r : Res α) (hr : (run (init idem pol dl plan : St α τ) evs).returned = some r) :
    (deadlineHit (init idem pol dl plan : St α τ) evs = false ∧
      (consumed (init idem pol dl plan : St α τ) evs).find? real = some r) ∨
    (deadlineHit (init idem pol dl plan : St α τ) evs = false ∧
      (consumed (init idem pol dl plan : St α τ) evs).find? real = none ∧
      r = (consumed (init idem pol dl plan : St α τ) evs).getLast?.getD (.err .emptyPlan) ∧
      (run (init idem pol dl plan : St α τ) evs).running = [] ∧
      (run (init idem pol dl plan : St α τ) evs).retriesRemaining = 0) ∨
    (deadlineHit (init idem pol dl plan : St α τ) evs = true ∧ (∃ ms, dl = some ms ∧ r = .err (.requestTimeout ms)) ∧
      (consumed (init idem pol dl plan : St α τ) evs).find? real = none) := by
  cases hd : deadlineHit (init idem pol dl plan : St α τ) evs with
  | true =>
    right; right
    have := timeout_at_deadline idem pol dl plan evs hd
    rw [hr] at this
    obtain ⟨⟨ms, h1, h2⟩, h3⟩ := this
    exact ⟨rfl, ⟨ms, h1, Option.some.inj h2⟩, h3⟩
  | false =>
    cases hf : (consumed (init idem pol dl plan : St α τ) evs).find? real with
    | some r' =>
      left
      have := first_real_answer_wins idem pol dl plan evs r' hf
      rw [hr] at this
      exact ⟨rfl, by rw [Option.some.inj this]⟩
    | none => exact Or.inr (Or.inl ⟨rfl, rfl, otherwise_last_error idem pol dl plan evs hd hf r hr⟩)

-- non-vacuity: fiber 0 fails with an ignorable error, fiber 1 (started by the timer) answers, fiber 2 is too late
example : let evs : List (Event Nat) := [.timerFires, .complete 0 (some (.err (.connectionPoolError .initializing))), .timerFires,
                 .complete 1 (some (.ok 7)), .complete 2 (some (.ok 9))]
    consumed (initSpec 2 none ([] : List Nat) : St Nat Nat) evs = [.err (.connectionPoolError .initializing), .ok 7] ∧
    (run (initSpec 2 none ([] : List Nat) : St Nat Nat) evs).returned = some (.ok 7) := by decide
-- all ignorable: the last error is returned once everything finished and the budget is used up
example : let evs : List (Event Nat) := [.timerFires, .complete 1 (some (.err (.connectionPoolError .initializing))),
                 .complete 0 (some (.err (.lastAttemptError .unableToAllocStreamId)))]
    (run (initSpec 1 none ([] : List Nat) : St Nat Nat) evs).returned = some (.err (.lastAttemptError .unableToAllocStreamId)) := by
  decide
example : (run (initSpec 1 none ([] : List Nat) : St Nat Nat) [.complete 0 none]).returned = some (.err .emptyPlan) := by decide
-- the timeout pre-empts a pending speculative race, but not an answer that was already consumed
example : let evs : List (Event Nat) := [.timerFires, .complete 0 (some (.err (.connectionPoolError .initializing))), .deadline,
                 .complete 1 (some (.ok 7))]
    deadlineHit (initSpec 2 (some 50) ([] : List Nat) : St Nat Nat) evs = true ∧
    (run (initSpec 2 (some 50) ([] : List Nat) : St Nat Nat) evs).returned = some (.err (.requestTimeout 50)) := by decide
example : let evs : List (Event Nat) := [.timerFires, .complete 1 (some (.ok 7)), .deadline]
    deadlineHit (initSpec 2 (some 50) ([] : List Nat) : St Nat Nat) evs = false ∧
    (run (initSpec 2 (some 50) ([] : List Nat) : St Nat Nat) evs).returned = some (.ok 7) := by decide

/-! ### 8. it always returns; it cannot wait on nothing -/

/-- **It cannot wait on nothing**: in every reachable state that has not returned, a fiber is running or the timer
is armed *and* will start a new execution when it fires.  In particular the state in which both `select!`
branches are disabled (`async_tasks` empty and the fused sleep terminated — `select!` would panic with "all
futures completed") and the state with only a useless timer (armed, `retries_remaining = 0`, nothing running)
are unreachable.  The supporting facts (part of `Inv`): the sleep only terminates when it fires with
`retries_remaining = 0`, `retries_remaining` never grows, and `async_tasks` only becomes empty inside the
completion branch, which returns when `retries_remaining = 0`. -/
theorem never_waits_on_nothing (idem : Bool) (pol : Option Nat) (dl : Option Nat) (plan : List τ) (evs : List (Event α))
    (h : (run (init idem pol dl plan : St α τ) evs).returned = none) :
    (run (init idem pol dl plan : St α τ) evs).running ≠ [] ∨
    ((run (init idem pol dl plan : St α τ) evs).sleepArmed = true ∧
      0 < (run (init idem pol dl plan : St α τ) evs).retriesRemaining) :=
  (run_inv (inv_init idem pol dl plan) evs).live h

/-- … hence some `select!` branch can always be taken (the hypothesis of `always_returns` is satisfiable in
every reachable state). -/
theorem some_branch_enabled (idem : Bool) (pol : Option Nat) (dl : Option Nat) (plan : List τ) (evs : List (Event α))
    (h : (run (init idem pol dl plan : St α τ) evs).returned = none) :
    ∃ e, coreEnabled (run (init idem pol dl plan : St α τ) evs) e = true := by
  rcases never_waits_on_nothing idem pol dl plan evs h with hr | ha
  · cases hl : (run (init idem pol dl plan : St α τ) evs).running with
    | nil => exact absurd hl hr
    | cons i rest => exact ⟨.complete i none, by simp [coreEnabled, h, hl]⟩
  · exact ⟨.timerFires, by simp [coreEnabled, h, ha.1]⟩

private theorem budgetMeasure_returned {s : St α τ} {r : Res α} (h : s.returned = some r) : budgetMeasure s = 0 := by
  simp [budgetMeasure, h]

private theorem budgetMeasure_checkDone_le (x : St α τ) (_hx : x.returned = none) : budgetMeasure (checkDone x) ≤ budgetMeasure x := by
  unfold checkDone
  split
  · simp [budgetMeasure]
  · exact Nat.le_refl _

/-- No event increases the budgetMeasure. -/
theorem budgetMeasure_step_le (s : St α τ) (e : Event α) : budgetMeasure (step s e) ≤ budgetMeasure s := by
  cases hr : s.returned with
  | some r => rw [step_of_returned hr]; exact Nat.le_refl _
  | none =>
    unfold step
    simp only [hr]
    cases e with
    | timerFires =>
      simp only []
      split
      · exact Nat.le_refl _
      · rename_i ha
        split
        · simp only [budgetMeasure, hr, List.length_append, List.length_singleton]; omega
        · simp only [budgetMeasure, hr]; simp
    | pop i =>
      simp only []
      split
      · exact Nat.le_refl _
      · split
        · exact Nat.le_refl _
        · simp [budgetMeasure, hr]
    | send i =>
      simp only []
      split
      · exact Nat.le_refl _
      · split
        · exact Nat.le_refl _
        · simp [budgetMeasure, hr]
    | attemptDone i => simp [budgetMeasure, hr]
    | complete i o =>
      simp only []
      split
      · exact Nat.le_refl _
      · rename_i hc
        have hmem : i ∈ s.running := by simpa using hc
        have hlen : (s.running.erase i).length + 1 = s.running.length := by
          rw [List.length_erase_of_mem hmem]
          have := List.length_pos_of_mem hmem
          omega
        cases o with
        | none =>
          simp only []
          refine Nat.le_trans (budgetMeasure_checkDone_le _ rfl) ?_
          simp only [budgetMeasure, hr]
          split <;> omega
        | some r =>
          simp only []
          split
          · simp [budgetMeasure]
          · refine Nat.le_trans (budgetMeasure_checkDone_le _ rfl) ?_
            simp only [budgetMeasure, hr]
            split <;> omega
    | deadline =>
      simp only []
      split
      · exact Nat.le_refl _
      · simp [budgetMeasure]

/-- Every `select!` branch that can be taken strictly decreases the budgetMeasure. -/
theorem enabled_step_decreases (s : St α τ) (e : Event α) (h : coreEnabled s e = true) :
    budgetMeasure (step s e) < budgetMeasure s := by
  cases e with
  | timerFires =>
    simp only [coreEnabled, Bool.and_eq_true, Option.isNone_iff_eq_none] at h
    unfold step
    simp only [h.1, h.2, Bool.not_true, Bool.false_eq_true, ↓reduceIte]
    split
    · simp only [budgetMeasure, h.1, h.2, List.length_append, List.length_singleton]; omega
    · simp [budgetMeasure, h.1, h.2]
  | complete i o =>
    simp only [coreEnabled, Bool.and_eq_true, Option.isNone_iff_eq_none] at h
    have hmem : i ∈ s.running := by simpa using h.2
    have hlen : (s.running.erase i).length + 1 = s.running.length := by
      rw [List.length_erase_of_mem hmem]
      have := List.length_pos_of_mem hmem
      omega
    unfold step
    simp only [h.1, h.2, Bool.not_true, Bool.false_eq_true, ↓reduceIte]
    cases o with
    | none =>
      simp only []
      refine Nat.lt_of_le_of_lt (budgetMeasure_checkDone_le _ rfl) ?_
      simp only [budgetMeasure, h.1]
      split <;> omega
    | some r =>
      simp only []
      split
      · simp only [budgetMeasure, h.1]; omega
      · refine Nat.lt_of_le_of_lt (budgetMeasure_checkDone_le _ rfl) ?_
        simp only [budgetMeasure, h.1]
        split <;> omega
  | pop i => simp [coreEnabled] at h
  | send i => simp [coreEnabled] at h
  | attemptDone i => simp [coreEnabled] at h
  | deadline => simp [coreEnabled] at h

/-- The first `n` events of an infinite schedule. -/
def pre (σ : Nat → Event α) : Nat → List (Event α)
  | 0 => []
  | n + 1 => pre σ n ++ [σ n]

private theorem run_pre_succ (s : St α τ) (σ : Nat → Event α) (n : Nat) :
    run s (pre σ (n + 1)) = step (run s (pre σ n)) (σ n) := by
  simp [pre, run]

private theorem budgetMeasure_pre_mono (s : St α τ) (σ : Nat → Event α) (n d : Nat) :
    budgetMeasure (run s (pre σ (n + d))) ≤ budgetMeasure (run s (pre σ n)) := by
  induction d with
  | zero => exact Nat.le_refl _
  | succ d ih =>
    rw [← Nat.add_assoc, run_pre_succ]
    exact Nat.le_trans (budgetMeasure_step_le _ _) ih

/-- **It always returns.**  For every state `s` (reachable or not) and every infinite schedule `σ` that is fair —
as long as the call has not returned, some event that `select!` can take (a running fiber completes, the armed
timer fires) eventually happens — the call returns after finitely many events.  By `some_branch_enabled` such an
event exists in every reachable state that has not returned, so "each started fiber eventually completes and the
armed timer eventually fires" implies the fairness hypothesis. -/
theorem always_returns (s : St α τ) (σ : Nat → Event α)
    (fair : ∀ n, (run s (pre σ n)).returned = none →
      ∃ k, n ≤ k ∧ coreEnabled (run s (pre σ k)) (σ k) = true) :
    ∃ n, (run s (pre σ n)).returned ≠ none := by
  suffices H : ∀ M n, budgetMeasure (run s (pre σ n)) ≤ M → ∃ n', (run s (pre σ n')).returned ≠ none from
    H _ 0 (Nat.le_refl _)
  intro M
  induction M with
  | zero =>
    intro n hM
    refine ⟨n, ?_⟩
    intro hn
    simp [budgetMeasure, hn] at hM
  | succ M ih =>
    intro n hM
    cases hn : (run s (pre σ n)).returned with
    | some r => exact ⟨n, by simp [hn]⟩
    | none =>
      obtain ⟨k, hk, hen⟩ := fair n hn
      obtain ⟨d, rfl⟩ := Nat.exists_eq_add_of_le hk
      have h1 := budgetMeasure_pre_mono s σ n d
      have h2 := enabled_step_decreases _ _ hen
      rw [← run_pre_succ] at h2
      exact ih (n + d + 1) (by omega)

/-- Quantitative form: the number of `select!` branches taken before the return is at most the initial budgetMeasure
(`4 + 3 * max_retry_count` for the speculative machine). -/
def branchesTaken (s : St α τ) : List (Event α) → Nat
  | [] => 0
  | e :: es => (if coreEnabled s e then 1 else 0) + branchesTaken (step s e) es

theorem branches_bounded (s : St α τ) (evs : List (Event α)) :
    branchesTaken s evs + budgetMeasure (run s evs) ≤ budgetMeasure s := by
  induction evs generalizing s with
  | nil => simp [branchesTaken, run_nil]
  | cons e es ih =>
    have := ih (step s e)
    rw [run_cons]
    simp only [branchesTaken]
    by_cases he : coreEnabled s e = true
    · have := enabled_step_decreases s e he
      simp only [he, ↓reduceIte]; omega
    · have := budgetMeasure_step_le s e
      simp only [he, Bool.false_eq_true, ↓reduceIte]; omega

theorem budgetMeasure_initSpec (m : Nat) (dl : Option Nat) (plan : List τ) : budgetMeasure (initSpec m dl plan : St α τ) = 4 + 3 * m := by
  simp [budgetMeasure, initSpec]; omega

-- non-vacuity of the fairness hypothesis: the schedule "timer, then fiber 0, 1, 2, … complete with ignorable errors"
example : (run (initSpec 2 none ([] : List Nat) : St Nat Nat)
    [.timerFires, .timerFires, .timerFires, .complete 0 (some (.err (.connectionPoolError .initializing))),
     .complete 1 (some (.err (.connectionPoolError .initializing))), .complete 2 (some (.err (.connectionPoolError .initializing)))]).returned
    = some (.err (.connectionPoolError .initializing)) := by decide

/-! ### 9. where the flag comes from: the setters of `Statement` / `PreparedStatement` / `Batch`

"A request NOT MARKED idempotent" is a statement on which the user's last `set_is_idempotent` call (if any) said
`false`.  The gate reads `StatementConfig.is_idempotent`; these theorems say, for EVERY sequence of public setter
calls, that this field is what the user marked — no other setter (tracing, timestamp, consistency, profile, …)
writes it — and chain that into the gate theorems.  The tie of `SpecStmtConfig.apply` to the real setters is the
`cfg` case kind (all getters after random / exhaustive call sequences on the three real types). -/
section provenance
open ScyllaVerif.SpecStmtConfig

/-- What the user marked: the argument of the last `set_is_idempotent` call, else the value before. -/
def lastMarked (init : Bool) (ops : List Op) : Bool :=
  (ops.reverse.findSome? (fun o => match o with
    | .setIdempotent b => some b
    | _ => none)).getD init

/-- **Frame**: a call that is not `set_is_idempotent` leaves the flag as it was. -/
theorem idem_frame (c : Config) (op : Op) (h : ∀ b, op ≠ .setIdempotent b) : (apply c op).isIdempotent = c.isIdempotent := by
  cases op <;> first | rfl | exact absurd rfl (h _)

/-- **Every field has exactly one family of writers** (the complete frame table of the sixteen calls): if a field
changed, the call was one of its own setters. -/
theorem setter_frame (c : Config) (op : Op) :
    ((apply c op).isIdempotent ≠ c.isIdempotent → ∃ b, op = .setIdempotent b) ∧
    ((apply c op).tracing ≠ c.tracing → ∃ b, op = .setTracing b) ∧
    ((apply c op).skipMeta ≠ c.skipMeta → ∃ b, op = .setSkipMeta b) ∧
    ((apply c op).consistency ≠ c.consistency → (∃ x, op = .setConsistency x) ∨ op = .unsetConsistency) ∧
    ((apply c op).serial ≠ c.serial → (∃ x, op = .setSerial x) ∨ op = .unsetSerial) ∧
    ((apply c op).timestamp ≠ c.timestamp → ∃ t, op = .setTimestamp t) ∧
    ((apply c op).timeout ≠ c.timeout → ∃ t, op = .setTimeout t) ∧
    ((apply c op).history ≠ c.history → (∃ l, op = .setHistory l) ∨ op = .removeHistory) ∧
    ((apply c op).profile ≠ c.profile → ∃ h, op = .setProfile h) ∧
    ((apply c op).lb ≠ c.lb → ∃ p, op = .setLb p) ∧
    ((apply c op).retry ≠ c.retry → ∃ p, op = .setRetry p) ∧
    ((apply c op).pageSize ≠ c.pageSize → ∃ n, op = .setPageSize n) := by
  cases op <;> simp [apply]

/-- **The flag the gate reads is what the user marked**, after any sequence of calls from any configuration. -/
theorem gateFlag_eq_lastMarked (c : Config) (ops : List Op) :
    gateFlag (applyAll c ops) = lastMarked c.isIdempotent ops := by
  unfold gateFlag applyAll lastMarked
  induction ops generalizing c with
  | nil => rfl
  | cons op ops ih =>
    rw [List.foldl_cons, ih, List.reverse_cons, List.findSome?_append]
    cases hr : ops.reverse.findSome? (fun o => match o with
      | .setIdempotent b => some b
      | _ => none) with
    | some b => simp
    | none => cases op <;> simp [apply]

/-- Never marked `true` (and not idempotent to begin with — `Statement::new`, `Batch::new`, a freshly prepared
statement) ⇒ the gate sees `false`, whatever else was configured. -/
theorem never_marked_gate_false (c : Config) (ops : List Op) (h0 : c.isIdempotent = false)
    (h : ∀ op ∈ ops, op ≠ .setIdempotent true) : gateFlag (applyAll c ops) = false := by
  unfold gateFlag applyAll
  induction ops generalizing c with
  | nil => exact h0
  | cons op ops ih =>
    rw [List.foldl_cons]
    apply ih
    · have hop := h op (List.mem_cons_self ..)
      cases op <;> first | exact h0 | skip
      case setIdempotent b => cases b <;> first | rfl | exact absurd rfl hop
    · exact fun o ho => h o (List.mem_cons_of_mem _ ho)

/-- Preparing a statement carries the flag over unchanged, and later calls on the prepared statement obey the same
law: the flag of `prepare(stmt ops₁) ops₂` is what the user marked last across both. -/
theorem gateFlag_prepared (ops₁ ops₂ : List Op) :
    gateFlag (applyAll (prepareFrom (applyAll {} ops₁)) ops₂) = lastMarked false (ops₁ ++ ops₂) := by
  have h : applyAll (prepareFrom (applyAll {} ops₁)) ops₂ = applyAll {} (ops₁ ++ ops₂) := by
    simp [applyAll, prepareFrom, List.foldl_append]
  rw [h, gateFlag_eq_lastMarked]

/-- The request a session API submits for a statement object with configuration `c`. -/
def submittedOf (c : Config) (members : List Bool) (profiles : Nat → Option Nat) (dflt : Option Nat) : Submitted :=
  { isIdempotent := gateFlag c, members := members, ownProfile := c.profile.map profiles, sessionDefault := dflt }

theorem submittedOf_policy (c : Config) (members : List Bool) (profiles : Nat → Option Nat) (dflt : Option Nat) :
    (submittedOf c members profiles dflt).gatePolicy = SpecStmtConfig.gatePolicy c profiles dflt := by
  unfold submittedOf Submitted.gatePolicy SpecStmtConfig.gatePolicy
  cases c.profile <;> rfl

/-- **A statement (prepared from it or not, or a batch) that was never marked idempotent has exactly one execution**
— whatever was configured on it (tracing, timestamp, consistencies, timeout, listener, policies, any profile with any
speculative policy), whatever its members are marked, for every plan, timeout and schedule. -/
theorem unmarked_statement_single_execution (ops₁ ops₂ : List Op)
    (h : ∀ op ∈ ops₁ ++ ops₂, op ≠ .setIdempotent true)
    (members : List Bool) (profiles : Nat → Option Nat) (dflt : Option Nat)
    (dl : Option Nat) (plan : List τ) (evs : List (Event α)) :
    let c := applyAll (prepareFrom (applyAll {} ops₁)) ops₂
    let s := run ((submittedOf c members profiles dflt).start dl plan : St α τ) evs
    s.started = 1 ∧ s.running.length ≤ 1 := by
  intro c s
  have hc : applyAll (prepareFrom (applyAll {} ops₁)) ops₂ = applyAll {} (ops₁ ++ ops₂) := by
    simp [applyAll, prepareFrom, List.foldl_append]
  have hf : gateFlag c = false := by
    show gateFlag (applyAll (prepareFrom (applyAll {} ops₁)) ops₂) = false
    rw [hc]; exact never_marked_gate_false {} _ rfl h
  have := nonidempotent_single_execution (α := α) (SpecStmtConfig.gatePolicy c profiles dflt) dl plan evs
  show (run ((submittedOf c members profiles dflt).start dl plan : St α τ) evs).started = 1 ∧
    (run ((submittedOf c members profiles dflt).start dl plan : St α τ) evs).running.length ≤ 1
  unfold Submitted.start
  rw [submittedOf_policy]
  simp only [Submitted.gateIdempotent, submittedOf, hf]
  exact this

/-- … and the executions of any statement are bounded by the policy of the profile its LAST `set_execution_profile_handle`
named (the session default's if that was `None` or never called). -/
theorem started_le_configured_profile (c : Config) (members : List Bool) (profiles : Nat → Option Nat) (dflt : Option Nat)
    (dl : Option Nat) (plan : List τ) (evs : List (Event α)) :
    (run ((submittedOf c members profiles dflt).start dl plan : St α τ) evs).started
      ≤ 1 + (SpecStmtConfig.gatePolicy c profiles dflt).getD 0 := by
  rw [← submittedOf_policy c members]
  exact started_le_chosen_profile _ dl plan evs

-- non-vacuity: tracing on, a timestamp, a profile with an aggressive policy, prepared, never marked: one execution;
-- marked after all that: the second execution starts
example : lastMarked false [.setTracing true, .setTimestamp (some 5), .setProfile (some 0)] = false := by decide
example : gateFlag (applyAll {} [.setIdempotent true, .setTracing false, .setIdempotent false, .setTracing true]) = false := by decide
example : (run ((submittedOf (applyAll {} [.setTracing true, .setProfile (some 0)]) [] (fun _ => some 3) none).start none [10, 11]
    : St Nat Nat) [.pop 0, .send 0, .timerFires, .timerFires]).started = 1 := by decide
example : (run ((submittedOf (applyAll {} [.setTracing true, .setProfile (some 0), .setIdempotent true]) [] (fun _ => some 3) none).start none [10, 11]
    : St Nat Nat) [.pop 0, .send 0, .timerFires]).started = 2 := by decide

end provenance

/-! ### 10. the pager's plan against RANDOM shards (`pager.rs:337-365` after `plan.rs:94-107`)

`Plan` resolves a shard-less entry to a random shard BEFORE the pager's filter sees it, so the filter compares
(node, resolved shard) with the last coordinator.  The draws are an argument: `resolveWith r raw` gives the entry at
plan position `i` the shard `r i` if it has none — for EVERY `r : Nat → Nat`; it is the same thing as `resolveAll`
over all draw lists (`resolveAll_is_resolveWith`, `resolveWith_is_resolveAll`).  (Run side: `pplan` cases still script
explicit shards on sharded nodes; these theorems are about the model only.) -/
section randomShard

/-- The policy's entries with the shard-less ones resolved by the draw function (`r 0` for the head, shifted). -/
def resolveWith (r : Nat → Nat) : List RawTarget → List PlanTarget
  | [] => []
  | (n, os) :: rest => (n, os.getD (r 0)) :: resolveWith (fun i => r (i + 1)) rest

theorem resolveAll_is_resolveWith (raw : List RawTarget) (ρ : List Nat) : ∃ r, resolveAll raw ρ = resolveWith r raw := by
  induction raw generalizing ρ with
  | nil => exact ⟨fun _ => 0, rfl⟩
  | cons e rest ih =>
    obtain ⟨n, os⟩ := e
    cases os with
    | some s =>
      obtain ⟨r', h⟩ := ih ρ
      exact ⟨fun i => r' (i - 1), by simp [resolveAll, resolveWith, h]⟩
    | none =>
      cases ρ with
      | nil =>
        obtain ⟨r', h⟩ := ih []
        exact ⟨fun i => if i = 0 then 0 else r' (i - 1), by simp [resolveAll, resolveWith, h]⟩
      | cons x ρ' =>
        obtain ⟨r', h⟩ := ih ρ'
        exact ⟨fun i => if i = 0 then x else r' (i - 1), by simp [resolveAll, resolveWith, h]⟩

theorem resolveWith_is_resolveAll (r : Nat → Nat) (raw : List RawTarget) : ∃ ρ, resolveWith r raw = resolveAll raw ρ := by
  induction raw generalizing r with
  | nil => exact ⟨[], rfl⟩
  | cons e rest ih =>
    obtain ⟨n, os⟩ := e
    obtain ⟨ρ', h⟩ := ih (fun i => r (i + 1))
    cases os with
    | some s => exact ⟨ρ', by simp [resolveAll, resolveWith, h]⟩
    | none => exact ⟨r 0 :: ρ', by simp [resolveAll, resolveWith, h]⟩

theorem resolveWith_append (r : Nat → Nat) (pre post : List RawTarget) :
    resolveWith r (pre ++ post) = resolveWith r pre ++ resolveWith (fun i => r (i + pre.length)) post := by
  induction pre generalizing r with
  | nil => simp [resolveWith]
  | cons e pre ih =>
    obtain ⟨n, os⟩ := e
    simp only [List.cons_append, resolveWith, ih, List.length_cons]
    rfl

/-- **Whatever the draws answer, the plan of one page names no target twice** — from the hypothesis on the policy's
raw entries only (pairwise different targets, a shard-less entry covering every shard of its node). -/
theorem pagerPlan_random_shard_nodup (sharded : Nat → Bool) (coord : Option (Nat × Option Nat)) (raw : List RawTarget)
    (r : Nat → Nat) (h : raw.Pairwise (fun a b => ¬ rawSame sharded a b))
    (hcoord : ∀ cn cs, coord = some (cn, cs) → (cs = none ↔ sharded cn = false)) :
    ((pagerPlan coord (resolveWith r raw)).map (canonTarget sharded)).Nodup := by
  obtain ⟨ρ, hρ⟩ := resolveWith_is_resolveAll r raw
  rw [hρ]
  exact pagerPlan_nodup_of_targets sharded coord _ (resolved_nodup sharded raw ρ h) hcoord

/-- **The previous coordinator is first under every draw, whether or not the policy's plan still names it** (the
stability target is prepended unconditionally — "first iff still in the plan" is NOT what the code does), it is not
named again behind the head, and every other target of the plan is kept. -/
theorem pagerPlan_coordinator_first (cn cs : Nat) (raw : List RawTarget) (r : Nat → Nat) :
    let page := pagerPlan (some (cn, some cs)) (resolveWith r raw)
    page.head? = some (cn, cs) ∧ (cn, cs) ∉ page.tail ∧
    ∀ t ∈ resolveWith r raw, t ≠ (cn, cs) → t ∈ page.tail := by
  simp only [pagerPlan, List.head?_cons, List.tail_cons, Option.getD_some, true_and]
  refine ⟨fun hmem => ?_, fun t ht hne => List.mem_filter.mpr ⟨ht, ?_⟩⟩
  · have := (List.mem_filter.mp hmem).2
    simp at this
  · obtain ⟨a, b⟩ := t
    have : ¬ (a = cn ∧ cs = b) := fun ⟨h1, h2⟩ => hne (by rw [h1, h2])
    simp only [beq_eq_false_iff_ne, ne_eq, Bool.not_and, Bool.or_eq_true, Bool.not_eq_eq_eq_not, Bool.not_true]
    by_cases h1 : a = cn
    · exact Or.inr (fun h2 => this ⟨h1, h2⟩)
    · exact Or.inl h1

/-- **A shard-less entry on the coordinator's node is dropped exactly when the draw for its position resolves it to the
coordinator's shard**: with the entry at position `pre.length` of the policy's plan, the page's plan is the coordinator,
the kept part before it, the entry itself as `(cn, r pre.length)` iff `r pre.length ≠ cs`, the kept part behind it. -/
theorem pagerPlan_filter_iff (cn cs : Nat) (pre post : List RawTarget) (r : Nat → Nat) :
    let keep : PlanTarget → Bool := fun t => !(t.1 == cn && cs == t.2)
    pagerPlan (some (cn, some cs)) (resolveWith r (pre ++ (cn, none) :: post)) =
      (cn, cs) :: ((resolveWith r pre).filter keep ++ (if r pre.length = cs then [] else [(cn, r pre.length)]) ++
        (resolveWith (fun i => r (i + (pre.length + 1))) post).filter keep) := by
  simp only [pagerPlan, resolveWith_append, resolveWith, Option.getD_some, Option.getD_none, List.filter_append,
    List.filter_cons, Nat.zero_add, List.cons.injEq, true_and, List.append_assoc]
  have hf : (fun i => r (i + 1 + pre.length)) = (fun i => r (i + (pre.length + 1))) := by
    funext i; congr 1; omega
  by_cases hr : r pre.length = cs
  · simp [hr, hf]
  · have : ¬ cs = r pre.length := fun h => hr h.symm
    simp [hr, this, hf]

-- non-vacuity: sharded node 1 (4 shards), coordinator (1, 2), policy plan 0:- 1:- 2:- (pairwise different targets):
-- the draw for position 1 resolves to the coordinator's shard: dropped …
example : pagerPlan (some (1, some 2)) (resolveWith (fun i => [0, 2, 3].getD i 0) [(0, none), (1, none), (2, none)])
    = [(1, 2), (0, 0), (2, 3)] := by decide
-- … to another shard: kept as a different target on the same node
example : pagerPlan (some (1, some 2)) (resolveWith (fun i => [0, 1, 3].getD i 0) [(0, none), (1, none), (2, none)])
    = [(1, 2), (0, 0), (1, 1), (2, 3)] := by decide
example : [((0 : Nat), (none : Option Nat)), (1, none), (2, none)].Pairwise
    (fun a b => ¬ rawSame (fun n => n == 1) a b) := by
  simp [rawSame]

end randomShard

end ScyllaVerif.Props.C13

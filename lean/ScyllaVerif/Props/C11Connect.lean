/-
C11, second layer — the consumer of the port iterator (`open_connection_to_shard_aware_port`), the panicking public
wrappers, `ShardAwarePortRange::new`, and what `open_connection` keeps of SUPPORTED.
Model: `ScyllaVerif/Model/C11Connect.lean` (on top of `Model/Sharding.lean`).  Every theorem about the loop is over
EVERY per-port outcome function and EVERY pivot.
-/
import ScyllaVerif.Model.C11Connect
import ScyllaVerif.Props.C11

namespace ScyllaVerif.Props.C11Connect
open ScyllaVerif.Sharding ScyllaVerif.C11Connect ScyllaVerif.Props.C11

/-- "source port `p` cannot be used": `open_connection` failed with an address-unavailable error. -/
def Unavailable (f : Nat → Except ConnErr Unit) (p : Nat) : Prop :=
  ∃ e, f p = .error e ∧ isAddressUnavailable e = true

/-! ### list level (any port list) -/

private theorem openLoop_connected (f : Nat → Except ConnErr Unit) (ps : List Nat) (p : Nat)
    (h : openLoop f ps = .connected p) : p ∈ ps ∧ f p = .ok () := by
  induction ps with
  | nil => simp [openLoop] at h
  | cons a as ih =>
    unfold openLoop at h
    split at h
    · next u hu => cases h; exact ⟨List.mem_cons_self, hu⟩
    · next e he =>
      split at h
      · obtain ⟨h1, h2⟩ := ih h; exact ⟨List.mem_cons_of_mem _ h1, h2⟩
      · cases h

private theorem openLoop_failed (f : Nat → Except ConnErr Unit) (ps : List Nat) (p : Nat) (e : ConnErr)
    (h : openLoop f ps = .failed p e) : p ∈ ps ∧ f p = .error e ∧ isAddressUnavailable e = false := by
  induction ps with
  | nil => simp [openLoop] at h
  | cons a as ih =>
    unfold openLoop at h
    split at h
    · cases h
    · next e' he =>
      split at h
      · obtain ⟨h1, h2⟩ := ih h; exact ⟨List.mem_cons_of_mem _ h1, h2⟩
      · next hne =>
        cases h
        exact ⟨List.mem_cons_self, he, by simpa using hne⟩

private theorem openLoop_noSource_iff (f : Nat → Except ConnErr Unit) (ps : List Nat) :
    openLoop f ps = .noSourcePort ↔ ∀ p ∈ ps, Unavailable f p := by
  induction ps with
  | nil => simp [openLoop]
  | cons a as ih =>
    unfold openLoop
    split
    · next u hu =>
      simp only [reduceCtorEq, false_iff]
      intro hall
      obtain ⟨e, he, _⟩ := hall a List.mem_cons_self
      rw [hu] at he; cases he
    · next e he =>
      split
      · next hav =>
        rw [ih]
        constructor
        · intro h p hp
          rcases List.mem_cons.mp hp with rfl | hp
          · exact ⟨e, he, hav⟩
          · exact h p hp
        · intro h p hp
          exact h p (List.mem_cons_of_mem _ hp)
      · next hav =>
        simp only [reduceCtorEq, false_iff]
        intro hall
        obtain ⟨e', he', hav'⟩ := hall a List.mem_cons_self
        rw [he] at he'; cases he'
        exact hav hav'

private theorem openLoop_connects_of_free (f : Nat → Except ConnErr Unit) (ps : List Nat)
    (hfree : ∃ p ∈ ps, f p = .ok ())
    (hno : ∀ p ∈ ps, ∀ e, f p = .error e → isAddressUnavailable e = true) :
    ∃ q, openLoop f ps = .connected q := by
  induction ps with
  | nil => obtain ⟨p, hp, _⟩ := hfree; cases hp
  | cons a as ih =>
    unfold openLoop
    split
    · exact ⟨a, rfl⟩
    · next e he =>
      have hav := hno a List.mem_cons_self e he
      rw [if_pos hav]
      apply ih
      · obtain ⟨p, hp, hpf⟩ := hfree
        rcases List.mem_cons.mp hp with rfl | hp
        · rw [he] at hpf; cases hpf
        · exact ⟨p, hp, hpf⟩
      · intro p hp; exact hno p (List.mem_cons_of_mem _ hp)

private theorem tried_prefix (f : Nat → Except ConnErr Unit) (ps : List Nat) : triedPorts f ps <+: ps := by
  induction ps with
  | nil => exact List.prefix_refl _
  | cons a as ih =>
    unfold triedPorts
    split
    · exact ⟨as, rfl⟩
    · split
      · exact List.cons_prefix_cons.mpr ⟨rfl, ih⟩
      · exact ⟨as, rfl⟩

/-- The port the loop stops at is the LAST port tried; when it gives up, it has tried every port. -/
private theorem tried_last (f : Nat → Except ConnErr Unit) (ps : List Nat) :
    match openLoop f ps with
    | .connected p => (triedPorts f ps).getLast? = some p
    | .failed p _ => (triedPorts f ps).getLast? = some p
    | .noSourcePort => triedPorts f ps = ps := by
  induction ps with
  | nil => simp [openLoop, triedPorts]
  | cons a as ih =>
    cases hfa : f a with
    | ok u => simp [openLoop, triedPorts, hfa]
    | error e =>
      by_cases hav : isAddressUnavailable e = true
      · simp only [openLoop, triedPorts, hfa, hav, if_true]
        revert ih
        cases hr : openLoop f as with
        | connected p =>
          intro ih; simp only [] at ih ⊢
          rw [List.getLast?_cons, ih]; rfl
        | failed p e' =>
          intro ih; simp only [] at ih ⊢
          rw [List.getLast?_cons, ih]; rfl
        | noSourcePort =>
          intro ih; simp only [] at ih ⊢
          rw [ih]
      · simp [openLoop, triedPorts, hfa, hav]

/-- Every port tried before the last one was address-unavailable. -/
private theorem tried_dropLast_unavailable (f : Nat → Except ConnErr Unit) (ps : List Nat) :
    ∀ p ∈ (triedPorts f ps).dropLast, Unavailable f p := by
  induction ps with
  | nil => simp [triedPorts]
  | cons a as ih =>
    unfold triedPorts
    split
    · simp
    · next e he =>
      split
      · next hav =>
        intro p hp
        cases ht : triedPorts f as with
        | nil => rw [ht] at hp; simp at hp
        | cons b bs =>
          rw [ht, List.dropLast_cons_cons] at hp
          rcases List.mem_cons.mp hp with rfl | hp
          · exact ⟨e, he, hav⟩
          · exact ih p (by rw [ht]; exact hp)
      · simp

/-! ### `open_connection_to_shard_aware_port`: for every shard, range, pivot and per-port outcome -/

/-- A connection that gets opened uses a source port of the CONFIGURED range that is congruent to the shard, and
that port was free (`open_connection` succeeded on it). -/
theorem open_connected_spec (n s lo hi pivot p : Nat) (f : Nat → Except ConnErr Unit)
    (hn : 0 < n) (hs : s < n) (hhi : hi ≤ 65535)
    (h : openShardAware n s lo hi pivot f = .connected p) :
    lo ≤ p ∧ p ≤ hi ∧ p % n = s ∧ f p = .ok () := by
  obtain ⟨hm, hf⟩ := openLoop_connected f _ p h
  obtain ⟨a, b, c⟩ := (iterPorts_mem n s lo hi pivot p hn hs hhi).mp hm
  exact ⟨a, b, c, hf⟩

/-- An error is passed through only if it is NOT an address-unavailable error, and it is the error of a port of the
shard in the configured range. -/
theorem open_failed_spec (n s lo hi pivot p : Nat) (e : ConnErr) (f : Nat → Except ConnErr Unit)
    (hn : 0 < n) (hs : s < n) (hhi : hi ≤ 65535)
    (h : openShardAware n s lo hi pivot f = .failed p e) :
    lo ≤ p ∧ p ≤ hi ∧ p % n = s ∧ f p = .error e ∧ isAddressUnavailable e = false := by
  obtain ⟨hm, hf, hu⟩ := openLoop_failed f _ p e h
  obtain ⟨a, b, c⟩ := (iterPorts_mem n s lo hi pivot p hn hs hhi).mp hm
  exact ⟨a, b, c, hf, hu⟩

/-- **`NoSourcePortForShard` exactly when every port of the shard in the range is unavailable** (which includes:
there is none). -/
theorem open_noSourcePort_iff (n s lo hi pivot : Nat) (f : Nat → Except ConnErr Unit)
    (hn : 0 < n) (hs : s < n) (hhi : hi ≤ 65535) :
    openShardAware n s lo hi pivot f = .noSourcePort ↔
      ∀ p, lo ≤ p → p ≤ hi → p % n = s → Unavailable f p := by
  unfold openShardAware
  rw [openLoop_noSource_iff]
  constructor
  · intro h p a b c
    exact h p ((iterPorts_mem n s lo hi pivot p hn hs hhi).mpr ⟨a, b, c⟩)
  · intro h p hp
    obtain ⟨a, b, c⟩ := (iterPorts_mem n s lo hi pivot p hn hs hhi).mp hp
    exact h p a b c

theorem open_noSourcePort_of_no_port (n s lo hi pivot : Nat) (f : Nat → Except ConnErr Unit)
    (hn : 0 < n) (hs : s < n) (hhi : hi ≤ 65535) (hnone : ¬ ∃ p, lo ≤ p ∧ p ≤ hi ∧ p % n = s) :
    openShardAware n s lo hi pivot f = .noSourcePort :=
  (open_noSourcePort_iff n s lo hi pivot f hn hs hhi).mpr (fun p a b c => absurd ⟨p, a, b, c⟩ hnone)

/-- **A connection is opened iff some port of the shard in the range is free**, as long as `open_connection` fails on
the shard's ports with address-unavailable errors only (any other error ends the loop, see `open_failed_spec`).
In particular ONE busy port - whichever of the three kinds the OS reports - never loses the shard. -/
theorem open_connected_iff_free (n s lo hi pivot : Nat) (f : Nat → Except ConnErr Unit)
    (hn : 0 < n) (hs : s < n) (hhi : hi ≤ 65535)
    (hno : ∀ p, lo ≤ p → p ≤ hi → p % n = s → ∀ e, f p = .error e → isAddressUnavailable e = true) :
    (∃ q, openShardAware n s lo hi pivot f = .connected q) ↔
      ∃ p, lo ≤ p ∧ p ≤ hi ∧ p % n = s ∧ f p = .ok () := by
  constructor
  · rintro ⟨q, hq⟩
    exact ⟨q, open_connected_spec n s lo hi pivot q f hn hs hhi hq⟩
  · rintro ⟨p, a, b, c, hf⟩
    apply openLoop_connects_of_free
    · exact ⟨p, (iterPorts_mem n s lo hi pivot p hn hs hhi).mpr ⟨a, b, c⟩, hf⟩
    · intro q hq e he
      obtain ⟨a', b', c'⟩ := (iterPorts_mem n s lo hi pivot q hn hs hhi).mp hq
      exact hno q a' b' c' e he

/-- The three kinds the OS can answer for a busy source port are all skipped (EADDRINUSE at `bind`, EACCES, and
EADDRNOTAVAIL at `connect` when the bind succeeded thanks to SO_REUSEADDR); nothing else is. -/
theorem isAddressUnavailable_iff (e : ConnErr) :
    isAddressUnavailable e = true ↔
      e = .io .addrInUse ∨ e = .io .permissionDenied ∨ e = .io .addrNotAvailable := by
  cases e with
  | notIo => simp [isAddressUnavailable]
  | io k => cases k <;> simp [isAddressUnavailable]

/-- The source ports tried are an initial segment of the iterator's order … -/
theorem tried_isPrefix (n s lo hi pivot : Nat) (f : Nat → Except ConnErr Unit) :
    triedShardAware n s lo hi pivot f <+: iterPorts n s lo hi pivot :=
  tried_prefix f _

/-- … hence pairwise distinct … -/
theorem tried_nodup (n s lo hi pivot : Nat) (f : Nat → Except ConnErr Unit) (hn : 0 < n) :
    (triedShardAware n s lo hi pivot f).Nodup :=
  (tried_isPrefix n s lo hi pivot f).sublist.nodup (iterPorts_nodup n s lo hi pivot hn)

/-- … and all of them ports of the shard in the configured range. -/
theorem tried_mem (n s lo hi pivot p : Nat) (f : Nat → Except ConnErr Unit)
    (hn : 0 < n) (hs : s < n) (hhi : hi ≤ 65535) (h : p ∈ triedShardAware n s lo hi pivot f) :
    lo ≤ p ∧ p ≤ hi ∧ p % n = s :=
  (iterPorts_mem n s lo hi pivot p hn hs hhi).mp ((tried_isPrefix n s lo hi pivot f).subset h)

/-- The loop stops at the last port it tried (connected there, or got a non-skippable error there); when it answers
`NoSourcePortForShard` it has tried EVERY port of the iterator. Every earlier port was address-unavailable. -/
theorem tried_last_is_result (n s lo hi pivot : Nat) (f : Nat → Except ConnErr Unit) :
    (match openShardAware n s lo hi pivot f with
     | .connected p => (triedShardAware n s lo hi pivot f).getLast? = some p
     | .failed p _ => (triedShardAware n s lo hi pivot f).getLast? = some p
     | .noSourcePort => triedShardAware n s lo hi pivot f = iterPorts n s lo hi pivot) ∧
    ∀ p ∈ (triedShardAware n s lo hi pivot f).dropLast, Unavailable f p :=
  ⟨tried_last f _, tried_dropLast_unavailable f _⟩

/-- The checker's candidate set is complete: whatever pivot the RNG can produce, the loop's result is in it. -/
theorem possibleResults_complete (n s lo hi pivot : Nat) (f : Nat → Except ConnErr Unit)
    (hp : pivot < (ports n s lo hi).length ∨ ports n s lo hi = []) :
    openShardAware n s lo hi pivot f ∈ possibleResults n s lo hi f := by
  unfold possibleResults
  simp only []
  rcases hp with hp | hnil
  · have hk : (ports n s lo hi).length ≠ 0 := by omega
    rw [if_neg hk]
    exact List.mem_map.mpr ⟨pivot, List.mem_range.mpr hp, rfl⟩
  · have hk : (ports n s lo hi).length = 0 := by rw [hnil]; rfl
    rw [if_pos hk]
    have : openShardAware n s lo hi pivot f = openShardAware n s lo hi 0 f := by
      unfold openShardAware iterPorts; simp [hnil]
    rw [this]; exact List.mem_singleton.mpr rfl

-- non-vacuity: shard 1 of 4 in [49152, 49167] has ports 49153, 49157, 49161, 49165.  49161 answers EADDRNOTAVAIL,
-- 49165 EADDRINUSE, the other two are free; pivot 2 starts at 49161.
private def exOutcome : Nat → Except ConnErr Unit := fun p =>
  if p = 49161 then .error (.io .addrNotAvailable) else if p = 49165 then .error (.io .addrInUse) else .ok ()

example : openShardAware 4 1 49152 49167 2 exOutcome = .connected 49153 ∧
    triedShardAware 4 1 49152 49167 2 exOutcome = [49161, 49165, 49153] ∧
    openShardAware 4 1 49152 49167 0 (fun _ => .error (.io .addrNotAvailable)) = .noSourcePort ∧
    openShardAware 4 1 49152 49152 0 (fun _ => .ok ()) = .noSourcePort ∧
    openShardAware 4 1 49152 49167 2
      (fun p => if p = 49165 then .error .notIo else exOutcome p) = .failed 49165 .notIo := by decide

/-! ### the public wrappers over the fixed ephemeral range [49152, 65535] -/

/-- With at most 16384 shards every shard has a port in the ephemeral range (it holds 16384 consecutive ports). -/
theorem ephemeral_has_port (n s : Nat) (hn : 0 < n) (hn' : n ≤ 16384) (hs : s < n) :
    ports n s ephemeralLo ephemeralHi ≠ [] := by
  intro h
  have hnone := (ports_nil_iff n s ephemeralLo ephemeralHi hn hs (by decide)).mp h
  apply hnone
  refine ⟨ephemeralLo + (n - ephemeralLo % n + s) % n, by omega, ?_, ?_⟩
  · have : (n - ephemeralLo % n + s) % n < n := Nat.mod_lt _ hn
    unfold ephemeralLo ephemeralHi at *
    omega
  · have hlt : ephemeralLo % n < n := Nat.mod_lt _ hn
    rw [Nat.add_mod_mod]
    have hdm := Nat.div_add_mod ephemeralLo n
    have : ephemeralLo + (n - ephemeralLo % n + s) = s + n * (ephemeralLo / n + 1) := by
      rw [Nat.mul_succ]; omega
    rw [this, Nat.add_mul_mod_self_left, Nat.mod_eq_of_lt hs]

/-- **`Sharder::draw_source_port_for_shard` never panics for `nr_shards ≤ 16384`** (and a valid shard): the candidate
list is not empty, and for every index the RNG can draw the wrapper returns an ephemeral port congruent to the shard. -/
theorem drawPub_no_panic (n s : Nat) (hn : 0 < n) (hn' : n ≤ 16384) (hs : s < n) :
    0 < (ports n s ephemeralLo ephemeralHi).length ∧
    ∀ idx, idx < (ports n s ephemeralLo ephemeralHi).length →
      ∃ p, drawPub n s idx = .value p ∧ ephemeralLo ≤ p ∧ p ≤ ephemeralHi ∧ p % n = s := by
  refine ⟨List.length_pos_iff.mpr (ephemeral_has_port n s hn hn' hs), ?_⟩
  intro idx hidx
  unfold drawPub
  rw [if_neg (by omega)]
  have hsome := drawPort_isSome n s ephemeralLo ephemeralHi idx hidx
  cases hd : drawPort n s ephemeralLo ephemeralHi idx with
  | none => rw [hd] at hsome; cases hsome
  | some p =>
    exact ⟨p, rfl, drawPort_spec n s ephemeralLo ephemeralHi idx p hn hs (by decide) hd⟩

/-- The documented panic (`#[should_panic] draw_source_port_for_shard_panics_on_no_choice`): the wrapper panics exactly
when the shard is out of range (the assertion) or the ephemeral range holds no port of the shard - which needs more
than 16384 shards (`drawPub_no_panic`). -/
theorem drawPub_panic_iff (n s idx : Nat) (hn : 0 < n)
    (hidx : idx < (ports n s ephemeralLo ephemeralHi).length ∨ ports n s ephemeralLo ephemeralHi = []) :
    drawPub n s idx = .panic ↔
      (n ≤ s ∨ ¬ ∃ p, ephemeralLo ≤ p ∧ p ≤ ephemeralHi ∧ p % n = s) := by
  unfold drawPub
  by_cases hs : s ≥ n
  · simp [hs]
  · rw [if_neg hs]
    have hs' : s < n := by omega
    cases hd : drawPort n s ephemeralLo ephemeralHi idx with
    | none =>
      simp only [true_iff]
      exact Or.inr (drawPort_none_no_port n s ephemeralLo ephemeralHi idx hn hs' (by decide) hidx hd)
    | some p =>
      simp only [reduceCtorEq, false_iff]
      rintro (h | h)
      · omega
      · exact h ⟨p, drawPort_spec n s ephemeralLo ephemeralHi idx p hn hs' (by decide) hd⟩

/-- `Sharder::iter_source_ports_for_shard` panics only on the assertion; otherwise it yields every ephemeral port of the
shard exactly once (possibly none at all - no panic then). -/
theorem iterPub_spec (n s pivot : Nat) :
    (iterPub n s pivot = .panic ↔ n ≤ s) ∧
    ∀ l, iterPub n s pivot = .value l → l.Perm (ports n s ephemeralLo ephemeralHi) := by
  unfold iterPub
  by_cases hs : s ≥ n
  · simp [hs]
  · simp only [if_neg hs, reduceCtorEq, false_iff]
    refine ⟨by omega, ?_⟩
    intro l hl
    cases hl
    exact iterPorts_perm n s ephemeralLo ephemeralHi pivot

example : drawPub 40000 30000 0 = .panic ∧ iterPub 40000 30000 0 = .value [] ∧
    drawPub 16384 16383 0 = .value 65535 ∧ drawPub 4 4 0 = .panic ∧ iterPub 4 7 0 = .panic := by decide

/-! ### `ShardAwarePortRange::new` -/

/-- The "allowed local-port range" of the property statement: `new` accepts `lo..=hi` iff `1024 ≤ lo ≤ hi`. -/
theorem rangeNew_iff (lo hi : Nat) : rangeNew lo hi = true ↔ 1024 ≤ lo ∧ lo ≤ hi := by
  unfold rangeNew
  simp only [Bool.not_eq_true', Bool.or_eq_false_iff, decide_eq_false_iff_not]
  omega

example : rangeNew 1024 1024 = true ∧ rangeNew 1023 65535 = false ∧ rangeNew 5000 4999 = false := by decide

/-! ### decimal parsing (`parse::<u16>` / `parse::<u8>`) -/

private theorem digitsValue_some (cs : List Char) (acc v : Nat) (h : digitsValue cs acc = some v) :
    ∀ c ∈ cs, '0' ≤ c ∧ c ≤ '9' := by
  induction cs generalizing acc with
  | nil => intro c hc; cases hc
  | cons a as ih =>
    unfold digitsValue at h
    split at h
    · next hd =>
      intro c hc
      rcases List.mem_cons.mp hc with rfl | hc
      · exact hd
      · exact ih _ h c hc
    · cases h

private theorem digitsValue_of_digits (cs : List Char) (acc : Nat) (h : ∀ c ∈ cs, '0' ≤ c ∧ c ≤ '9') :
    (digitsValue cs acc).isSome := by
  induction cs generalizing acc with
  | nil => rfl
  | cons a as ih =>
    unfold digitsValue
    rw [if_pos (h a List.mem_cons_self)]
    exact ih _ (fun c hc => h c (List.mem_cons_of_mem _ hc))

/-- The accept set of the unsigned decimal parse: exactly a non-empty run of ASCII digits, optionally preceded by ONE
`+`. (So `+5` and `007` are numbers; `""`, `+`, `-1`, `1_0`, `++1`, ` 1` are not.) -/
theorem parseUnsignedChars_isSome_iff (cs : List Char) :
    (parseUnsignedChars cs).isSome ↔
      ∃ ds, ds ≠ [] ∧ (cs = ds ∨ cs = '+' :: ds) ∧ ∀ c ∈ ds, '0' ≤ c ∧ c ≤ '9' := by
  constructor
  · intro h
    unfold parseUnsignedChars at h
    split at h
    · cases h
    · cases h
    · next rest hne =>
      have hrest : rest ≠ [] := by
        intro hr; subst hr; exact hne rfl
      cases hv : digitsValue rest 0 with
      | none => rw [hv] at h; cases h
      | some v => exact ⟨rest, hrest, Or.inr rfl, digitsValue_some rest 0 v hv⟩
    · next hnil _ _ =>
      cases hv : digitsValue cs 0 with
      | none => rw [hv] at h; cases h
      | some v => exact ⟨cs, (by intro hc; exact hnil hc), Or.inl rfl, digitsValue_some cs 0 v hv⟩
  · rintro ⟨ds, hne, hform, hdig⟩
    have hplus : ¬ ('0' ≤ '+' ∧ '+' ≤ '9') := by decide
    rcases hform with rfl | rfl
    · cases cs with
      | nil => exact absurd rfl hne
      | cons a as =>
        have ha : a ≠ '+' := by
          intro h; subst h; exact hplus (hdig _ List.mem_cons_self)
        unfold parseUnsignedChars
        split
        · next h => cases h
        · next h => cases h; exact absurd rfl ha
        · next h => cases h; exact absurd rfl ha
        · exact digitsValue_of_digits _ 0 hdig
    · cases ds with
      | nil => exact absurd rfl hne
      | cons a as =>
        unfold parseUnsignedChars
        exact digitsValue_of_digits _ 0 hdig

theorem parseU16_le (s : String) (v : Nat) (h : parseU16 s = some v) : v ≤ 65535 := by
  unfold parseU16 at h
  split at h
  · split at h
    · cases h; assumption
    · cases h
  · cases h

example : parseU16 "+5" = some 5 ∧ parseU16 "007" = some 7 ∧ parseU16 "1_0" = none ∧ parseU16 "" = none ∧
    parseU16 "+" = none ∧ parseU16 "-1" = none ∧ parseU16 "65535" = some 65535 ∧ parseU16 "65536" = none ∧
    parseUnsigned "65536" = some 65536 ∧ parseU16 "++1" = none ∧ parseU16 " 1" = none := by decide

/-! ### what `open_connection` keeps of SUPPORTED -/

/-- Sharding information is kept only when `ShardInfo::try_from` accepts it: three present entries whose first values
are numbers, `shard < nr_shards ≤ 65535`, `nr_shards ≠ 0`, `msb_ignore ≤ 255`. -/
theorem shardInfoOf_some (o : Supported) (si : ShardInfo) (h : shardInfoOf o = some si) :
    entryOf o.shard = .val (some si.shard) ∧ entryOf o.nrShards = .val (some si.nrShards) ∧
    entryOf o.msbIgnore = .val (some si.msbIgnore) ∧
    si.shard < si.nrShards ∧ si.nrShards ≠ 0 ∧ si.nrShards ≤ 65535 ∧ si.msbIgnore ≤ 255 := by
  unfold shardInfoOf at h
  split at h
  · next si' hok => cases h; exact shardopts_ok _ _ _ _ hok
  · cases h

/-- EVERY `ShardingError` - "no sharding info" (a Cassandra node) and each malformed answer alike - leaves the
connection without sharding information: the caller keeps no trace of the difference (it only picks the log level). -/
theorem shardInfoOf_none_iff (o : Supported) :
    shardInfoOf o = none ↔
      ∃ e, parseShardOptions (entryOf o.shard) (entryOf o.nrShards) (entryOf o.msbIgnore) = .error e := by
  unfold shardInfoOf
  split
  · next si hok => simp [hok]
  · next e herr => simp [herr]

/-- The shard-aware port is read under the key chosen by `is_tls()` ALONE: the other key's entry is irrelevant. -/
theorem shardAwarePortOf_key (o : Supported) (x : Option (List String)) :
    shardAwarePortOf { o with portSsl := x } false = shardAwarePortOf o false ∧
    shardAwarePortOf { o with port := x } true = shardAwarePortOf o true := ⟨rfl, rfl⟩

/-- A kept shard-aware port is the `u16` value of the FIRST value of that key. -/
theorem shardAwarePortOf_some (o : Supported) (tls : Bool) (p : Nat) (h : shardAwarePortOf o tls = some p) :
    p ≤ 65535 ∧ ∃ v rest, (if tls then o.portSsl else o.port) = some (v :: rest) ∧ parseU16 v = some p := by
  unfold shardAwarePortOf at h
  split at h
  · cases h
  · cases h
  · next v rest heq => exact ⟨parseU16_le v p h, v, rest, heq, h⟩

example :
    let o : Supported := ⟨some ["3", "7"], some ["8"], some ["12"], some ["19042"], some ["19142"]⟩
    shardInfoOf o = some ⟨3, 8, 12⟩ ∧ shardAwarePortOf o false = some 19042 ∧ shardAwarePortOf o true = some 19142 ∧
    shardInfoOf { o with shard := some ["1_0"] } = none ∧ shardInfoOf { o with shard := none } = none ∧
    shardInfoOf { o with nrShards := some ["+8"] } = some ⟨3, 8, 12⟩ ∧
    shardAwarePortOf { o with port := some ["65536"] } false = none ∧
    shardAwarePortOf { o with port := some [] } false = none ∧ shardAwarePortOf { o with port := none } false = none := by
  decide

/-! ### the random shard fill-in of the plan: every shard number the driver PRODUCES is below the shard count -/

/-- The range handed to `random_range` is never empty (`ShardCount` is `NonZeroU16`; 1 without a sharder): the draw
cannot panic. -/
theorem fillCount_pos (sharder : Option Nat) (h : ∀ n, sharder = some n → 0 < n) : 0 < fillCount sharder := by
  unfold fillCount
  cases sharder with
  | none => decide
  | some n => exact h n rfl

/-- **A filled-in shard is below the node's shard count**, for every value the RNG can return for the half-open range
`0..fillCount`; for a node without a sharder it is shard 0. -/
theorem withRandomShard_lt (sharder : Option Nat) (r : Nat) (hr : r < fillCount sharder) :
    withRandomShard none r < fillCount sharder ∧ (sharder = none → withRandomShard none r = 0) := by
  refine ⟨hr, ?_⟩
  intro h
  subst h
  simp only [fillCount] at hr
  simp only [withRandomShard]
  omega

/-- An explicit shard is passed through unchanged. -/
theorem withRandomShard_explicit (s r : Nat) : withRandomShard (some s) r = s := rfl

/-- Plan level: whatever entries a policy returns and whatever the RNG draws within its ranges, every entry the policy
left without a shard comes out with a shard below its node's shard count (one output per entry, in order). -/
theorem planShards_lt (entries : List (Option Nat × Option Nat)) (draws : Nat → Nat)
    (hd : ∀ (i : Nat) (e : Option Nat × Option Nat), entries[i]? = some e → draws i < fillCount e.1) :
    (planShards entries draws).length = entries.length ∧
    ∀ (i : Nat) (e : Option Nat × Option Nat) (o : Option Nat × Nat), entries[i]? = some e → (planShards entries draws)[i]? = some o →
      o.1 = e.1 ∧ (e.2 = none → o.2 < fillCount e.1) ∧ (∀ s, e.2 = some s → o.2 = s) := by
  unfold planShards
  refine ⟨by simp, ?_⟩
  intro i e o he ho
  have hi : i < entries.length := by
    rcases Nat.lt_or_ge i entries.length with h | h
    · exact h
    · rw [List.getElem?_eq_none h] at he; cases he
  have hz : ((List.range entries.length).zip entries)[i]? = some (i, e) :=
    List.getElem?_zip_eq_some.mpr ⟨by rw [List.getElem?_range hi], he⟩
  rw [List.getElem?_map, hz] at ho
  simp only [Option.map_some, Option.some.injEq] at ho
  subst ho
  refine ⟨rfl, ?_, ?_⟩
  · intro hn
    simp only [hn, withRandomShard]
    exact hd i e he
  · intro s hs
    simp only [hs, withRandomShard]

-- non-vacuity, and what an INCLUSIVE range would allow: with 3 shards the draw 3 is not below the count
example : fillCount (some 3) = 3 ∧ fillCount none = 1 ∧ withRandomShard none 2 < fillCount (some 3) ∧
    ¬ (withRandomShard none 3 < fillCount (some 3)) ∧
    planShards [(some 3, none), (none, none), (some 7, some 5)] (fun i => [2, 0, 6].getD i 0) =
      [(some 3, 2), (none, 0), (some 7, 5)] := by decide

end ScyllaVerif.Props.C11Connect

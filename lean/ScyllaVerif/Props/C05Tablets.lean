/-
C05 — tablet tables on cluster states that came out of refresh histories (`Model/C05TabletHistory.lean`): the replica
objects the tablet path hands to `DefaultPolicy` are the `Node` objects of the CURRENT `known_nodes`, and those carry the
datacenter, the rack and the host-filter verdict of the LAST metadata.  (The maintenance steps are C15's model; the
invariant `StateOk` is C15's.)
-/
import ScyllaVerif.Model.C05TabletHistory
import ScyllaVerif.Props.C15
import ScyllaVerif.Props.C05
import Std.Data.String.ToNat

namespace ScyllaVerif.Props.C05Tablets
open ScyllaVerif.Tablets ScyllaVerif.TabletsRefresh ScyllaVerif.C05TabletHistory
open ScyllaVerif.Props.C15 (COp crun cstep StateOk stateOk_run Current DcOk)

private def toC (kss : List (String × Bool × List String)) : HOp → COp
  | .refresh peers => .refresh peers kss
  | .learn spec f l raw => .learn spec.1 spec.2 f l raw

private theorem hrun_eq_crun (kss : List (String × Bool × List String)) (ops : List HOp) :
    hrun kss ops = crun (ops.map (toC kss)) := by
  unfold hrun crun
  rw [List.foldl_map]
  congr 1
  funext cs op
  cases op <;> rfl

private theorem alGet_nodesOf' (k : Known) (id : Nat) : alGet id (nodesOf k) = (alGet id k).map (·.node) := by
  induction k with
  | nil => rfl
  | cons e k ih =>
    obtain ⟨k0, v⟩ := e
    simp only [nodesOf, List.map_cons, alGet] at ih ⊢
    split
    · rfl
    · exact ih

/-- **No stale `Node` object reaches the policy**: after EVERY history of metadata refreshes (nodes re-created because
their datacenter / rack / address / host-filter verdict changed, nodes leaving and joining) and learnt tablets (with
replicas unknown at that moment), in any order, every replica object of every tablet - in the full list and in every
per-datacenter list - is the object registered in the current `known_nodes`.  In particular a refresh that only
RE-CREATES nodes (no node removed, no unknown replica) still walks the tablets. -/
theorem thplan_no_stale_object (kss : List (String × Bool × List String)) (ops : List HOp) :
    staleReps (hrun kss ops) = [] := by
  rw [hrun_eq_crun]
  obtain ⟨_, hs⟩ := stateOk_run (ops.map (toC kss))
  generalize crun (ops.map (toC kss)) = cs at hs
  unfold staleReps
  rw [List.eq_nil_iff_forall_not_mem]
  intro r hr
  obtain ⟨e, he, hr⟩ := List.mem_flatMap.mp hr
  obtain ⟨t, ht, hr⟩ := List.mem_flatMap.mp hr
  obtain ⟨hmem, hstale⟩ := List.mem_filter.mp hr
  obtain ⟨hc, hd⟩ := hs e he t ht
  have hall : r ∈ t.replicas.all := by
    rcases List.mem_append.mp hmem with h | h
    · exact h
    · obtain ⟨dc, _, h⟩ := List.mem_flatMap.mp h
      rw [hd dc] at h
      exact (List.mem_filter.mp h).1
  have := hc r hall
  rw [alGet_nodesOf'] at this
  unfold objCurrent at hstale
  cases hk : alGet r.1.hostId cs.known with
  | none => rw [hk] at this; cases this
  | some k =>
    rw [hk] at this hstale
    simp only [Option.map_some, Option.some.injEq] at this
    simp [this] at hstale

/-- The node object `calculate_new_topology` hands out for a peer - in EVERY arm of its reuse match (kept object,
`inherit_with_ip_changed`, `Node::new`, `Node::new_disabled`) - has the peer's datacenter and rack and is enabled iff the
host filter accepted the peer. -/
theorem nodeFor_carries_peer (old : Known) (gen : Nat) (p : Peer) :
    (nodeFor old gen p).1.enabled = p.accepted ∧ (nodeFor old gen p).1.node.dc = p.dc ∧
      (nodeFor old gen p).1.rack = p.rack := by
  unfold nodeFor
  split
  · rename_i n ha _
    split
    · rename_i h
      simp only [Bool.and_eq_true, Bool.not_eq_eq_eq_not, Bool.not_true, decide_eq_true_eq] at h
      exact ⟨by rw [ha]; exact h.1.1.1, h.1.1.2, h.1.2⟩
    · exact ⟨rfl, rfl, rfl⟩
  · rename_i n ha _
    split
    · rename_i h
      simp only [Bool.and_eq_true, decide_eq_true_eq] at h
      split
      · exact ⟨by rw [ha]; exact h.1.1, h.1.2, h.2⟩
      · exact ⟨rfl, rfl, rfl⟩
    · exact ⟨rfl, rfl, rfl⟩
  · exact ⟨rfl, rfl, rfl⟩

private theorem alGet_alSet' {κ β : Type} [DecidableEq κ] (k k' : κ) (v : β) (m : List (κ × β)) :
    alGet k' (alSet k v m) = if k' = k then some v else alGet k' m := by
  induction m with
  | nil =>
    by_cases h : k' = k
    · subst h; simp [alSet, alGet]
    · have : ¬ k = k' := fun e => h e.symm
      simp [alSet, alGet, h, this]
  | cons e m ih =>
    obtain ⟨k0, v0⟩ := e
    by_cases h0 : k0 = k
    · subst h0
      by_cases h : k' = k0
      · subst h; simp [alSet, alGet]
      · have : ¬ k0 = k' := fun e => h e.symm
        simp [alSet, alGet, h, this]
    · by_cases h : k' = k
      · subst h
        simp [alSet, alGet, h0, ih]
      · simp only [alSet, h0, if_false, alGet, ih, h]

/-- **`known_nodes` after a refresh is the last metadata**: every known node of the new state belongs to a peer of the
refresh's peer list and has that peer's datacenter, rack and host-filter verdict - whatever the previous state was. -/
theorem known_of_last_metadata (cs : CState) (peers : List Peer) (kss : List (String × Bool × List String))
    (id : Nat) (k : KNode) (h : alGet id (refresh cs peers kss).known = some k) :
    ∃ p ∈ peers, p.hostId = id ∧ k.enabled = p.accepted ∧ k.node.dc = p.dc ∧ k.rack = p.rack := by
  have key : ∀ (ps : List Peer) (acc : Known × Nat),
      (∀ id k, alGet id acc.1 = some k → ∃ p ∈ peers, p.hostId = id ∧ k.enabled = p.accepted ∧ k.node.dc = p.dc ∧ k.rack = p.rack) →
      (∀ p ∈ ps, p ∈ peers) →
      ∀ id k, alGet id (ps.foldl (fun (acc : Known × Nat) p =>
          let r := nodeFor cs.known acc.2 p
          (alSet p.hostId r.1 acc.1, r.2)) acc).1 = some k →
        ∃ p ∈ peers, p.hostId = id ∧ k.enabled = p.accepted ∧ k.node.dc = p.dc ∧ k.rack = p.rack := by
    intro ps
    induction ps with
    | nil => intro acc hacc _ id k hk; exact hacc id k hk
    | cons p ps ih =>
      intro acc hacc hsub id k hk
      rw [List.foldl_cons] at hk
      refine ih _ ?_ (fun q hq => hsub q (List.mem_cons_of_mem _ hq)) id k hk
      intro id' k' hk'
      simp only at hk'
      rw [alGet_alSet'] at hk'
      split at hk'
      · rename_i hid
        cases hk'
        obtain ⟨h1, h2, h3⟩ := nodeFor_carries_peer cs.known acc.2 p
        exact ⟨p, hsub p List.mem_cons_self, hid.symm, h1, h2, h3⟩
      · exact hacc id' k' hk'
  exact key peers ([], cs.gen) (fun id k hk => by simp [alGet] at hk) (fun _ hp => hp) id k h

/-- **What the policy reads on a tablet replica is the last metadata**: after any history, one more refresh to `peers`
and any tablets learnt afterwards, every replica object of every tablet is the current object of its host, and that
object has the datacenter, the rack and the enabled-ness (= host-filter verdict) of a peer of `peers` - never those of an
earlier metadata. -/
theorem thplan_replicas_of_last_metadata (kss : List (String × Bool × List String)) (ops : List HOp) (peers : List Peer)
    (learns : List ((String × String) × Int × Int × List (Nat × Nat)))
    (e : (String × String) × Table) (t : Tablet) (r : Rep)
    (he : e ∈ (hrun kss (ops ++ .refresh peers :: learns.map (fun l => .learn l.1 l.2.1 l.2.2.1 l.2.2.2))).info.tables)
    (ht : t ∈ e.2.tablets) (hr : r ∈ t.replicas.all) :
    ∃ k, alGet r.1.hostId (hrun kss (ops ++ [.refresh peers])).known = some k ∧ k.node = r.1 ∧
      ∃ p ∈ peers, p.hostId = r.1.hostId ∧ k.enabled = p.accepted ∧ r.1.dc = p.dc ∧ k.rack = p.rack := by
  -- learning does not touch `known_nodes`
  have hknown : ∀ (ls : List ((String × String) × Int × Int × List (Nat × Nat))) (cs : CState),
      ((ls.map (fun l => HOp.learn l.1 l.2.1 l.2.2.1 l.2.2.2)).foldl (hstep kss) cs).known = cs.known := by
    intro ls
    induction ls with
    | nil => intro cs; rfl
    | cons l ls ih => intro cs; rw [List.map_cons, List.foldl_cons, ih]; rfl
  have hsplit : hrun kss (ops ++ .refresh peers :: learns.map (fun l => .learn l.1 l.2.1 l.2.2.1 l.2.2.2)) =
      (learns.map (fun l => HOp.learn l.1 l.2.1 l.2.2.1 l.2.2.2)).foldl (hstep kss) (hrun kss (ops ++ [.refresh peers])) := by
    unfold hrun
    rw [List.foldl_append, List.foldl_append, List.foldl_cons, List.foldl_cons, List.foldl_nil]
  have hstale := thplan_no_stale_object kss (ops ++ .refresh peers :: learns.map (fun l => .learn l.1 l.2.1 l.2.2.1 l.2.2.2))
  have hk0 : (hrun kss (ops ++ .refresh peers :: learns.map (fun l => .learn l.1 l.2.1 l.2.2.1 l.2.2.2))).known =
      (hrun kss (ops ++ [.refresh peers])).known := by rw [hsplit, hknown]
  have hcur : objCurrent (hrun kss (ops ++ [.refresh peers])).known r = true := by
    rw [← hk0]
    cases hn : objCurrent (hrun kss (ops ++ .refresh peers :: learns.map (fun l => .learn l.1 l.2.1 l.2.2.1 l.2.2.2))).known r with
    | true => rfl
    | false =>
    exfalso
    have : r ∈ staleReps (hrun kss (ops ++ .refresh peers :: learns.map (fun l => .learn l.1 l.2.1 l.2.2.1 l.2.2.2))) := by
      unfold staleReps
      refine List.mem_flatMap.mpr ⟨e, he, List.mem_flatMap.mpr ⟨t, ht, List.mem_filter.mpr ⟨List.mem_append_left _ hr, ?_⟩⟩⟩
      simp [hn]
    rw [hstale] at this
    cases this
  unfold objCurrent at hcur
  cases hk : alGet r.1.hostId (hrun kss (ops ++ [.refresh peers])).known with
  | none => rw [hk] at hcur; cases hcur
  | some k =>
    rw [hk] at hcur
    have hkn : k.node = r.1 := by simpa using hcur
    refine ⟨k, rfl, hkn, ?_⟩
    have hlast : hrun kss (ops ++ [.refresh peers]) = refresh (hrun kss ops) peers kss := by
      unfold hrun; rw [List.foldl_append]; rfl
    rw [hlast] at hk
    obtain ⟨p, hp, h1, h2, h3, h4⟩ := known_of_last_metadata _ peers kss _ k hk
    exact ⟨p, hp, h1, h2, by rw [← hkn]; exact h3, h4⟩

/-! ### the state's replica lists satisfy `TabletOK`: the tablet-plan theorems of Props/C05.lean hold on every history -/

section planOnHistory
open ScyllaVerif.Plan ScyllaVerif.Routing
open ScyllaVerif.Props.C05 (WF TabletOK Permitted)

private theorem dcName_inj' {a b : Nat} (h : dcName a = dcName b) : a = b := by
  unfold dcName at h
  have := congrArg String.toList h
  simp only [String.toList_append] at this
  exact Nat.repr_inj.mp (String.ext_iff.mpr (List.append_cancel_left this))

private theorem alGet_mem' {κ β : Type} [DecidableEq κ] (k : κ) (v : β) (m : List (κ × β)) (h : alGet k m = some v) :
    (k, v) ∈ m := by
  induction m with
  | nil => simp [alGet] at h
  | cons e m ih =>
    obtain ⟨k0, v0⟩ := e
    simp only [alGet] at h
    split at h
    · rename_i hk; cases h; subst hk; exact List.mem_cons_self
    · exact List.mem_cons_of_mem _ (ih h)

private theorem lookup_mem' {xs : List Tablet} {tok : Int} {t : Tablet} (h : tabletForToken xs tok = some t) : t ∈ xs := by
  unfold tabletForToken at h
  simp only [] at h
  split at h
  · rename_i u hu
    split at h
    · cases h; exact List.mem_of_getElem? hu
    · cases h
  · cases h

/-- The nodes the policy's view is resolved against are the nodes of the state: `known_nodes` has, for the host id of
each of them, an object with that node's datacenter; and host ids identify nodes across the ring and that list (both are
established by `ClusterState::new` / `new_updated` from ONE peer list: `nodesAgree_of_last_refresh`, `WF`). -/
structure NodesAgree (cl : Cluster) (cs : CState) (nodes : List Ring.Node) : Prop where
  dc : ∀ n ∈ nodes, ∀ k, alGet n.id cs.known = some k → k.node.dc = n.dc.map dcName
  ids : ∀ a b : Ring.Node, (a ∈ allNodes cl ∨ a ∈ nodes) → (b ∈ allNodes cl ∨ b ∈ nodes) → a.id = b.id → a = b

private theorem resolve_spec {nodes : List Ring.Node} {p : Rep} {r : SRep} (h : resolve nodes p = some r) :
    r.1 ∈ nodes ∧ r.1.id = p.1.hostId ∧ r.2 = p.2 := by
  unfold resolve at h
  cases hf : nodes.find? (fun n => n.id == p.1.hostId) with
  | none => rw [hf] at h; cases h
  | some n =>
    rw [hf] at h
    simp only [Option.map_some, Option.some.injEq] at h
    subst h
    exact ⟨List.mem_of_find?_eq_some hf, by simpa using List.find?_some hf, rfl⟩

/-- `TabletOK` for the lists of ONE tablet whose replica objects are current. -/
private theorem tabletOK_of_current {cl : Cluster} {cs : CState} {nodes : List Ring.Node} (h : NodesAgree cl cs nodes)
    (t : Tablet) (hc : Current (nodesOf cs.known) t) (hd : DcOk t) :
    TabletOK cl (fun dc => ((match dc with
      | some d => some (dcReplicas t (dcName d))
      | none => some t.replicas.all).getD []).filterMap (resolve nodes)) := by
  have hdcOf : ∀ p ∈ t.replicas.all, ∀ r, resolve nodes p = some r → p.1.dc = r.1.dc.map dcName := by
    intro p hp r hr
    obtain ⟨hrn, hid, _⟩ := resolve_spec hr
    have := hc p hp
    rw [alGet_nodesOf'] at this
    cases hk : alGet p.1.hostId cs.known with
    | none => rw [hk] at this; cases this
    | some k =>
      rw [hk] at this
      simp only [Option.map_some, Option.some.injEq] at this
      rw [← this]
      exact h.dc r.1 hrn k (by rw [hid]; exact hk)
  refine ⟨?_, ?_, ?_⟩
  · intro d r hr
    simp only [Option.getD_some] at hr ⊢
    rw [hd (dcName d)] at hr
    obtain ⟨p, hp, hpr⟩ := List.mem_filterMap.mp hr
    obtain ⟨hpa, hpd⟩ := List.mem_filter.mp hp
    refine ⟨List.mem_filterMap.mpr ⟨p, hpa, hpr⟩, ?_⟩
    have h1 := hdcOf p hpa r hpr
    have h2 : p.1.dc = some (dcName d) := by simpa using hpd
    rw [h2] at h1
    cases hrd : r.1.dc with
    | none => rw [hrd] at h1; cases h1
    | some d' =>
      rw [hrd] at h1
      simp only [Option.map_some, Option.some.injEq] at h1
      rw [dcName_inj' h1]
  · intro d r hr hrd
    simp only [Option.getD_some] at hr ⊢
    obtain ⟨p, hp, hpr⟩ := List.mem_filterMap.mp hr
    rw [hd (dcName d)]
    refine List.mem_filterMap.mpr ⟨p, List.mem_filter.mpr ⟨hp, ?_⟩, hpr⟩
    have h1 := hdcOf p hp r hpr
    rw [hrd] at h1
    simpa using h1
  · intro a b ha hb hid
    have conv : ∀ x : Ring.Node, (x ∈ allNodes cl ∨ x ∈ (((some t.replicas.all).getD []).filterMap (resolve nodes)).map (·.1)) →
        (x ∈ allNodes cl ∨ x ∈ nodes) := by
      intro x hx
      rcases hx with hx | hx
      · exact Or.inl hx
      · obtain ⟨r, hr, rfl⟩ := List.mem_map.mp hx
        obtain ⟨p, _, hpr⟩ := List.mem_filterMap.mp hr
        exact Or.inr (resolve_spec hpr).1
    exact h.ids a b (conv a ha) (conv b hb) hid

/-- **The replica lists of every history satisfy `TabletOK`**: for every history of refreshes and learnt tablets, every
table, every token, the view the policy gets (`viewOf`: the covering tablet's list, or its per-datacenter list) fits the
cluster - so every tablet-plan theorem of Props/C05.lean applies to the state of every history. -/
theorem thplan_TabletOK (kss : List (String × Bool × List String)) (ops : List HOp) {cl : Cluster}
    (spec : String × String) {nodes : List Ring.Node} (tok : Option Int) (h : NodesAgree cl (hrun kss ops) nodes) :
    TabletOK cl (viewOf (hrun kss ops) spec nodes tok) := by
  have hs : StateOk (hrun kss ops) := by rw [hrun_eq_crun]; exact stateOk_run _
  have hempty : TabletOK cl (fun _ : Option Nat => ([] : List SRep)) := by
    refine ⟨fun d r hr => (by cases hr), fun d r hr => (by cases hr), ?_⟩
    intro a b ha hb hid
    refine h.ids a b ?_ ?_ hid
    · rcases ha with ha | ha
      · exact Or.inl ha
      · cases ha
    · rcases hb with hb | hb
      · exact Or.inl hb
      · cases hb
  unfold viewOf
  cases tok with
  | none => exact hempty
  | some tk =>
    cases htb : alGet spec (hrun kss ops).info.tables with
    | none => exact hempty
    | some tbl =>
      have key : ∀ V V' : Option Nat → List SRep, (∀ dc, V dc = V' dc) → TabletOK cl V' → TabletOK cl V := by
        intro V V' hv hV'
        have : V = V' := funext hv
        rw [this]; exact hV'
      cases hl : tabletForToken tbl.tablets tk with
      | none =>
        refine key _ (fun _ => []) ?_ hempty
        intro dc
        cases dc <;> simp [dcReplicasForToken, replicasForToken, hl]
      | some t =>
        have hmem := hs.2 (spec, tbl) (alGet_mem' _ _ _ htb) t (lookup_mem' hl)
        refine key _ _ ?_ (tabletOK_of_current h t hmem.1 hmem.2)
        intro dc
        cases dc <;> simp [dcReplicasForToken, replicasForToken, hl]

private theorem known_after_learns (kss : List (String × Bool × List String))
    (ls : List ((String × String) × Int × Int × List (Nat × Nat))) (cs : CState) :
    ((ls.map (fun l => HOp.learn l.1 l.2.1 l.2.2.1 l.2.2.2)).foldl (hstep kss) cs).known = cs.known := by
  induction ls generalizing cs with
  | nil => rfl
  | cons l ls ih => rw [List.map_cons, List.foldl_cons, ih]; rfl

/-- **The datacenter clause of `NodesAgree` is what a refresh establishes**: after any history, one more refresh to the
peers `ps` (nodes with address and verdict; equal host ids = equal nodes) and any tablets learnt afterwards, `known_nodes`
holds for every node of `ps` an object with that node's datacenter. -/
theorem nodesAgree_dc_of_last_refresh (kss : List (String × Bool × List String)) (ops : List HOp)
    (ps : List ((Ring.Node × Nat) × Bool)) (learns : List ((String × String) × Int × Int × List (Nat × Nat)))
    (hids : ∀ a ∈ ps, ∀ b ∈ ps, a.1.1.id = b.1.1.id → a.1.1 = b.1.1) :
    ∀ n ∈ ps.map (·.1.1), ∀ k,
      alGet n.id (hrun kss (ops ++ .refresh (ps.map toPeer) :: learns.map (fun l => .learn l.1 l.2.1 l.2.2.1 l.2.2.2))).known = some k →
      k.node.dc = n.dc.map dcName := by
  intro n hn k hk
  have hsplit : hrun kss (ops ++ .refresh (ps.map toPeer) :: learns.map (fun l => .learn l.1 l.2.1 l.2.2.1 l.2.2.2)) =
      (learns.map (fun l => HOp.learn l.1 l.2.1 l.2.2.1 l.2.2.2)).foldl (hstep kss) (refresh (hrun kss ops) (ps.map toPeer) kss) := by
    unfold hrun
    rw [List.foldl_append, List.foldl_cons]; rfl
  rw [hsplit, known_after_learns] at hk
  obtain ⟨p, hp, hpid, _, hdc, _⟩ := known_of_last_metadata _ _ kss _ k hk
  obtain ⟨q, hq, rfl⟩ := List.mem_map.mp hp
  obtain ⟨q', hq', rfl⟩ := List.mem_map.mp hn
  have : q.1.1 = q'.1.1 := hids q hq q' hq' hpid
  rw [hdc, ← this]; rfl

variable (kss : List (String × Bool × List String)) (ops : List HOp) {cl : Cluster} (hwf : WF cl)
  (spec : String × String) {nodes : List Ring.Node} (tok : Option Int) (h : NodesAgree cl (hrun kss ops) nodes)
  (cfg : Config) (rq : Request) (ρp : RhoPick) (ρf : RhoFb)

include hwf h in
/-- **After every history, no target twice** (under the policy's comparator) in the plan of a tablet table. -/
theorem thplan_nodup :
    (planT cl cfg rq (viewOf (hrun kss ops) spec nodes tok) ρp ρf).Pairwise (fun a b => targetEq a b = false) :=
  C05.tplan_no_equal_targets hwf cfg rq (thplan_TabletOK kss ops spec tok h) ρp ρf

include hwf h in
/-- **After every history, no node the host filter excludes, and only the preferred datacenter when failover is not
permitted** (`cl.disabled` / the nodes' datacenters being those of the last metadata: `known_of_last_metadata`). -/
theorem thplan_excludes_disabled_stays_in_dc :
    ∀ t ∈ planT cl cfg rq (viewOf (hrun kss ops) spec nodes tok) ρp ρf, t.1.id ∉ cl.disabled ∧
      (cfg.failover = false → ∀ d, (preference cfg rq).datacenter = some d → t.1.dc = some d) :=
  C05.tplan_excludes_disabled_stays_in_dc hwf cfg rq (thplan_TabletOK kss ops spec tok h) ρp ρf

include hwf h in
/-- **After every history, completeness**: every enabled token-owning node the datacenter rule permits occurs. -/
theorem thplan_complete {n : Ring.Node} (hn : n ∈ allNodes cl) (he : n.id ∉ cl.disabled) (hperm : Permitted cfg rq n) :
    ∃ t ∈ planT cl cfg rq (viewOf (hrun kss ops) spec nodes tok) ρp ρf, t.1 = n :=
  C05.tplan_complete hwf cfg rq (thplan_TabletOK kss ops spec tok h) ρp ρf hn he hperm

include hwf h in
/-- **After every history, order**: the shard-bearing targets - the live replicas of the covering tablet - come first. -/
theorem thplan_replicas_first :
    (planT cl cfg rq (viewOf (hrun kss ops) spec nodes tok) ρp ρf).Pairwise (fun a b => b.2.isSome = true → a.2.isSome = true) :=
  C05.tplan_replicas_first hwf cfg rq (thplan_TabletOK kss ops spec tok h) ρp ρf

include hwf h in
/-- **After every history, who carries a shard**: exactly the live permitted replicas of the covering tablet as the
state holds it, each with the tablet's shard. -/
theorem thplan_shard_iff (n : Ring.Node) (s : Nat) :
    (n, some s) ∈ planT cl cfg rq (viewOf (hrun kss ops) spec nodes tok) ρp ρf ↔
      (tokenAware cl cfg rq = true ∧ (n, s) ∈ viewOf (hrun kss ops) spec nodes tok none ∧ cl.alive n = true ∧
        Permitted cfg rq n) :=
  C05.tplan_shard_iff hwf cfg rq (thplan_TabletOK kss ops spec tok h) ρp ρf n s

end planOnHistory

/-! non-vacuity: node 1 is learnt as the replica of a tablet while accepted in `dc1`; the next refresh reports it in
`dc2` and the host filter rejects it - no node is removed, no replica is unknown.  The tablet then holds the NEW object
(generation 2, `dc2`), which `known_nodes` reports as disabled. -/
example :
    let ops : List HOp := [.refresh [⟨1, some "dc1", some "r1", 0, true⟩, ⟨2, some "dc1", some "r1", 1, true⟩],
      .learn ("k0", "t") 1 9 [(1, 3)], .refresh [⟨1, some "dc2", some "r1", 0, false⟩, ⟨2, some "dc1", some "r1", 1, true⟩]]
    let cs := hrun (kssOf 1) ops
    (cs.info.tables.map (fun e => e.2.tablets.map (fun t => t.replicas.all))) = [[[(⟨1, some "dc2", 2⟩, 3)]]] ∧
      (alGet 1 cs.known).map (·.enabled) = some false ∧ staleReps cs = [] := by decide

/-! non-vacuity of `NodesAgree` / `thplan_TabletOK` on the example cluster of Props/C05.lean (`exCluster`, which is `WF`):
node 3 is learnt as a replica while in datacenter 1 and is re-created in datacenter 0 by the last refresh (nobody leaves);
the view after the history names node 3 with the datacenter of the last metadata. -/
section example_history
open ScyllaVerif.Plan ScyllaVerif.Routing

private def exNodes : List Ring.Node :=
  [⟨1, some 0, some 1⟩, ⟨2, some 0, some 1⟩, ⟨5, some 1, some 1⟩, ⟨3, some 0, some 3⟩, ⟨4, some 1, none⟩,
   ⟨6, some 1, some 2⟩, ⟨7, some 0, some 2⟩]
private def exPs : List ((Ring.Node × Nat) × Bool) := exNodes.zipIdx.map (fun (n, i) => ((n, i), n.id != 7))
private def exPs0 : List ((Ring.Node × Nat) × Bool) :=
  exPs.map (fun p => if p.1.1.id = 3 then ((({ p.1.1 with dc := some 1 } : Ring.Node), p.1.2), p.2) else p)
private def exOps : List HOp := [.refresh (exPs0.map toPeer), .learn ("k0", "t") 1 9 [(3, 2), (5, 1)]]

private theorem exAgree : NodesAgree C05.exCluster (hrun (kssOf 2) (exOps ++ [.refresh (exPs.map toPeer)])) exNodes := by
  refine ⟨?_, ?_⟩
  · have := nodesAgree_dc_of_last_refresh (kssOf 2) exOps exPs [] (by decide)
    intro n hn
    exact this n (by revert n; decide)
  · have hall : allNodes C05.exCluster = exNodes := by decide
    rw [hall]
    have : ∀ a ∈ exNodes, ∀ b ∈ exNodes, a.id = b.id → a = b := by decide
    intro a b ha hb
    exact this a (by rcases ha with h | h <;> exact h) b (by rcases hb with h | h <;> exact h)

example : C05.TabletOK C05.exCluster
    (viewOf (hrun (kssOf 2) (exOps ++ [.refresh (exPs.map toPeer)])) ("k0", "t") exNodes (some 5)) :=
  thplan_TabletOK (kssOf 2) _ ("k0", "t") (some 5) exAgree

example : (viewOf (hrun (kssOf 2) (exOps ++ [.refresh (exPs.map toPeer)])) ("k0", "t") exNodes (some 5) none).map
      (fun r => (r.1.id, r.1.dc, r.2)) = [(3, some 0, 2), (5, some 1, 1)] ∧
    (viewOf (hrun (kssOf 2) (exOps ++ [.refresh (exPs.map toPeer)])) ("k0", "t") exNodes (some 5) (some 0)).map
      (fun r => (r.1.id, r.2)) = [(3, 2)] := by decide

end example_history

end ScyllaVerif.Props.C05Tablets

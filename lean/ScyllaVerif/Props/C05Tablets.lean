/-
C05 — tablet tables on cluster states that came out of refresh histories (`Model/C05TabletHistory.lean`): the replica
objects the tablet path hands to `DefaultPolicy` are the `Node` objects of the CURRENT `known_nodes`, and those carry the
datacenter, the rack and the host-filter verdict of the LAST metadata.  (The maintenance steps are C15's model; the
invariant `StateOk` is C15's.)
-/
import ScyllaVerif.Model.C05TabletHistory
import ScyllaVerif.Props.C15

namespace ScyllaVerif.Props.C05Tablets
open ScyllaVerif.Tablets ScyllaVerif.TabletsRefresh ScyllaVerif.C05TabletHistory
open ScyllaVerif.Props.C15 (COp crun cstep StateOk stateOk_run Current DcOk)

private def toC (kss : List (String × Bool × List String)) : HOp → COp
  | .refresh peers => .refresh peers kss
  | .learn spec f l raw => .learn spec.1 spec.2 f l raw

private theorem hrun_eq_crun (kss : List (String × Bool × List String)) (ops : List HOp) :
    hrun kss ops = crun (ops.map (toC kss)) := by
  unfold hrun crun
  rw [List.foldl_map]
  congr 1
  funext cs op
  cases op <;> rfl

private theorem alGet_nodesOf' (k : Known) (id : Nat) : alGet id (nodesOf k) = (alGet id k).map (·.node) := by
  induction k with
  | nil => rfl
  | cons e k ih =>
    obtain ⟨k0, v⟩ := e
    simp only [nodesOf, List.map_cons, alGet] at ih ⊢
    split
    · rfl
    · exact ih

/-- **No stale `Node` object reaches the policy**: after EVERY history of metadata refreshes (nodes re-created because
their datacenter / rack / address / host-filter verdict changed, nodes leaving and joining) and learnt tablets (with
replicas unknown at that moment), in any order, every replica object of every tablet - in the full list and in every
per-datacenter list - is the object registered in the current `known_nodes`.  In particular a refresh that only
RE-CREATES nodes (no node removed, no unknown replica) still walks the tablets. -/
theorem thplan_no_stale_object (kss : List (String × Bool × List String)) (ops : List HOp) :
    staleReps (hrun kss ops) = [] := by
  rw [hrun_eq_crun]
  obtain ⟨_, hs⟩ := stateOk_run (ops.map (toC kss))
  generalize crun (ops.map (toC kss)) = cs at hs
  unfold staleReps
  rw [List.eq_nil_iff_forall_not_mem]
  intro r hr
  obtain ⟨e, he, hr⟩ := List.mem_flatMap.mp hr
  obtain ⟨t, ht, hr⟩ := List.mem_flatMap.mp hr
  obtain ⟨hmem, hstale⟩ := List.mem_filter.mp hr
  obtain ⟨hc, hd⟩ := hs e he t ht
  have hall : r ∈ t.replicas.all := by
    rcases List.mem_append.mp hmem with h | h
    · exact h
    · obtain ⟨dc, _, h⟩ := List.mem_flatMap.mp h
      rw [hd dc] at h
      exact (List.mem_filter.mp h).1
  have := hc r hall
  rw [alGet_nodesOf'] at this
  unfold objCurrent at hstale
  cases hk : alGet r.1.hostId cs.known with
  | none => rw [hk] at this; cases this
  | some k =>
    rw [hk] at this hstale
    simp only [Option.map_some, Option.some.injEq] at this
    simp [this] at hstale

/-- The node object `calculate_new_topology` hands out for a peer - in EVERY arm of its reuse match (kept object,
`inherit_with_ip_changed`, `Node::new`, `Node::new_disabled`) - has the peer's datacenter and rack and is enabled iff the
host filter accepted the peer. -/
theorem nodeFor_carries_peer (old : Known) (gen : Nat) (p : Peer) :
    (nodeFor old gen p).1.enabled = p.accepted ∧ (nodeFor old gen p).1.node.dc = p.dc ∧
      (nodeFor old gen p).1.rack = p.rack := by
  unfold nodeFor
  split
  · rename_i n ha _
    split
    · rename_i h
      simp only [Bool.and_eq_true, Bool.not_eq_eq_eq_not, Bool.not_true, decide_eq_true_eq] at h
      exact ⟨by rw [ha]; exact h.1.1.1, h.1.1.2, h.1.2⟩
    · exact ⟨rfl, rfl, rfl⟩
  · rename_i n ha _
    split
    · rename_i h
      simp only [Bool.and_eq_true, decide_eq_true_eq] at h
      split
      · exact ⟨by rw [ha]; exact h.1.1, h.1.2, h.2⟩
      · exact ⟨rfl, rfl, rfl⟩
    · exact ⟨rfl, rfl, rfl⟩
  · exact ⟨rfl, rfl, rfl⟩

private theorem alGet_alSet' {κ β : Type} [DecidableEq κ] (k k' : κ) (v : β) (m : List (κ × β)) :
    alGet k' (alSet k v m) = if k' = k then some v else alGet k' m := by
  induction m with
  | nil =>
    by_cases h : k' = k
    · subst h; simp [alSet, alGet]
    · have : ¬ k = k' := fun e => h e.symm
      simp [alSet, alGet, h, this]
  | cons e m ih =>
    obtain ⟨k0, v0⟩ := e
    by_cases h0 : k0 = k
    · subst h0
      by_cases h : k' = k0
      · subst h; simp [alSet, alGet]
      · have : ¬ k0 = k' := fun e => h e.symm
        simp [alSet, alGet, h, this]
    · by_cases h : k' = k
      · subst h
        simp [alSet, alGet, h0, ih]
      · simp only [alSet, h0, if_false, alGet, ih, h]

/-- **`known_nodes` after a refresh is the last metadata**: every known node of the new state belongs to a peer of the
refresh's peer list and has that peer's datacenter, rack and host-filter verdict - whatever the previous state was. -/
theorem known_of_last_metadata (cs : CState) (peers : List Peer) (kss : List (String × Bool × List String))
    (id : Nat) (k : KNode) (h : alGet id (refresh cs peers kss).known = some k) :
    ∃ p ∈ peers, p.hostId = id ∧ k.enabled = p.accepted ∧ k.node.dc = p.dc ∧ k.rack = p.rack := by
  have key : ∀ (ps : List Peer) (acc : Known × Nat),
      (∀ id k, alGet id acc.1 = some k → ∃ p ∈ peers, p.hostId = id ∧ k.enabled = p.accepted ∧ k.node.dc = p.dc ∧ k.rack = p.rack) →
      (∀ p ∈ ps, p ∈ peers) →
      ∀ id k, alGet id (ps.foldl (fun (acc : Known × Nat) p =>
          let r := nodeFor cs.known acc.2 p
          (alSet p.hostId r.1 acc.1, r.2)) acc).1 = some k →
        ∃ p ∈ peers, p.hostId = id ∧ k.enabled = p.accepted ∧ k.node.dc = p.dc ∧ k.rack = p.rack := by
    intro ps
    induction ps with
    | nil => intro acc hacc _ id k hk; exact hacc id k hk
    | cons p ps ih =>
      intro acc hacc hsub id k hk
      rw [List.foldl_cons] at hk
      refine ih _ ?_ (fun q hq => hsub q (List.mem_cons_of_mem _ hq)) id k hk
      intro id' k' hk'
      simp only at hk'
      rw [alGet_alSet'] at hk'
      split at hk'
      · rename_i hid
        cases hk'
        obtain ⟨h1, h2, h3⟩ := nodeFor_carries_peer cs.known acc.2 p
        exact ⟨p, hsub p List.mem_cons_self, hid.symm, h1, h2, h3⟩
      · exact hacc id' k' hk'
  exact key peers ([], cs.gen) (fun id k hk => by simp [alGet] at hk) (fun _ hp => hp) id k h

/-- **What the policy reads on a tablet replica is the last metadata**: after any history, one more refresh to `peers`
and any tablets learnt afterwards, every replica object of every tablet is the current object of its host, and that
object has the datacenter, the rack and the enabled-ness (= host-filter verdict) of a peer of `peers` - never those of an
earlier metadata. -/
theorem thplan_replicas_of_last_metadata (kss : List (String × Bool × List String)) (ops : List HOp) (peers : List Peer)
    (learns : List ((String × String) × Int × Int × List (Nat × Nat)))
    (e : (String × String) × Table) (t : Tablet) (r : Rep)
    (he : e ∈ (hrun kss (ops ++ .refresh peers :: learns.map (fun l => .learn l.1 l.2.1 l.2.2.1 l.2.2.2))).info.tables)
    (ht : t ∈ e.2.tablets) (hr : r ∈ t.replicas.all) :
    ∃ k, alGet r.1.hostId (hrun kss (ops ++ [.refresh peers])).known = some k ∧ k.node = r.1 ∧
      ∃ p ∈ peers, p.hostId = r.1.hostId ∧ k.enabled = p.accepted ∧ r.1.dc = p.dc ∧ k.rack = p.rack := by
  -- learning does not touch `known_nodes`
  have hknown : ∀ (ls : List ((String × String) × Int × Int × List (Nat × Nat))) (cs : CState),
      ((ls.map (fun l => HOp.learn l.1 l.2.1 l.2.2.1 l.2.2.2)).foldl (hstep kss) cs).known = cs.known := by
    intro ls
    induction ls with
    | nil => intro cs; rfl
    | cons l ls ih => intro cs; rw [List.map_cons, List.foldl_cons, ih]; rfl
  have hsplit : hrun kss (ops ++ .refresh peers :: learns.map (fun l => .learn l.1 l.2.1 l.2.2.1 l.2.2.2)) =
      (learns.map (fun l => HOp.learn l.1 l.2.1 l.2.2.1 l.2.2.2)).foldl (hstep kss) (hrun kss (ops ++ [.refresh peers])) := by
    unfold hrun
    rw [List.foldl_append, List.foldl_append, List.foldl_cons, List.foldl_cons, List.foldl_nil]
  have hstale := thplan_no_stale_object kss (ops ++ .refresh peers :: learns.map (fun l => .learn l.1 l.2.1 l.2.2.1 l.2.2.2))
  have hk0 : (hrun kss (ops ++ .refresh peers :: learns.map (fun l => .learn l.1 l.2.1 l.2.2.1 l.2.2.2))).known =
      (hrun kss (ops ++ [.refresh peers])).known := by rw [hsplit, hknown]
  have hcur : objCurrent (hrun kss (ops ++ [.refresh peers])).known r = true := by
    rw [← hk0]
    cases hn : objCurrent (hrun kss (ops ++ .refresh peers :: learns.map (fun l => .learn l.1 l.2.1 l.2.2.1 l.2.2.2))).known r with
    | true => rfl
    | false =>
    exfalso
    have : r ∈ staleReps (hrun kss (ops ++ .refresh peers :: learns.map (fun l => .learn l.1 l.2.1 l.2.2.1 l.2.2.2))) := by
      unfold staleReps
      refine List.mem_flatMap.mpr ⟨e, he, List.mem_flatMap.mpr ⟨t, ht, List.mem_filter.mpr ⟨List.mem_append_left _ hr, ?_⟩⟩⟩
      simp [hn]
    rw [hstale] at this
    cases this
  unfold objCurrent at hcur
  cases hk : alGet r.1.hostId (hrun kss (ops ++ [.refresh peers])).known with
  | none => rw [hk] at hcur; cases hcur
  | some k =>
    rw [hk] at hcur
    have hkn : k.node = r.1 := by simpa using hcur
    refine ⟨k, rfl, hkn, ?_⟩
    have hlast : hrun kss (ops ++ [.refresh peers]) = refresh (hrun kss ops) peers kss := by
      unfold hrun; rw [List.foldl_append]; rfl
    rw [hlast] at hk
    obtain ⟨p, hp, h1, h2, h3, h4⟩ := known_of_last_metadata _ peers kss _ k hk
    exact ⟨p, hp, h1, h2, by rw [← hkn]; exact h3, h4⟩

/-! non-vacuity: node 1 is learnt as the replica of a tablet while accepted in `dc1`; the next refresh reports it in
`dc2` and the host filter rejects it - no node is removed, no replica is unknown.  The tablet then holds the NEW object
(generation 2, `dc2`), which `known_nodes` reports as disabled. -/
example :
    let ops : List HOp := [.refresh [⟨1, some "dc1", some "r1", 0, true⟩, ⟨2, some "dc1", some "r1", 1, true⟩],
      .learn ("k0", "t") 1 9 [(1, 3)], .refresh [⟨1, some "dc2", some "r1", 0, false⟩, ⟨2, some "dc1", some "r1", 1, true⟩]]
    let cs := hrun (kssOf 1) ops
    (cs.info.tables.map (fun e => e.2.tablets.map (fun t => t.replicas.all))) = [[[(⟨1, some "dc2", 2⟩, 3)]]] ∧
      (alGet 1 cs.known).map (·.enabled) = some false ∧ staleReps cs = [] := by decide

end ScyllaVerif.Props.C05Tablets

/-
C12 — token-aware requests are first sent to an owning replica and shard.
A COMPOSITION property: the theorems below are corollaries of C03 (`token_formula`), C04 (`views_agree`, the placement
rules), C05 (`plan_order`, `plan_complete`, `pick_spec`, `classOf_eq`), C11 (`shardOfImpl_eq_spec`, `shardOfImpl_lt`) and
C15 (`lookup_refines`, `dc_restrict`), plus what exists only here: the default policy over a TABLET replica set and the
per-node connection pool (`connection_for_shard`, the refiller's filing of ready connections).
Model: `Model/Routing.lean`.
-/
import ScyllaVerif.Model.Routing
import ScyllaVerif.Proofs.Plan
import ScyllaVerif.Props.C03
import ScyllaVerif.Props.C04
import ScyllaVerif.Props.C05
import ScyllaVerif.Props.C11
import ScyllaVerif.Props.C15
import Std.Data.String.ToNat

namespace ScyllaVerif.Props.C12
open ScyllaVerif.Ring ScyllaVerif.Replicas ScyllaVerif.Plan ScyllaVerif.Routing
open ScyllaVerif.Proofs.Plan

/-! ## 1. The connection pool -/

/-- What `ShardInfo::new` guarantees about a connection's shard info (C11 `shardinfo_valid`). -/
def ValidConn (c : Conn) : Prop := ∀ i, c.info = some i → i.shard < i.nr

/-- Every connection filed in bucket `i` satisfies `P i`. -/
def Filed (b : List (List Conn)) (P : Nat → Conn → Prop) : Prop :=
  ∀ i bucket, b[i]? = some bucket → ∀ c ∈ bucket, P i c

/-- A published pool is well-filed: one bucket per shard, every connection in bucket `i` was told by the server that it
is on shard `i` of this very sharder, and the pool is not empty; an unsharded pool holds only connections without
shard info. -/
def PoolOk : PoolConns → Prop
  | .notSharded l => l ≠ [] ∧ ∀ c ∈ l, c.info = none
  | .sharded s b => b.length = s.nr ∧ Filed b (fun i c => shardIdOf c = i ∧ sharderOf c = some s) ∧
      ∃ (i : Nat) (bucket : List Conn), b[i]? = some bucket ∧ bucket ≠ []

/-- The refiller's invariant. -/
structure Inv (rf : Refiller) : Prop where
  len : rf.conns.length = (match rf.sharder with | some s => s.nr | none => 1)
  filed : Filed rf.conns (fun i c => shardIdOf c = i ∧ sharderOf c = rf.sharder)
  shared : ∀ p, rf.shared = some p → PoolOk p

private theorem chooseConn_none {v : List Conn} {r : Nat} (h : chooseConn v r = none) : v = [] := by
  unfold chooseConn at h
  cases v with
  | nil => rfl
  | cons a l =>
    simp only [List.isEmpty_cons, Bool.false_eq_true, if_false] at h
    have : r % (a :: l).length < (a :: l).length := Nat.mod_lt _ (by simp)
    rw [List.getElem?_eq_none_iff] at h
    omega

private theorem chooseConn_mem {v : List Conn} {r : Nat} {c : Conn} (h : chooseConn v r = some c) : c ∈ v := by
  unfold chooseConn at h
  split at h
  · cases h
  · exact List.mem_of_getElem? h

private theorem chooseConn_some_of_ne {v : List Conn} (r : Nat) (h : v ≠ []) : ∃ c ∈ v, chooseConn v r = some c := by
  cases hc : chooseConn v r with
  | none => exact absurd (chooseConn_none hc) h
  | some c => exact ⟨c, chooseConn_mem hc, rfl⟩

/-! ### `swap_remove` -/

private theorem swapRemoveAt_length {α : Type} (l : List α) (idx : Nat) (h : l ≠ []) :
    (swapRemoveAt l idx).length = l.length - 1 := by
  unfold swapRemoveAt
  cases hl : l.getLast? with
  | none => exact absurd (List.getLast?_eq_none_iff.mp hl) h
  | some last => simp

/-- Every element other than the removed one is still there. -/
private theorem swapRemoveAt_mem {α : Type} (l : List α) (idx : Nat) (hi : idx < l.length) (x : α) (hx : x ∈ l) :
    x = l[idx] ∨ x ∈ swapRemoveAt l idx := by
  unfold swapRemoveAt
  cases hl : l.getLast? with
  | none =>
    have := List.getLast?_eq_none_iff.mp hl
    subst this; simp at hi
  | some last =>
    simp only []
    obtain ⟨k, hk, rfl⟩ := List.getElem_of_mem hx
    by_cases hki : k = idx
    · subst hki; exact Or.inl rfl
    · right
      have hlast : l[l.length - 1]? = some last := by rw [← List.getLast?_eq_getElem?]; exact hl
      have hlen : ((l.set idx last).dropLast).length = l.length - 1 := by simp
      by_cases hkl : k < l.length - 1
      · -- position k survives
        have : ((l.set idx last).dropLast)[k]? = some l[k] := by
          rw [List.getElem?_dropLast]
          simp only [List.length_set]
          rw [if_pos hkl, List.getElem?_set]
          simp [Ne.symm hki, hk]
        exact List.mem_of_getElem? this
      · -- k is the last position: its element was moved to idx
        have hkeq : k = l.length - 1 := by omega
        have hidx : idx < l.length - 1 := by omega
        have hlk : l[k] = last := by
          have : l[k]? = some last := by rw [hkeq]; exact hlast
          rw [List.getElem?_eq_getElem hk] at this
          exact Option.some.inj this
        have : ((l.set idx last).dropLast)[idx]? = some l[k] := by
          rw [List.getElem?_dropLast]
          simp only [List.length_set]
          rw [if_pos hidx, List.getElem?_set]
          simp [hi, hlk]
        exact List.mem_of_getElem? this

private theorem swapRemoveAt_subset {α : Type} (l : List α) (idx : Nat) (x : α) (hx : x ∈ swapRemoveAt l idx) : x ∈ l := by
  unfold swapRemoveAt at hx
  cases hl : l.getLast? with
  | none => rw [hl] at hx; simp at hx
  | some last =>
    rw [hl] at hx
    simp only [] at hx
    have h1 : x ∈ l.set idx last := (List.dropLast_sublist _).subset hx
    rcases List.mem_or_eq_of_mem_set h1 with h | h
    · exact h
    · rw [h]; exact List.mem_of_getLast? hl

/-! ### `connection_for_shard` -/

/-- The fallback loop finds a connection whenever some shard still to be tried has one - for ALL random draws; what
it returns is a pooled connection. Every shard still to be tried indexes an existing bucket (`hin`), so the index
`shard_conns[shard]` of the Rust is never out of bounds. -/
private theorem tryShards_spec (buckets : List (List Conn)) (ρ : Nat → Nat × Nat) :
    ∀ (fuel k : Nat) (toTry : List Nat), toTry.length ≤ fuel → (∀ s ∈ toTry, s < buckets.length) →
      (∃ s ∈ toTry, ∃ bucket : List Conn, buckets[s]? = some bucket ∧ bucket ≠ []) →
      ∃ (c : Conn) (s : Nat) (bucket : List Conn), tryShards buckets ρ fuel k toTry = some c ∧ buckets[s]? = some bucket ∧ c ∈ bucket := by
  intro fuel
  induction fuel with
  | zero =>
    intro k toTry hlen _ ⟨s, hs, _⟩
    have : toTry = [] := List.eq_nil_of_length_eq_zero (by omega)
    subst this; simp at hs
  | succ fuel ih =>
    intro k toTry hlen hin ⟨s, hs, bk, hbk, hne⟩
    have hnn : toTry ≠ [] := by intro h; subst h; simp at hs
    have hpos : 0 < toTry.length := List.length_pos_iff.mpr hnn
    simp only [tryShards]
    rw [if_neg (by simpa using hnn)]
    have hidx : (ρ k).1 % toTry.length < toTry.length := Nat.mod_lt _ hpos
    have e : toTry.getD ((ρ k).1 % toTry.length) 0 = toTry[(ρ k).1 % toTry.length] := by
      simp [List.getD_eq_getElem?_getD, hidx]
    rw [e]
    have hlt : toTry[(ρ k).1 % toTry.length] < buckets.length := hin _ (List.getElem_mem hidx)
    rw [List.getElem?_eq_getElem hlt]
    simp only []
    cases hc : chooseConn buckets[toTry[(ρ k).1 % toTry.length]] (ρ k).2 with
    | some c => exact ⟨c, _, _, rfl, List.getElem?_eq_getElem hlt, chooseConn_mem hc⟩
    | none =>
      simp only []
      have hempty := chooseConn_none hc
      apply ih
      · rw [swapRemoveAt_length _ _ hnn]; omega
      · intro x hx
        exact hin x (swapRemoveAt_subset _ _ x hx)
      · rcases swapRemoveAt_mem toTry _ hidx s hs with h | h
        · exfalso
          apply hne
          rw [h, List.getElem?_eq_getElem hlt] at hbk
          cases hbk
          exact hempty
        · exact ⟨s, h, bk, hbk, hne⟩

/-- **`connection_for_shard`, own bucket.** If the bucket of the requested shard holds a connection, the request
travels on a connection OF THAT BUCKET, whatever the random choices. (`shard < 65536`: a `u16`; larger values are
looked up as shard 0.) -/
theorem connection_for_shard_own_bucket (s : SharderM) (b : List (List Conn)) (shard : Nat) (bucket : List Conn)
    (hs : shard < 65536) (hb : b[shard]? = some bucket) (hne : bucket ≠ []) (ρ : PoolRho) :
    ∃ c ∈ bucket, connectionForShard (.sharded s b) shard ρ = some c := by
  obtain ⟨c, hc, he⟩ := chooseConn_some_of_ne ρ.first hne
  refine ⟨c, hc, ?_⟩
  simp only [connectionForShard, hs, if_true, hb, Option.bind_some, he]

/-- **`connection_for_shard` never panics on a published pool and returns a pooled connection** (any requested shard,
in range or not; any random choices): the `.unwrap()` / `unreachable!` of the Rust are unreachable. -/
theorem connection_for_shard_total (p : PoolConns) (hp : PoolOk p) (shard : Nat) (ρ : PoolRho) :
    ∃ c, connectionForShard p shard ρ = some c ∧
      (match p with
       | .notSharded l => c ∈ l
       | .sharded _ b => ∃ (i : Nat) (bucket : List Conn), b[i]? = some bucket ∧ c ∈ bucket) := by
  cases p with
  | notSharded l =>
    obtain ⟨c, hc, he⟩ := chooseConn_some_of_ne ρ.first hp.1
    exact ⟨c, he, hc⟩
  | sharded s b =>
    obtain ⟨hlen, _, i, bucket, hib, hne⟩ := hp
    simp only [connectionForShard]
    cases h1 : (b[if shard < 65536 then shard else 0]?).bind (fun b => chooseConn b ρ.first) with
    | some c =>
      simp only []
      obtain ⟨bk, hbk, hcc⟩ := Option.bind_eq_some_iff.mp h1
      exact ⟨c, rfl, _, bk, hbk, chooseConn_mem hcc⟩
    | none =>
      simp only []
      have hi : i < b.length := by
        rcases Nat.lt_or_ge i b.length with h | h
        · exact h
        · rw [List.getElem?_eq_none_iff.mpr h] at hib; cases hib
      obtain ⟨c, s', bk', he, hbk', hm⟩ := tryShards_spec b ρ.tries s.nr 0 (List.range s.nr) (by simp)
        (by intro x hx; rw [hlen]; exact List.mem_range.mp hx)
        ⟨i, List.mem_range.mpr (by omega), bucket, hib, hne⟩
      exact ⟨c, he, s', bk', hbk', hm⟩

/-- **The first attempt's connection is bound to the requested shard whenever the pool has one** - in terms of what
the SERVER said: on a well-filed pool the connection returned for shard `shard` reports shard `shard` if the bucket is
non-empty, and is some pooled connection of the node (reporting the bucket it sits in) otherwise. -/
theorem connection_shard (s : SharderM) (b : List (List Conn)) (hp : PoolOk (.sharded s b)) (shard : Nat) (ρ : PoolRho) :
    ∃ c, connectionForShard (.sharded s b) shard ρ = some c ∧ sharderOf c = some s ∧ shardIdOf c < s.nr ∧
      (∀ bucket, shard < 65536 → b[shard]? = some bucket → bucket ≠ [] → shardIdOf c = shard) := by
  obtain ⟨c, he, i, bk, hbk, hc⟩ := connection_for_shard_total _ hp shard ρ
  obtain ⟨hlen, hfiled, _⟩ := hp
  have hci := hfiled i bk hbk c hc
  have hi : i < b.length := by
    rcases Nat.lt_or_ge i b.length with h | h
    · exact h
    · rw [List.getElem?_eq_none_iff.mpr h] at hbk; cases hbk
  refine ⟨c, he, hci.2, by rw [hci.1]; omega, ?_⟩
  intro bucket hs hb hne
  obtain ⟨c', hc', he'⟩ := connection_for_shard_own_bucket s b shard bucket hs hb hne ρ
  rw [he] at he'
  cases he'
  exact (hfiled shard bucket hb c hc').1

/-! ### the refiller files every connection under the shard the server reported -/

private theorem filed_replicate (n : Nat) (P : Nat → Conn → Prop) : Filed (List.replicate n ([] : List Conn)) P := by
  intro i bucket h c hc
  rw [List.getElem?_replicate] at h
  split at h
  · cases h; simp at hc
  · cases h

private theorem inv_maybeReshard {rf : Refiller} (h : Inv rf) (new : Option SharderM) :
    let rf1 := rf.maybeReshard new
    rf1.sharder = new ∧ Inv rf1 := by
  simp only [Refiller.maybeReshard]
  split
  · rename_i he; exact ⟨he, h⟩
  · refine ⟨rfl, ⟨?_, ?_, h.shared⟩⟩
    · exact List.length_replicate
    · exact filed_replicate _ _

private theorem filed_set {b : List (List Conn)} {P : Nat → Conn → Prop} (h : Filed b P) (sid : Nat) (nb : List Conn)
    (hnb : ∀ c ∈ nb, P sid c) : Filed (b.set sid nb) P := by
  intro i bucket hi c hc
  rw [List.getElem?_set] at hi
  split at hi
  · split at hi
    · cases hi; rename_i he _; subst he; exact hnb c hc
    · cases hi
  · exact h i bucket hi c hc

private theorem inv_of {rf rf' : Refiller} (h : Inv rf) (hs : rf'.sharder = rf.sharder) (hc : rf'.conns = rf.conns)
    (hsh : ∀ p, rf'.shared = some p → PoolOk p) : Inv rf' :=
  ⟨by rw [hc, hs]; exact h.len, by rw [hc, hs]; exact h.filed, hsh⟩

private theorem inv_publish {rf : Refiller} (h : Inv rf) : Inv rf.publish := by
  unfold Refiller.publish
  by_cases hemp : rf.isEmpty = true
  · rw [if_pos hemp]
    exact inv_of h rfl rfl (by intro p hp; cases hp)
  · rw [if_neg hemp]
    have hex : ∃ (i : Nat) (bucket : List Conn), rf.conns[i]? = some bucket ∧ bucket ≠ [] := by
      have hnall : ¬ (∀ x ∈ rf.conns, x.isEmpty = true) := by
        intro hall; apply hemp; simp only [Refiller.isEmpty, List.all_eq_true]; exact hall
      obtain ⟨bucket, hb⟩ := Classical.not_forall.mp hnall
      obtain ⟨hb1, hb2⟩ := Classical.not_imp.mp hb
      obtain ⟨i, hi, rfl⟩ := List.getElem_of_mem hb1
      exact ⟨i, _, List.getElem?_eq_getElem hi, by intro hc; rw [hc] at hb2; exact hb2 rfl⟩
    cases hs : rf.sharder with
    | some s =>
      simp only []
      refine @inv_of rf _ h hs.symm rfl ?_
      intro p hp
      cases hp
      have hlen := h.len
      have hfiled := h.filed
      simp only [hs] at hlen hfiled
      exact ⟨hlen, hfiled, hex⟩
    | none =>
      simp only []
      refine @inv_of rf _ h hs.symm rfl ?_
      intro p hp
      cases hp
      have hlen := h.len
      simp only [hs] at hlen
      obtain ⟨i, bucket, hib, hbne⟩ := hex
      have hi0 : i = 0 := by
        rcases Nat.lt_or_ge i rf.conns.length with hlt | hge
        · omega
        · rw [List.getElem?_eq_none_iff.mpr hge] at hib; cases hib
      subst hi0
      have hg : rf.conns.getD 0 [] = bucket := by rw [List.getD_eq_getElem?_getD, hib]; rfl
      rw [hg]
      refine ⟨hbne, ?_⟩
      intro c hc
      have := (h.filed 0 bucket hib c hc).2
      rw [hs] at this
      unfold sharderOf at this
      cases hci : c.info with
      | none => rfl
      | some i => rw [hci] at this; cases this

/-- **`handle_ready_connection` does not index out of bounds** for a connection whose shard info passed
`ShardInfo::new` (shard < nr_shards): the bucket vector was sized by `maybe_reshard` for that very sharder. -/
theorem handleReady_no_panic {rf : Refiller} (h : Inv rf) (c : Conn) (hv : ValidConn c) (requested : Bool) :
    (rf.handleReady c requested).isSome = true := by
  obtain ⟨hsh, hinv⟩ := inv_maybeReshard h (sharderOf c)
  have hlt : shardIdOf c < (rf.maybeReshard (sharderOf c)).conns.length := by
    rw [hinv.len, hsh]
    unfold shardIdOf sharderOf
    cases hci : c.info with
    | none => simp
    | some i => simp only [Option.map_some]; exact hv i hci
  unfold Refiller.handleReady
  simp only []
  rw [List.getElem?_eq_getElem hlt]
  simp only []
  repeat' split
  all_goals rfl

private theorem inv_handleReady {rf rf' : Refiller} (h : Inv rf) (c : Conn) (requested : Bool)
    (he : rf.handleReady c requested = some rf') : Inv rf' := by
  obtain ⟨hsh, hinv⟩ := inv_maybeReshard h (sharderOf c)
  unfold Refiller.handleReady at he
  simp only [] at he
  cases hb : (rf.maybeReshard (sharderOf c)).conns[shardIdOf c]? with
  | none => rw [hb] at he; cases he
  | some bucket =>
    rw [hb] at he
    simp only [] at he
    cases hacc : (rf.maybeReshard (sharderOf c)).canAccept bucket with
    | true =>
      rw [hacc] at he
      simp only [if_true, Option.some.injEq] at he
      subst he
      apply inv_publish
      refine ⟨?_, ?_, hinv.shared⟩
      · show ((rf.maybeReshard (sharderOf c)).conns.set _ _).length = _
        rw [List.length_set]; exact hinv.len
      · show Filed ((rf.maybeReshard (sharderOf c)).conns.set _ _) _
        apply filed_set hinv.filed
        intro x hx
        rcases List.mem_append.mp hx with hx | hx
        · exact hinv.filed _ bucket hb x hx
        · simp only [List.mem_singleton] at hx
          subst hx
          exact ⟨rfl, hsh.symm⟩
    | false =>
      rw [hacc] at he
      simp only [Bool.false_eq_true, if_false] at he
      cases hr : requested with
      | true =>
        rw [hr] at he
        simp only [if_true, Option.some.injEq] at he
        subst he; exact hinv
      | false =>
        rw [hr] at he
        simp only [Bool.false_eq_true, if_false, Option.some.injEq] at he
        subst he
        exact inv_of hinv rfl rfl hinv.shared

private theorem inv_removeConn {rf : Refiller} (h : Inv rf) (c : Conn) : Inv (rf.removeConn c) := by
  unfold Refiller.removeConn
  simp only []
  split
  · rename_i b' hb'
    obtain ⟨bucket, hbk, hrest⟩ := Option.bind_eq_some_iff.mp hb'
    obtain ⟨i, _, rfl⟩ := Option.map_eq_some_iff.mp hrest
    apply inv_publish
    refine ⟨?_, ?_, h.shared⟩
    · show (rf.conns.set _ _).length = _
      rw [List.length_set]; exact h.len
    · show Filed (rf.conns.set _ _) _
      apply filed_set h.filed
      intro x hx
      exact h.filed _ bucket hbk x (swapRemoveAt_subset _ _ _ hx)
  · split
    · exact inv_of h rfl rfl h.shared
    · exact h

/-- The refiller starts well-filed. -/
theorem inv_init (size : PoolSize) : Inv (Refiller.init size) :=
  ⟨rfl, by
    intro i bucket h c hc
    simp only [Refiller.init] at h
    cases i with
    | zero => simp at h; subst h; simp at hc
    | succ i => simp at h, by intro p hp; cases hp⟩

/-- **Pool filing invariant, one turn of the refiller.** -/
theorem pool_filing_step {rf rf' : Refiller} (h : Inv rf) (e : PoolEvt) (he : rf.step e = some rf') : Inv rf' := by
  cases e with
  | ready c requested =>
    simp only [Refiller.step, Option.map_eq_some_iff] at he
    obtain ⟨rf1, h1, rfl⟩ := he
    have := inv_handleReady h c requested h1
    split
    · exact inv_of this rfl rfl this.shared
    · exact this
  | broken c =>
    simp only [Refiller.step, Option.some.injEq] at he
    subst he
    exact inv_removeConn h c

/-- **Pool filing invariant** (`handle_ready_connection` / `remove_connection` / `update_shared_conns`): after ANY
sequence of ready / broken connection events, every connection in bucket `s` of the refiller - and of the pool it
published for `connection_for_shard` - is one the server reported to be on shard `s` of the current sharder; the
published pool is never empty. -/
theorem pool_filing_invariant (size : PoolSize) (evts : List PoolEvt) (rf : Refiller)
    (h : (Refiller.init size).run evts = some rf) : Inv rf := by
  have key : ∀ (evts : List PoolEvt) (r0 : Refiller), Inv r0 → r0.run evts = some rf → Inv rf := by
    intro evts
    induction evts with
    | nil => intro r0 h0 he; simp only [Refiller.run, Option.some.injEq] at he; subst he; exact h0
    | cons e es ih =>
      intro r0 h0 he
      simp only [Refiller.run] at he
      cases hs : r0.step e with
      | none => rw [hs] at he; cases he
      | some r1 => rw [hs] at he; exact ih r1 (pool_filing_step h0 e hs) he
  exact key evts _ (inv_init size) h

/-- ... and the run never panics when every arriving connection carries valid shard info. -/
theorem pool_run_no_panic (size : PoolSize) (evts : List PoolEvt)
    (hv : ∀ c r, PoolEvt.ready c r ∈ evts → ValidConn c) : ((Refiller.init size).run evts).isSome = true := by
  have key : ∀ (evts : List PoolEvt) (r0 : Refiller), Inv r0 → (∀ c r, PoolEvt.ready c r ∈ evts → ValidConn c) →
      (r0.run evts).isSome = true := by
    intro evts
    induction evts with
    | nil => intro r0 _ _; rfl
    | cons e es ih =>
      intro r0 h0 hv
      simp only [Refiller.run]
      have hsome : (r0.step e).isSome = true := by
        cases e with
        | ready c r =>
          simp only [Refiller.step, Option.isSome_map]
          exact handleReady_no_panic h0 c (hv c r List.mem_cons_self) r
        | broken c => rfl
      cases hs : r0.step e with
      | none => rw [hs] at hsome; cases hsome
      | some r1 =>
        simp only []
        exact ih r1 (pool_filing_step h0 e hs) (fun c r hm => hv c r (List.mem_cons_of_mem _ hm))
  exact key evts _ (inv_init size) hv

-- non-vacuity: a 3-shard node; connections arrive on shards 1, 1 (excess for PerShard(1)), 2; the one on shard 1 breaks
private def cA : Conn := ⟨0, some ⟨1, 3, 12⟩⟩
private def cB : Conn := ⟨1, some ⟨1, 3, 12⟩⟩
private def cC : Conn := ⟨2, some ⟨2, 3, 12⟩⟩
example : ((Refiller.init (.perShard 1)).run [.ready cA false, .ready cB false, .ready cC true]).map
    (fun rf => (rf.conns, rf.excess)) = some ([[], [cA], [cC]], [cB]) := by decide
example : (((Refiller.init (.perShard 1)).run [.ready cA false, .ready cB false, .ready cC true, .broken cA]).bind
    (·.shared)).map (fun p => match p with | .sharded _ b => b | .notSharded l => [l]) = some [[], [], [cC]] := by decide
-- requests for shard 2 use cC; requests for shard 0 (empty bucket) or 7 (out of range) fall back to a pooled connection
example : (connectionForShard (.sharded ⟨3, 12⟩ [[], [cA], [cC]]) 2 ⟨5, fun _ => (0, 0)⟩).map (·.id) = some 2 ∧
    (connectionForShard (.sharded ⟨3, 12⟩ [[], [cA], [cC]]) 0 ⟨5, fun k => (k, 3)⟩).map (·.id) = some 0 ∧
    (connectionForShard (.sharded ⟨3, 12⟩ [[], [cA], [cC]]) 7 ⟨5, fun _ => (2, 0)⟩).map (·.id) = some 2 ∧
    (connectionForShard (.sharded ⟨3, 12⟩ [[], [cA], [cC]]) 65538 ⟨0, fun _ => (0, 0)⟩).map (·.id) = some 2 := by decide
example : ValidConn cA := by intro i h; cases h; decide

/-! ### the pool adopts the sharder the node reports NOW (node restart with new sharding parameters) -/

private theorem publish_sharder (rf : Refiller) : rf.publish.sharder = rf.sharder := by
  unfold Refiller.publish
  split
  · rfl
  · split <;> rfl

private theorem maybeReshard_sharder (rf : Refiller) (new : Option SharderM) : (rf.maybeReshard new).sharder = new := by
  unfold Refiller.maybeReshard
  split
  · assumption
  · rfl

/-- **After `handle_ready_connection` the refiller's sharder is the one this connection reports - shard count AND
`SCYLLA_SHARDING_IGNORE_MSB`.** A node that restarts with the same shard count but another ignore-msb value (or
becomes unsharded / sharded) is therefore not served with a stale sharder: whatever is published afterwards, and
`Node::sharder()` with it, is computed from the node's current parameters. (End-to-end: the `rs=` histories of
`e2e route`, harness/src/e2e/route.rs.) -/
theorem handleReady_adopts_reported_sharder {rf rf' : Refiller} (c : Conn) (requested : Bool)
    (he : rf.handleReady c requested = some rf') : rf'.sharder = sharderOf c := by
  have hsh := maybeReshard_sharder rf (sharderOf c)
  unfold Refiller.handleReady at he
  simp only [] at he
  cases hb : (rf.maybeReshard (sharderOf c)).conns[shardIdOf c]? with
  | none => rw [hb] at he; cases he
  | some bucket =>
    rw [hb] at he
    simp only [] at he
    split at he
    · simp only [Option.some.injEq] at he
      subst he
      rw [publish_sharder]
      exact hsh
    · split at he
      · simp only [Option.some.injEq] at he
        subst he
        exact hsh
      · simp only [Option.some.injEq] at he
        subst he
        exact hsh

/-- ... and what the pool publishes next carries that sharder. -/
theorem handleReady_publishes_reported_sharder {rf rf' : Refiller} (c : Conn) (requested : Bool)
    (he : rf.handleReady c requested = some rf') (s : SharderM) (b : List (List Conn))
    (hp : rf'.publish.shared = some (.sharded s b)) : some s = sharderOf c := by
  have h := handleReady_adopts_reported_sharder c requested he
  unfold Refiller.publish at hp
  split at hp
  · cases hp
  · split at hp
    · rename_i s' hs'
      simp only [Option.some.injEq, PoolConns.sharded.injEq] at hp
      rw [← h, hs', hp.1]
    · cases hp

-- non-vacuity: a 4-shard node restarts with the same count and ignore_msb 0 instead of 12 (old connections broke first)
private def cD : Conn := ⟨3, some ⟨2, 4, 12⟩⟩
private def cE : Conn := ⟨4, some ⟨1, 4, 0⟩⟩
example : (((Refiller.init (.perShard 1)).run [.ready cD false, .broken cD, .ready cE false]).map (·.sharder)) = some (some ⟨4, 0⟩) := by decide

/-! ## 2. Tables with tablets: the first attempt goes to a live replica of the covering tablet, with the tablet's shard -/

private theorem chooseFilteredT_none {l : List SRep} {pred : SRep → Bool} {i j : Nat}
    (h : chooseFilteredT l pred i j = none) : l.filter pred = [] := by
  unfold chooseFilteredT at h
  split at h
  · rename_i h0
    rw [List.eq_nil_of_length_eq_zero h0]; rfl
  · rename_i h0
    have hlt : i % l.length < l.length := Nat.mod_lt _ (by omega)
    rw [List.getElem?_eq_getElem hlt] at h
    simp only [] at h
    split at h
    · cases h
    · cases hc : l.filter pred with
      | nil => rfl
      | cons a cs =>
        exfalso
        rw [hc] at h
        have : j % (a :: cs).length < (a :: cs).length := Nat.mod_lt _ (by simp)
        rw [List.getElem?_eq_none_iff] at h
        omega

private theorem chooseFilteredT_some {l : List SRep} {pred : SRep → Bool} {i j : Nat} {r : SRep}
    (h : chooseFilteredT l pred i j = some r) : r ∈ l.filter pred := by
  unfold chooseFilteredT at h
  split at h
  · cases h
  · split at h
    · cases h
    · rename_i happy hh
      split at h
      · rename_i hp
        cases h
        exact List.mem_filter.mpr ⟨List.mem_of_getElem? hh, hp⟩
      · exact List.mem_of_getElem? h

/-- A token-aware step of `pick` and the like-numbered replica group of `fallback` fit together (tablet tables): what
the step returns is in the group, and it falls through only when the group is empty - for all random choices. -/
private theorem fit_replicaT (cl : Cluster) (V : Option Nat → List SRep) (crit : Pref) (lwt : Bool) (i j : Nat)
    (shuf : List Nat) :
    Fit ((pickReplicaT cl V crit lwt i j).map retPickedT) (replicaTargetsT cl V crit lwt shuf) := by
  cases lwt with
  | true =>
    simp only [pickReplicaT, replicaTargetsT, if_true]
    have nonany : crit ≠ .any → Fit ((((filteredT cl V crit).head?).map PickedT.computed).map retPickedT)
        ((filteredT cl V crit).map targetT) := by
      intro _
      cases hf : filteredT cl V crit with
      | nil => exact ⟨by simp, fun _ => rfl⟩
      | cons a l =>
        refine ⟨?_, by simp⟩
        intro t ht
        simp only [List.head?_cons, Option.map_some, retPickedT, Option.some.injEq] at ht
        subst ht
        exact List.mem_map.mpr ⟨a, List.mem_cons_self, rfl⟩
    cases crit with
    | any =>
      simp only [pickFirstT]
      cases hv : V none with
      | nil => exact ⟨by simp, fun _ => by simp [filteredT, Pref.datacenter, hv]⟩
      | cons p l =>
        refine ⟨?_, by simp⟩
        intro t ht
        simp only [List.head?_cons, Option.map_some] at ht
        by_cases ha : cl.alive p.1 = true
        · simp only [ha, if_true, retPickedT, Option.some.injEq] at ht
          subst ht
          refine List.mem_map.mpr ⟨p, ?_, rfl⟩
          simp only [filteredT, Pref.datacenter, hv]
          exact List.mem_filter.mpr ⟨List.mem_cons_self, by simp [predT, ha, rackOk]⟩
        · simp only [ha, Bool.false_eq_true, if_false, retPickedT, Option.some.injEq] at ht
          cases ht
    | dc d => exact nonany (by simp)
    | dcRack d r => exact nonany (by simp)
  | false =>
    simp only [pickReplicaT, replicaTargetsT, Bool.false_eq_true, if_false]
    refine ⟨?_, ?_⟩
    · intro t ht
      cases hc : chooseFilteredT (V crit.datacenter) (predT cl crit) i j with
      | none => rw [hc] at ht; cases ht
      | some r =>
        rw [hc] at ht
        simp only [Option.map_some, retPickedT, Option.some.injEq] at ht
        subst ht
        have hr : r ∈ filteredT cl V crit := chooseFilteredT_some hc
        exact List.mem_map.mpr ⟨r, (shuffleWith_perm shuf _).mem_iff.mpr hr, rfl⟩
    · intro hn
      cases hc : chooseFilteredT (V crit.datacenter) (predT cl crit) i j with
      | some r => rw [hc] at hn; cases hn
      | none =>
        have : filteredT cl V crit = [] := chooseFilteredT_none hc
        rw [this]
        have := (shuffleWith_perm shuf ([] : List SRep)).eq_nil
        rw [this]; rfl

/-- Only the unrestricted LWT step can answer "compute it in `fallback`". -/
private theorem step_ne_some_none (cl : Cluster) (V : Option Nat → List SRep) (crit : Pref) (lwt : Bool) (i j : Nat)
    (hc : crit ≠ .any) : (pickReplicaT cl V crit lwt i j).map retPickedT ≠ some none := by
  intro h
  obtain ⟨p, hp, hr⟩ := Option.map_eq_some_iff.mp h
  cases p with
  | computed r => cases hr
  | toBeComputedInFallback =>
    unfold pickReplicaT at hp
    cases lwt with
    | true =>
      simp only [if_true] at hp
      cases crit with
      | any => exact hc rfl
      | dc d => simp only [pickFirstT] at hp; obtain ⟨_, _, h2⟩ := Option.map_eq_some_iff.mp hp; cases h2
      | dcRack d r => simp only [pickFirstT] at hp; obtain ⟨_, _, h2⟩ := Option.map_eq_some_iff.mp hp; cases h2
    | false =>
      simp only [Bool.false_eq_true, if_false] at hp
      obtain ⟨_, _, h2⟩ := Option.map_eq_some_iff.mp hp
      cases h2

private theorem uniqueBy_head (l : List Target) : (uniqueBy l).head? = l.head? := by
  cases l with
  | nil => rfl
  | cons a l => simp [uniqueBy, uniqueByFrom]

private theorem planOf_head (pk : Option Target) (fb : List Target) :
    (planOf pk fb).head? = (match pk with | some t => some t | none => fb.head?) := by
  cases pk with
  | some t => rfl
  | none => cases fb <;> rfl

/-- Three steps that fit three groups, the first two never answering "compute in fallback": when some group is
non-empty the plan starts with a member of the FIRST non-empty group. -/
private theorem head_of_three {s1 s2 s3 : Option (Option Target)} {g1 g2 g3 : List Target}
    (restS : List (Option (Option Target))) (restG : List (List Target))
    (f1 : Fit s1 g1) (f2 : Fit s2 g2) (f3 : Fit s3 g3) (n1 : s1 ≠ some none) (n2 : s2 ≠ some none)
    (hne : g1 ++ g2 ++ g3 ≠ []) :
    ∃ t, (planOf ((firstReturn ([s1, s2, s3] ++ restS)).getD none) (uniqueBy (([g1, g2, g3] ++ restG).flatten))).head?
        = some t ∧
      (g1 ≠ [] → t ∈ g1) ∧ (g1 = [] → g2 ≠ [] → t ∈ g2) ∧ (g1 = [] → g2 = [] → t ∈ g3) := by
  rw [planOf_head, uniqueBy_head]
  cases s1 with
  | some r1 =>
    cases r1 with
    | none => exact absurd rfl n1
    | some t =>
      have ht := f1.1 t rfl
      have hg : g1 ≠ [] := by intro h; rw [h] at ht; cases ht
      exact ⟨t, rfl, fun _ => ht, fun h => absurd h hg, fun h => absurd h hg⟩
  | none =>
    have hg1 : g1 = [] := f1.2 rfl
    subst hg1
    cases s2 with
    | some r2 =>
      cases r2 with
      | none => exact absurd rfl n2
      | some t =>
        have ht := f2.1 t rfl
        have hg : g2 ≠ [] := by intro h; rw [h] at ht; cases ht
        exact ⟨t, rfl, fun h => absurd rfl h, fun _ _ => ht, fun _ h => absurd h hg⟩
    | none =>
      have hg2 : g2 = [] := f2.2 rfl
      subst hg2
      have hg3 : g3 ≠ [] := by simpa using hne
      cases s3 with
      | some r3 =>
        cases r3 with
        | some t =>
          exact ⟨t, rfl, fun h => absurd rfl h, fun _ h => absurd rfl h, fun _ _ => f3.1 t rfl⟩
        | none =>
          cases g3 with
          | nil => exact absurd rfl hg3
          | cons a l =>
            exact ⟨a, by simp [firstReturn], fun h => absurd rfl h, fun _ h => absurd rfl h, fun _ _ => List.mem_cons_self⟩
      | none => exact absurd (f3.2 rfl) hg3

/-- The live replicas of the token under a location criterion, as targets: `(node, Some(the replica's own shard))`. -/
def liveTargetsT (cl : Cluster) (V : Option Nat → List SRep) (crit : Pref) : List Target :=
  (filteredT cl V crit).map targetT

private theorem mem_replicaTargetsT {cl : Cluster} {V : Option Nat → List SRep} {crit : Pref} {lwt : Bool}
    {shuf : List Nat} {t : Target} : t ∈ replicaTargetsT cl V crit lwt shuf ↔ t ∈ liveTargetsT cl V crit := by
  unfold replicaTargetsT liveTargetsT
  cases lwt with
  | true => simp
  | false =>
    simp only [Bool.false_eq_true, if_false, List.mem_map]
    constructor
    · rintro ⟨r, hr, rfl⟩; exact ⟨r, (shuffleWith_perm shuf _).mem_iff.mp hr, rfl⟩
    · rintro ⟨r, hr, rfl⟩; exact ⟨r, (shuffleWith_perm shuf _).mem_iff.mpr hr, rfl⟩

private theorem replicaTargetsT_nil_iff {cl : Cluster} {V : Option Nat → List SRep} {crit : Pref} {lwt : Bool}
    {shuf : List Nat} : replicaTargetsT cl V crit lwt shuf = [] ↔ liveTargetsT cl V crit = [] := by
  constructor
  · intro h
    cases hl : liveTargetsT cl V crit with
    | nil => rfl
    | cons a l =>
      have : a ∈ replicaTargetsT cl V crit lwt shuf := mem_replicaTargetsT.mpr (by rw [hl]; exact List.mem_cons_self)
      rw [h] at this; cases this
  · intro h
    cases hl : replicaTargetsT cl V crit lwt shuf with
    | nil => rfl
    | cons a l =>
      have : a ∈ liveTargetsT cl V crit := mem_replicaTargetsT.mp (by rw [hl]; exact List.mem_cons_self)
      rw [h] at this; cases this

/-- **First attempt on a table with tablets** (`V dc` = the replicas of the tablet covering the token, all of them or
those of one datacenter, each with the tablet's shard), for ALL random choices of `pick` and `fallback`, LWT or not:
 * a datacenter `d` is preferred and holds a live replica → the first target is a live replica of `d` (one in the
   preferred rack if that rack holds a live replica), carrying the shard the TABLET names for it;
 * no datacenter is preferred, or failover is permitted, and some replica is live → the first target is a live replica
   with its tablet shard (a local one whenever one is live). -/
theorem first_attempt_is_tablet_replica (cl : Cluster) (cfg : Config) (rq : Request) (V : Option Nat → List SRep)
    (ρp : RhoPick) (ρf : RhoFb) (haware : tokenAware cl cfg rq = true) :
    (∀ d, (preference cfg rq).datacenter = some d → liveTargetsT cl V (.dc d) ≠ [] →
      ∃ t, (planT cl cfg rq V ρp ρf).head? = some t ∧ t ∈ liveTargetsT cl V (.dc d) ∧
        (∀ r, preference cfg rq = .dcRack d r → liveTargetsT cl V (.dcRack d r) ≠ [] →
          t ∈ liveTargetsT cl V (.dcRack d r))) ∧
    (((preference cfg rq).datacenter = none ∨ cfg.failover = true) → liveTargetsT cl V .any ≠ [] →
      ∃ t, (planT cl cfg rq V ρp ρf).head? = some t ∧
        (t ∈ liveTargetsT cl V .any ∨ ∃ d, (preference cfg rq).datacenter = some d ∧ t ∈ liveTargetsT cl V (.dc d))) := by
  -- the rack group is contained in the datacenter group
  have rack_sub : ∀ d r t, t ∈ liveTargetsT cl V (.dcRack d r) → t ∈ liveTargetsT cl V (.dc d) := by
    intro d r t ht
    obtain ⟨x, hx, rfl⟩ := List.mem_map.mp ht
    refine List.mem_map.mpr ⟨x, ?_, rfl⟩
    simp only [filteredT, Pref.datacenter, List.mem_filter, predT, Bool.and_eq_true] at hx ⊢
    exact ⟨hx.1, hx.2.1, by simp [rackOk]⟩
  unfold planT pickT fallbackT
  rw [haware]
  simp only [if_true]
  unfold replicaStepsT replicaGroupsT
  simp only []
  cases hp : preference cfg rq with
  | any =>
    simp only [Pref.datacenter, Option.isNone_none, Bool.true_or, if_true]
    refine ⟨(fun d hd => by cases hd), ?_⟩
    intro _ hlive
    obtain ⟨t, hh, _, _, h3⟩ := head_of_three (s1 := none) (s2 := none) (g1 := []) (g2 := [])
      ((pickSteps cl cfg (rqNoToken rq) ρp).drop 3) ((fallbackGroups cl cfg (rqNoToken rq) ρf).drop 3)
      fit_none fit_none (fit_replicaT cl V .any rq.routeAsLwt ρp.anyI ρp.anyJ ρf.shufAny) (by simp) (by simp)
      (by simpa using (not_congr replicaTargetsT_nil_iff).mpr hlive)
    exact ⟨t, hh, Or.inl (mem_replicaTargetsT.mp (h3 rfl rfl))⟩
  | dc d =>
    simp only [Pref.datacenter, Option.isNone_some, Bool.false_or]
    have key : ∀ g3 s3, Fit s3 g3 → (replicaTargetsT cl V (.dc d) rq.routeAsLwt ρf.shufDc ++ g3 ≠ []) →
        ∃ t, (planOf ((firstReturn ([none, (pickReplicaT cl V (.dc d) rq.routeAsLwt ρp.dcI ρp.dcJ).map retPickedT, s3] ++
            (pickSteps cl cfg (rqNoToken rq) ρp).drop 3)).getD none)
          (uniqueBy (([[], replicaTargetsT cl V (.dc d) rq.routeAsLwt ρf.shufDc, g3] ++
            (fallbackGroups cl cfg (rqNoToken rq) ρf).drop 3).flatten))).head? = some t ∧
          (replicaTargetsT cl V (.dc d) rq.routeAsLwt ρf.shufDc ≠ [] → t ∈ replicaTargetsT cl V (.dc d) rq.routeAsLwt ρf.shufDc) ∧
          (replicaTargetsT cl V (.dc d) rq.routeAsLwt ρf.shufDc = [] → t ∈ g3) := by
      intro g3 s3 f3 hne
      obtain ⟨t, hh, _, h2, h3⟩ := head_of_three (s1 := none) (g1 := []) _ _ fit_none
        (fit_replicaT cl V (.dc d) rq.routeAsLwt ρp.dcI ρp.dcJ ρf.shufDc) f3 (by simp)
        (step_ne_some_none cl V (.dc d) rq.routeAsLwt ρp.dcI ρp.dcJ (by simp)) (by simpa using hne)
      exact ⟨t, hh, fun h => h2 rfl h, fun h => h3 rfl h⟩
    refine ⟨?_, ?_⟩
    · intro d' hd' hlive
      cases hd'
      have hne : replicaTargetsT cl V (.dc d) rq.routeAsLwt ρf.shufDc ≠ [] := (not_congr replicaTargetsT_nil_iff).mpr hlive
      by_cases hfp : failoverPossible cfg rq = true
      · simp only [hfp, if_true]
        obtain ⟨t, hh, h2, _⟩ := key _ _ (fit_replicaT cl V .any rq.routeAsLwt ρp.anyI ρp.anyJ ρf.shufAny)
          (by intro h; exact hne (List.append_eq_nil_iff.mp h).1)
        exact ⟨t, hh, mem_replicaTargetsT.mp (h2 hne), fun r hr => by cases hr⟩
      · simp only [hfp, Bool.false_eq_true, if_false]
        obtain ⟨t, hh, h2, _⟩ := key [] none fit_none (by intro h; exact hne (List.append_eq_nil_iff.mp h).1)
        exact ⟨t, hh, mem_replicaTargetsT.mp (h2 hne), fun r hr => by cases hr⟩
    · intro hperm hlive
      have hfo : cfg.failover = true := by
        rcases hperm with h | h
        · cases h
        · exact h
      have hfp : failoverPossible cfg rq = true := by simp [failoverPossible, hp, Pref.datacenter, hfo]
      simp only [hfp, if_true]
      have hne3 : replicaTargetsT cl V .any rq.routeAsLwt ρf.shufAny ≠ [] := (not_congr replicaTargetsT_nil_iff).mpr hlive
      obtain ⟨t, hh, h2, h3⟩ := key _ _ (fit_replicaT cl V .any rq.routeAsLwt ρp.anyI ρp.anyJ ρf.shufAny)
        (by intro h; exact hne3 (List.append_eq_nil_iff.mp h).2)
      refine ⟨t, hh, ?_⟩
      by_cases hg2 : replicaTargetsT cl V (.dc d) rq.routeAsLwt ρf.shufDc = []
      · exact Or.inl (mem_replicaTargetsT.mp (h3 hg2))
      · exact Or.inr ⟨d, rfl, mem_replicaTargetsT.mp (h2 hg2)⟩
  | dcRack d r =>
    simp only [Pref.datacenter, Option.isNone_some, Bool.false_or]
    have key : ∀ g3 s3, Fit s3 g3 →
        (replicaTargetsT cl V (.dcRack d r) rq.routeAsLwt ρf.shufRack ++ replicaTargetsT cl V (.dc d) rq.routeAsLwt ρf.shufDc ++ g3 ≠ []) →
        ∃ t, (planOf ((firstReturn ([(pickReplicaT cl V (.dcRack d r) rq.routeAsLwt ρp.rackI ρp.rackJ).map retPickedT,
              (pickReplicaT cl V (.dc d) rq.routeAsLwt ρp.dcI ρp.dcJ).map retPickedT, s3] ++
            (pickSteps cl cfg (rqNoToken rq) ρp).drop 3)).getD none)
          (uniqueBy (([replicaTargetsT cl V (.dcRack d r) rq.routeAsLwt ρf.shufRack,
              replicaTargetsT cl V (.dc d) rq.routeAsLwt ρf.shufDc, g3] ++
            (fallbackGroups cl cfg (rqNoToken rq) ρf).drop 3).flatten))).head? = some t ∧
          (replicaTargetsT cl V (.dcRack d r) rq.routeAsLwt ρf.shufRack ≠ [] → t ∈ liveTargetsT cl V (.dcRack d r)) ∧
          (replicaTargetsT cl V (.dcRack d r) rq.routeAsLwt ρf.shufRack = [] →
            replicaTargetsT cl V (.dc d) rq.routeAsLwt ρf.shufDc ≠ [] → t ∈ liveTargetsT cl V (.dc d)) ∧
          (replicaTargetsT cl V (.dcRack d r) rq.routeAsLwt ρf.shufRack = [] →
            replicaTargetsT cl V (.dc d) rq.routeAsLwt ρf.shufDc = [] → t ∈ g3) := by
      intro g3 s3 f3 hne
      obtain ⟨t, hh, h1, h2, h3⟩ := head_of_three _ _
        (fit_replicaT cl V (.dcRack d r) rq.routeAsLwt ρp.rackI ρp.rackJ ρf.shufRack)
        (fit_replicaT cl V (.dc d) rq.routeAsLwt ρp.dcI ρp.dcJ ρf.shufDc) f3
        (step_ne_some_none cl V (.dcRack d r) rq.routeAsLwt ρp.rackI ρp.rackJ (by simp))
        (step_ne_some_none cl V (.dc d) rq.routeAsLwt ρp.dcI ρp.dcJ (by simp)) hne
      exact ⟨t, hh, fun h => mem_replicaTargetsT.mp (h1 h), fun h h' => mem_replicaTargetsT.mp (h2 h h'), h3⟩
    -- a live rack replica is a live datacenter replica, so the dc group is non-empty whenever the rack group is
    have dc_of_rack : replicaTargetsT cl V (.dcRack d r) rq.routeAsLwt ρf.shufRack ≠ [] →
        replicaTargetsT cl V (.dc d) rq.routeAsLwt ρf.shufDc ≠ [] := by
      intro h hc
      cases hl : replicaTargetsT cl V (.dcRack d r) rq.routeAsLwt ρf.shufRack with
      | nil => exact h hl
      | cons a l =>
        have ha : a ∈ liveTargetsT cl V (.dc d) :=
          rack_sub d r a (mem_replicaTargetsT.mp (by rw [hl]; exact List.mem_cons_self))
        have : a ∈ replicaTargetsT cl V (.dc d) rq.routeAsLwt ρf.shufDc := mem_replicaTargetsT.mpr ha
        rw [hc] at this; cases this
    refine ⟨?_, ?_⟩
    · intro d' hd' hlive
      cases hd'
      have hne : replicaTargetsT cl V (.dc d) rq.routeAsLwt ρf.shufDc ≠ [] := (not_congr replicaTargetsT_nil_iff).mpr hlive
      have concl : ∀ g3 s3, Fit s3 g3 → ∃ t, (planOf ((firstReturn ([(pickReplicaT cl V (.dcRack d r) rq.routeAsLwt ρp.rackI ρp.rackJ).map retPickedT,
              (pickReplicaT cl V (.dc d) rq.routeAsLwt ρp.dcI ρp.dcJ).map retPickedT, s3] ++
            (pickSteps cl cfg (rqNoToken rq) ρp).drop 3)).getD none)
          (uniqueBy (([replicaTargetsT cl V (.dcRack d r) rq.routeAsLwt ρf.shufRack,
              replicaTargetsT cl V (.dc d) rq.routeAsLwt ρf.shufDc, g3] ++
            (fallbackGroups cl cfg (rqNoToken rq) ρf).drop 3).flatten))).head? = some t ∧ t ∈ liveTargetsT cl V (.dc d) ∧
          (∀ r', Pref.dcRack d r = .dcRack d r' → liveTargetsT cl V (.dcRack d r') ≠ [] → t ∈ liveTargetsT cl V (.dcRack d r')) := by
        intro g3 s3 f3
        obtain ⟨t, hh, h1, h2, _⟩ := key g3 s3 f3 (by
          intro h
          exact hne (List.append_eq_nil_iff.mp (List.append_eq_nil_iff.mp h).1).2)
        refine ⟨t, hh, ?_, ?_⟩
        · by_cases hg1 : replicaTargetsT cl V (.dcRack d r) rq.routeAsLwt ρf.shufRack = []
          · exact h2 hg1 hne
          · exact rack_sub d r t (h1 hg1)
        · intro r' hr' hlr
          cases hr'
          exact h1 ((not_congr replicaTargetsT_nil_iff).mpr hlr)
      by_cases hfp : failoverPossible cfg rq = true
      · simp only [hfp, if_true]
        exact concl _ _ (fit_replicaT cl V .any rq.routeAsLwt ρp.anyI ρp.anyJ ρf.shufAny)
      · simp only [hfp, Bool.false_eq_true, if_false]
        exact concl [] none fit_none
    · intro hperm hlive
      have hfo : cfg.failover = true := by
        rcases hperm with h | h
        · cases h
        · exact h
      have hfp : failoverPossible cfg rq = true := by simp [failoverPossible, hp, Pref.datacenter, hfo]
      simp only [hfp, if_true]
      have hne3 : replicaTargetsT cl V .any rq.routeAsLwt ρf.shufAny ≠ [] := (not_congr replicaTargetsT_nil_iff).mpr hlive
      obtain ⟨t, hh, h1, h2, h3⟩ := key _ _ (fit_replicaT cl V .any rq.routeAsLwt ρp.anyI ρp.anyJ ρf.shufAny)
        (by intro h; exact hne3 (List.append_eq_nil_iff.mp h).2)
      refine ⟨t, hh, ?_⟩
      by_cases hg1 : replicaTargetsT cl V (.dcRack d r) rq.routeAsLwt ρf.shufRack = []
      · by_cases hg2 : replicaTargetsT cl V (.dc d) rq.routeAsLwt ρf.shufDc = []
        · exact Or.inl (mem_replicaTargetsT.mp (h3 hg1 hg2))
        · exact Or.inr ⟨d, rfl, h2 hg1 hg2⟩
      · exact Or.inr ⟨d, rfl, rack_sub d r t (h1 hg1)⟩

/-! ## 3. Ring tables: corollaries of C05 (`plan_order`, `plan_mem_iff`, `groups_described`, `classOf`) -/

open ScyllaVerif.Props.C05 in
private theorem describes_mem' {cl : Cluster} : ∀ {gs : List (List Target)} {ps : List (Bool × (Node → Bool))},
    Describes cl gs ps → ∀ t, t ∈ gs.flatten ↔ ∃ bp ∈ ps, t = mk cl bp.1 t.1 ∧ bp.2 t.1 = true
  | [], [], _, t => by simp
  | [], _ :: _, h, _ => absurd h (by simp [Describes])
  | _ :: _, [], h, _ => absurd h (by simp [Describes])
  | g :: gs, (b, p) :: ps, h, t => by
    obtain ⟨h1, h2⟩ := h
    simp only [List.flatten_cons, List.mem_append, List.mem_cons, exists_eq_or_imp]
    rw [h1 t, describes_mem' h2 t]

open ScyllaVerif.Props.C05 in
private theorem describes_take {cl : Cluster} : ∀ (k : Nat) {gs : List (List Target)} {ps : List (Bool × (Node → Bool))},
    Describes cl gs ps → Describes cl (gs.take k) (ps.take k)
  | 0, _, _, _ => by simp [Describes]
  | _ + 1, [], [], _ => by simp [Describes]
  | _ + 1, [], _ :: _, h => absurd h (by simp [Describes])
  | _ + 1, _ :: _, [], h => absurd h (by simp [Describes])
  | k + 1, g :: gs, (b, p) :: ps, h => by
    simp only [List.take_succ_cons, Describes]
    exact ⟨h.1, describes_take k h.2⟩

open ScyllaVerif.Props.C05 in
private theorem classIdx_lt_of_mem {n : Node} : ∀ {ps : List (Bool × (Node → Bool))} {k : Nat} {bp : Bool × (Node → Bool)},
    bp ∈ ps.take k → bp.2 n = true → classIdx ps n < k
  | [], k, bp, h, _ => by simp at h
  | (b, p) :: ps, 0, bp, h, _ => by simp at h
  | (b, p) :: ps, k + 1, bp, h, hb => by
    simp only [List.take_succ_cons, List.mem_cons] at h
    simp only [classIdx]
    split
    · omega
    · rename_i hp
      rcases h with rfl | h
      · exact absurd hb hp
      · have := classIdx_lt_of_mem h hb; omega

open ScyllaVerif.Props.C05 in
private theorem mem_of_classIdx_lt {n : Node} : ∀ {ps : List (Bool × (Node → Bool))} {k : Nat},
    classIdx ps n < k → k ≤ ps.length → ∃ bp ∈ ps.take k, bp.2 n = true
  | [], k, h, hk => by simp only [List.length_nil] at hk; omega
  | (b, p) :: ps, 0, h, _ => by omega
  | (b, p) :: ps, k + 1, h, hk => by
    simp only [classIdx] at h
    simp only [List.take_succ_cons, List.mem_cons, exists_eq_or_imp]
    split at h
    · rename_i hp; exact Or.inl hp
    · have := mem_of_classIdx_lt (n := n) (ps := ps) (k := k) (by omega) (by simp only [List.length_cons] at hk; omega)
      exact Or.inr this

private theorem dedup_mem_prefix {A B : List Target} {t : Target} (h : t ∈ dedupFrom [] (A ++ B))
    (hid : t.1.id ∈ A.map (·.1.id)) : t ∈ A := by
  obtain ⟨seen', hs, happ⟩ := dedupFrom_append [] A B
  rw [happ] at h
  rcases List.mem_append.mp h with h | h
  · exact (mem_dedupFrom h).1
  · exact absurd ((hs _).mpr (Or.inr hid)) (mem_dedupFrom h).2

open ScyllaVerif.Props.C05 in
/-- If some node is in one of the first `k ≤ 3` (replica) groups, the plan starts with a member of those groups, and
that first target carries the shard computed for its node. Corollary of C05 `plan_order` + `plan_mem_iff`. -/
private theorem head_in_first_groups {cl : Cluster} (hwf : WF cl) (cfg : Config) (rq : Request) (ρp : RhoPick) (ρf : RhoFb)
    (k : Nat) (hk : k ≤ 3) (n : Node) (hn : ∃ bp ∈ (groupPreds cl cfg rq).take k, bp.2 n = true) :
    ∃ t, (plan cl cfg rq ρp ρf).head? = some t ∧ t = sharded cl t.1 ∧
      ∃ bp ∈ (groupPreds cl cfg rq).take k, bp.2 t.1 = true := by
  have hlen : (groupPreds cl cfg rq).length = 8 := rfl
  have hb : ∀ bp ∈ (groupPreds cl cfg rq).take k, bp.1 = true := by
    intro bp hbp
    have : bp ∈ (groupPreds cl cfg rq).take 3 := (List.take_sublist_take_left hk).subset hbp  
    simp only [groupPreds, List.take_succ_cons, List.take_zero, List.mem_cons, List.not_mem_nil, or_false] at this
    rcases this with rfl | rfl | rfl <;> rfl
  have hdesc := groups_described cl cfg rq ρf
  have hdk := describes_take k hdesc
  -- the chain split after the first k groups
  have hsplit : (fallbackGroups cl cfg rq ρf).flatten =
      ((fallbackGroups cl cfg rq ρf).take k).flatten ++ ((fallbackGroups cl cfg rq ρf).drop k).flatten := by
    rw [← List.flatten_append, List.take_append_drop]
  have hA : ∀ x : Node, (∃ bp ∈ (groupPreds cl cfg rq).take k, bp.2 x = true) →
      sharded cl x ∈ ((fallbackGroups cl cfg rq ρf).take k).flatten := by
    intro x ⟨bp, hbp, hx⟩
    rw [describes_mem' hdk]
    refine ⟨bp, hbp, ?_, hx⟩
    rw [hb bp hbp]; rfl
  have inA : ∀ t : Target, t ∈ fallback cl cfg rq ρf → (∃ bp ∈ (groupPreds cl cfg rq).take k, bp.2 t.1 = true) →
      t ∈ ((fallbackGroups cl cfg rq ρf).take k).flatten := by
    intro t ht hbp
    rw [fallback_eq_dedup, hsplit] at ht
    exact dedup_mem_prefix ht (List.mem_map.mpr ⟨_, hA t.1 hbp, rfl⟩)
  -- some target with n's host id is in the plan
  have hin : sharded cl n ∈ (fallbackGroups cl cfg rq ρf).flatten := by
    rw [hsplit]; exact List.mem_append_left _ (hA n hn)
  have hc := dedupFrom_complete (seen := []) hin
  simp only [List.not_mem_nil, false_or] at hc
  obtain ⟨u, hu, hid⟩ := List.mem_map.mp hc
  rw [← fallback_eq_dedup] at hu
  have huA : u ∈ ((fallbackGroups cl cfg rq ρf).take k).flatten := by
    have hu' := hu
    rw [fallback_eq_dedup, hsplit] at hu'
    exact dedup_mem_prefix hu' (List.mem_map.mpr ⟨_, hA n hn, hid.symm⟩)
  obtain ⟨bpu, hbpu, _, hpu⟩ := (describes_mem' hdk u).mp huA
  have hcu : classOf cl cfg rq u.1 < k := classIdx_lt_of_mem hbpu hpu
  have hup : u ∈ plan cl cfg rq ρp ρf := (plan_mem_iff hwf cfg rq ρp ρf u).mpr hu
  have hord := plan_order hwf cfg rq ρp ρf
  cases hpl : plan cl cfg rq ρp ρf with
  | nil => rw [hpl] at hup; cases hup
  | cons h rest =>
    rw [hpl] at hup hord
    have hch : classOf cl cfg rq h.1 < k := by
      rcases List.mem_cons.mp hup with rfl | hur
      · exact hcu
      · have := (List.pairwise_cons.mp hord).1 u hur
        omega
    have hbph := mem_of_classIdx_lt hch (by rw [hlen]; omega)
    have hhf : h ∈ fallback cl cfg rq ρf :=
      (plan_mem_iff hwf cfg rq ρp ρf h).mp (by rw [hpl]; exact List.mem_cons_self)
    obtain ⟨bph, hbph', he, _⟩ := (describes_mem' hdk h).mp (inA h hhf hbph)
    refine ⟨h, rfl, ?_, hbph⟩
    rw [hb bph hbph'] at he
    exact he

private theorem rack_sub_dc {cl : Cluster} {ts : Strategy × Int} {d r : Nat} {det : Bool} {n : Node}
    (h : n ∈ filteredReplicas cl ts (.dcRack d r) det) : n ∈ filteredReplicas cl ts (.dc d) det := by
  unfold filteredReplicas at h ⊢
  have e : replicaSet cl ts (.dcRack d r) = replicaSet cl ts (.dc d) := rfl
  rw [e] at h
  simp only [List.mem_filter, Bool.and_eq_true] at h ⊢
  exact ⟨h.1, h.2.1, by simp [rackOk]⟩

open ScyllaVerif.Props.C05 in
/-- **First attempt on a ring table** (corollary of C05 `plan_order` / `plan_mem_iff` / `groups_described` and, through
them, of C04): for every well-formed cluster, policy configuration, token-aware request (`tokenWithStrategy = some
(strategy, token)`) and ALL random choices, with `live crit` = the replicas of the token under the keyspace's strategy
(C04: `simple_eq_spec` / `nts_eq_spec` say these are the servers' replicas) that are enabled and connected:
 * a datacenter `d` is preferred and holds a live replica → the plan starts with a live replica of `d`;
 * no datacenter is preferred, or failover is permitted, and a live replica exists → the plan starts with a live
   replica (of the preferred datacenter whenever it has one - first item);
in both cases the target carries `Some(shard)`, the shard of the token under the TARGET node's sharder (`cl.sh`). -/
theorem first_attempt_is_replica {cl : Cluster} (hwf : WF cl) (cfg : Config) (rq : Request) (ρp : RhoPick) (ρf : RhoFb)
    {ts : Strategy × Int} (hts : tokenWithStrategy cl cfg rq = some ts) :
    (∀ d, (preference cfg rq).datacenter = some d → filteredReplicas cl ts (.dc d) rq.routeAsLwt ≠ [] →
      ∃ t, (plan cl cfg rq ρp ρf).head? = some t ∧ t = sharded cl t.1 ∧
        t.1 ∈ filteredReplicas cl ts (.dc d) rq.routeAsLwt) ∧
    (((preference cfg rq).datacenter = none ∨ cfg.failover = true) →
      filteredReplicas cl ts .any rq.routeAsLwt ≠ [] →
      ∃ t, (plan cl cfg rq ρp ρf).head? = some t ∧ t = sharded cl t.1 ∧
        (t.1 ∈ filteredReplicas cl ts .any rq.routeAsLwt ∨
          ∃ d, (preference cfg rq).datacenter = some d ∧ t.1 ∈ filteredReplicas cl ts (.dc d) rq.routeAsLwt)) := by
  refine ⟨?_, ?_⟩
  · intro d hd hlive
    obtain ⟨n, hn⟩ := List.exists_mem_of_ne_nil _ hlive
    have hex : ∃ bp ∈ (groupPreds cl cfg rq).take 2, bp.2 n = true := by
      refine ⟨_, by simp only [groupPreds, List.take_succ_cons, List.take_zero]; exact List.mem_cons_of_mem _ List.mem_cons_self, ?_⟩
      simp only [hts, hd, decide_eq_true_eq]
      exact hn
    obtain ⟨t, hh, hs, bp, hbp, hpt⟩ := head_in_first_groups hwf cfg rq ρp ρf 2 (by omega) n hex
    refine ⟨t, hh, hs, ?_⟩
    simp only [groupPreds, List.take_succ_cons, List.take_zero, List.mem_cons, List.not_mem_nil, or_false] at hbp
    rcases hbp with rfl | rfl
    · simp only [hts] at hpt
      cases hp : preference cfg rq with
      | any => rw [hp] at hpt; simp at hpt
      | dc d' => rw [hp] at hpt; simp at hpt
      | dcRack d' r =>
        rw [hp] at hpt hd
        simp only [decide_eq_true_eq] at hpt
        simp only [Pref.datacenter, Option.some.injEq] at hd
        subst hd
        exact rack_sub_dc hpt
    · simp only [hts, hd, decide_eq_true_eq] at hpt
      exact hpt
  · intro hperm hlive
    obtain ⟨n, hn⟩ := List.exists_mem_of_ne_nil _ hlive
    have hgate : ((preference cfg rq).datacenter.isNone || failoverPossible cfg rq) = true := by
      rcases hperm with h | h
      · simp [h]
      · cases hd : (preference cfg rq).datacenter with
        | none => simp
        | some d => simp [failoverPossible, hd, h]
    have hex : ∃ bp ∈ (groupPreds cl cfg rq).take 3, bp.2 n = true := by
      refine ⟨_, by
        simp only [groupPreds, List.take_succ_cons, List.take_zero]
        exact List.mem_cons_of_mem _ (List.mem_cons_of_mem _ List.mem_cons_self), ?_⟩
      simp only [hts, hgate, Bool.true_and, decide_eq_true_eq]
      exact hn
    obtain ⟨t, hh, hs, bp, hbp, hpt⟩ := head_in_first_groups hwf cfg rq ρp ρf 3 (by omega) n hex
    refine ⟨t, hh, hs, ?_⟩
    simp only [groupPreds, List.take_succ_cons, List.take_zero, List.mem_cons, List.not_mem_nil, or_false] at hbp
    rcases hbp with rfl | rfl | rfl
    · simp only [hts] at hpt
      cases hp : preference cfg rq with
      | any => rw [hp] at hpt; simp at hpt
      | dc d' => rw [hp] at hpt; simp at hpt
      | dcRack d' r =>
        rw [hp] at hpt
        simp only [decide_eq_true_eq] at hpt
        exact Or.inr ⟨d', by simp [Pref.datacenter], rack_sub_dc hpt⟩
    · simp only [hts] at hpt
      cases hd : (preference cfg rq).datacenter with
      | none => rw [hd] at hpt; simp at hpt
      | some d =>
        rw [hd] at hpt
        simp only [decide_eq_true_eq] at hpt
        exact Or.inr ⟨d, rfl, hpt⟩
    · simp only [hts, Bool.and_eq_true, decide_eq_true_eq] at hpt
      exact Or.inl hpt.2

/-! ## 4. The shard of the first attempt (C11) -/

/-- **Shard of a ring replica target**: `with_computed_shard` evaluates the token under the sharder of THE TARGET NODE
(`rc.sharder id`), 0 for a node without sharder; for a ScyllaDB node (`msb_ignore < 64`, token an `i64`) it is ScyllaDB's
algorithm `shardOfSpec` on that node's `nr_shards` / `msb_ignore` and lies below `nr_shards` (C11
`shardOfImpl_eq_spec`, `shardOfImpl_lt`). -/
theorem first_attempt_shard (rc : RCluster) (tok : Int) (id : Nat) :
    (rc.toCluster (some tok)).sh id = computedShard (rc.sharder id) tok ∧
    (rc.sharder id = none → (rc.toCluster (some tok)).sh id = 0) ∧
    (∀ s, rc.sharder id = some s →
      (0 < s.nr → (rc.toCluster (some tok)).sh id < s.nr) ∧
      (s.msb.toNat < 64 → -2 ^ 63 ≤ tok → tok < 2 ^ 63 →
        (rc.toCluster (some tok)).sh id = Sharding.shardOfSpec s.nr s.msb.toNat tok)) := by
  refine ⟨rfl, ?_, ?_⟩
  · intro h; simp [RCluster.toCluster, computedShard, h]
  · intro s h
    simp only [RCluster.toCluster, computedShard, h, Option.getD_some]
    refine ⟨fun hn => C11.shardOfImpl_lt s.nr s.msb _ hn, ?_⟩
    intro hm h1 h2
    rw [C11.shardOfImpl_eq_spec s.nr s.msb _ hm, Int64.toInt_ofInt_of_le h1 h2]

/-- A target without shard (not a replica) gets a random shard of ITS node: below `nr_shards` (0 for an unsharded
node) whatever the draw. -/
theorem first_attempt_random_shard (rc : RCluster) (n : Node) (draw : Nat) :
    (firstAttempt rc [(n, none)] draw).map (·.shard) =
      some (draw % ((rc.sharder n.id).map (·.nr)).getD 1) ∧
    (∀ s, rc.sharder n.id = some s → 0 < s.nr → draw % ((rc.sharder n.id).map (·.nr)).getD 1 < s.nr) := by
  refine ⟨rfl, ?_⟩
  intro s hs hn
  simp only [hs, Option.map_some, Option.getD_some]
  exact Nat.mod_lt _ hn

example : computedShard (some ⟨4, 12⟩) 9223372036854775807 = 3 ∧ computedShard none 5 = 0 ∧
    Sharding.shardOfSpec 4 12 9223372036854775807 = 3 := by decide

/-! ## 5. Tablets override the ring (C15) -/

/-- **Tablets first.** A table the tablet map knows (even with no tablet learnt yet) is never routed by the ring: its
plan is the policy run over the replicas of the tablet covering the token; every other table is routed by the C05
plan over the ring. -/
theorem tablet_overrides_ring (rc : RCluster) (cfg : Config) (r : RRequest) (ρp : RhoPick) (ρf : RhoFb) :
    (∀ xs, tabletsOf rc r = some xs →
      routePlan rc cfg r ρp ρf =
        planT (rc.toCluster r.rq.token) cfg r.rq (tabletReplicas rc xs (r.rq.token.getD 0)) ρp ρf) ∧
    (tabletsOf rc r = none → routePlan rc cfg r ρp ρf = plan (rc.toCluster r.rq.token) cfg r.rq ρp ρf) := by
  unfold routePlan
  refine ⟨?_, ?_⟩
  · intro xs h; simp only [h]
  · intro h; simp only [h]

/-- **Which tablet** (corollary of C15 `lookup_refines` / `lookup_never_stale` / `dc_restrict`): after ANY history of
learnt tablets and maintenance steps, the replicas handed to the policy are those of the tablet the history
specification names for the token - the latest learnt tablet covering it, unless a later one overlapped it or
maintenance discarded it (then none: the request is routed like a token-unaware one) - each with the shard THAT tablet
names; the per-datacenter list is the order-preserving filter of the full list. -/
theorem tablet_replicas_refine (rc : RCluster) (hist : List C15.Op) (hv : C15.ValidHist hist)
    (hdc : ∀ t, C15.Op.insert t ∈ hist → C15.DcOk t) (tok : Int) :
    tabletReplicas rc (C15.run hist).tablets tok none =
      (((C15.lookupSpec hist tok).map (·.replicas.all)).getD []).filterMap (resolve rc.peers) ∧
    (∀ d, tabletReplicas rc (C15.run hist).tablets tok (some d) =
      ((((C15.lookupSpec hist tok).map (·.replicas.all)).getD []).filter
        (fun p => decide (p.1.dc = some (dcName d)))).filterMap (resolve rc.peers)) ∧
    (∀ u, Tablets.tabletForToken (C15.run hist).tablets tok = some u → u.first ≤ tok ∧ tok ≤ u.last) := by
  refine ⟨?_, ?_, ?_⟩
  · simp only [tabletReplicas, Tablets.replicasForToken, C15.lookup_refines hist hv]
  · intro d
    simp only [tabletReplicas, C15.dc_restrict hist hv hdc, Tablets.replicasForToken, C15.lookup_refines hist hv]
    cases C15.lookupSpec hist tok <;> rfl
  · intro u hu
    have := C15.lookup_never_stale hist hv tok u hu
    exact ⟨this.1, this.2.1⟩

/-- Every datacenter-restricted tablet replica is a replica of the tablet (same node, same shard). -/
theorem tablet_dc_replicas_subset (rc : RCluster) (hist : List C15.Op) (hv : C15.ValidHist hist)
    (hdc : ∀ t, C15.Op.insert t ∈ hist → C15.DcOk t) (tok : Int) (d : Nat) (r : SRep)
    (h : r ∈ tabletReplicas rc (C15.run hist).tablets tok (some d)) :
    r ∈ tabletReplicas rc (C15.run hist).tablets tok none := by
  obtain ⟨h0, hd, _⟩ := tablet_replicas_refine rc hist hv hdc tok
  rw [hd d] at h
  rw [h0]
  obtain ⟨x, hx, hr⟩ := List.mem_filterMap.mp h
  obtain ⟨hx1, _⟩ := List.mem_filter.mp hx
  exact List.mem_filterMap.mpr ⟨x, hx1, hr⟩

/-! ## 5b. Histories of tablet feedback and metadata refreshes (C15's refresh model, composed)

The refresh model and its theorems are C15's (`Model/TabletsRefresh.lean`, `Props/C15.lean` section "Lift" and the
`ClusterState` level: `FlagsHonest`, `refresh_resolves_all`, `stateOk_run`, `refresh_lookups_current`,
`cluster_lookup_refines`); here they are instantiated for the histories of the routing model (`RState.run`). -/

section Refresh
open ScyllaVerif.Tablets ScyllaVerif.TabletsRefresh

/-- No tablet of the table still waits for an unknown replica (C15's definition). -/
abbrev AllResolved := C15.AllResolved

/-- The two `has_unknown_replicas` flags are honest (C15's definition). -/
abbrev FlagsHonest := C15.FlagsHonest

/-- The routing model's history as a C15 `ClusterState` history. -/
def toCOps (kss : List (String × Bool × List String)) (peers : List ((Ring.Node × Nat) × Bool)) (ops : List StateOp) : List C15.COp :=
  .refresh (peers.map toPeer) kss :: ops.map (fun op => match op with
    | .learn spec f l raw => C15.COp.learn spec.1 spec.2 f l raw
    | .refresh ps => C15.COp.refresh (ps.map toPeer) kss)

/-- **`RState.run` is C15's `crun`** on the same history (so every C15 `ClusterState`-level theorem applies). -/
theorem run_eq_crun (kss : List (String × Bool × List String)) (peers : List ((Ring.Node × Nat) × Bool)) (ops : List StateOp) :
    (RState.init kss peers).run kss ops = C15.crun (toCOps kss peers ops) := by
  have key : ∀ (ops : List StateOp) (st : CState),
      RState.run kss st ops = (ops.map (fun op => match op with
        | .learn spec f l raw => C15.COp.learn spec.1 spec.2 f l raw
        | .refresh ps => C15.COp.refresh (ps.map toPeer) kss)).foldl C15.cstep st := by
    intro ops
    induction ops with
    | nil => intro st; rfl
    | cons op ops ih =>
      intro st
      simp only [RState.run, List.foldl_cons, List.map_cons]
      have : RState.step kss st op = C15.cstep st (match op with
          | .learn spec f l raw => C15.COp.learn spec.1 spec.2 f l raw
          | .refresh ps => C15.COp.refresh (ps.map toPeer) kss) := by
        cases op <;> rfl
      rw [this]
      exact ih _
  simp only [toCOps, C15.crun, List.foldl_cons]
  exact key ops _

/-- **Along every history** of tablet feedback (also naming hosts that are not known yet) and metadata refreshes the
two `has_unknown_replicas` flags stay honest (C15 `learn_keeps_flags_honest`, `refresh_resolves_all`). -/
theorem history_flags_honest (kss : List (String × Bool × List String)) (peers : List ((Ring.Node × Nat) × Bool))
    (ops : List StateOp) : FlagsHonest ((RState.init kss peers).run kss ops).info := by
  have h0 : FlagsHonest (RState.init kss peers).info := (C15.refresh_resolves_all C15.flags_honest_empty _ _ _ _).2
  have step : ∀ (st : RState) (op : StateOp), FlagsHonest st.info → FlagsHonest (st.step kss op).info := by
    intro st op hst
    cases op with
    | learn spec first last raw => exact C15.learn_keeps_flags_honest hst spec _
    | refresh ps => exact (C15.refresh_resolves_all hst _ _ _ _).2
  have key : ∀ (ops : List StateOp) (st : RState), FlagsHonest st.info → FlagsHonest (st.run kss ops).info := by
    intro ops
    induction ops with
    | nil => intro st h; exact h
    | cons op ops ih => intro st h; exact ih _ (step st op h)
  exact key ops _ h0

/-- **Right after a refresh no tablet has a truncated replica list** - whatever came before, also when the refresh
removed and re-created nothing (then `has_unknown_replicas` alone opens the maintenance gate; the seeded change "the
map-level flag is not raised" breaks `learn_keeps_flags_honest`, hence this). -/
theorem refresh_leaves_nothing_unresolved (kss : List (String × Bool × List String)) (peers : List ((Ring.Node × Nat) × Bool))
    (ops : List StateOp) (ps : List ((Ring.Node × Nat) × Bool)) :
    ∀ e ∈ ((RState.init kss peers).run kss (ops ++ [.refresh ps])).info.tables, AllResolved e.2 := by
  have h := history_flags_honest kss peers ops
  have e : (RState.init kss peers).run kss (ops ++ [.refresh ps]) =
      ((RState.init kss peers).run kss ops).step kss (.refresh ps) := by
    simp [RState.run, List.foldl_append]
  rw [e]
  exact (C15.refresh_resolves_all h _ _ _ _).1

/-- **Which tablet, along a history** (C15 `cluster_lookup_refines` on `run_eq_crun`; closes the gap between
`tablet_replicas_refine`, which speaks about one table's `C15.run`, and the tablet map the routing state carries): for
every table of the map after ANY history, the tablet found for a token is the one the table's own projected history
names - the latest learnt tablet covering it unless overlapped or discarded since - and the table's list is sorted and
disjoint. -/
theorem history_lookup_refines (kss : List (String × Bool × List String)) (hk : (kss.map (·.1)).Nodup)
    (peers : List ((Ring.Node × Nat) × Bool)) (ops : List StateOp)
    (hv : ∀ spec f l raw, StateOp.learn spec f l raw ∈ ops → f ≤ l)
    (spec : String × String) (tbl : Table)
    (h : alGet spec ((RState.init kss peers).run kss ops).info.tables = some tbl) (tok : Int) :
    tabletForToken tbl.tablets tok =
        C15.lookupSpec (C15.proj spec (C15.ctrace (toCOps kss peers ops) CState.init)) tok ∧
      C15.Inv tbl.tablets := by
  rw [run_eq_crun] at h
  refine C15.cluster_lookup_refines _ ?_ ?_ spec tbl h tok
  · intro ks tb f l raw hm
    simp only [toCOps, List.mem_cons, reduceCtorEq, false_or, List.mem_map] at hm
    obtain ⟨op, hop, he⟩ := hm
    cases op with
    | learn sp f' l' raw' =>
      simp only [C15.COp.learn.injEq] at he
      obtain ⟨_, _, rfl, rfl, _⟩ := he
      exact hv sp _ _ raw' hop
    | refresh ps => cases he
  · intro ps kss' hm
    simp only [toCOps, List.mem_cons, C15.COp.refresh.injEq, List.mem_map] at hm
    rcases hm with ⟨_, rfl⟩ | ⟨op, _, he⟩
    · exact hk
    · cases op with
      | learn sp f l raw => cases he
      | refresh ps' => simp only [C15.COp.refresh.injEq] at he; rw [← he.2]; exact hk

/-- **The replicas the policy is handed are the node objects the cluster state currently knows** (C15
`refresh_lookups_current`): after ANY history, every replica of the tablet found for a token is registered under its
host id in `known_nodes`, and every replica of the per-datacenter answer carries exactly that datacenter. -/
theorem history_replicas_current (kss : List (String × Bool × List String)) (peers : List ((Ring.Node × Nat) × Bool))
    (ops : List StateOp) (spec : String × String) (tbl : Table)
    (hm : (spec, tbl) ∈ ((RState.init kss peers).run kss ops).info.tables) (tok : Int) :
    (∀ reps, replicasForToken tbl.tablets tok = some reps →
      ∀ p ∈ reps, alGet p.1.hostId (nodesOf ((RState.init kss peers).run kss ops).known) = some p.1) ∧
    (∀ dc reps, dcReplicasForToken tbl.tablets tok dc = some reps →
      ∀ p ∈ reps, alGet p.1.hostId (nodesOf ((RState.init kss peers).run kss ops).known) = some p.1 ∧ p.1.dc = some dc) := by
  rw [run_eq_crun] at hm ⊢
  exact C15.refresh_lookups_current _ spec tbl hm tok

private theorem dcName_inj {a b : Nat} (h : dcName a = dcName b) : a = b := by
  unfold dcName at h
  have := congrArg String.toList h
  simp only [String.toList_append] at this
  exact Nat.repr_inj.mp (String.ext_iff.mpr (List.append_cancel_left this))

private theorem lookup_mem' {xs : List Tablet} {tok : Int} {t : Tablet} (h : tabletForToken xs tok = some t) : t ∈ xs := by
  unfold tabletForToken at h
  simp only [] at h
  split at h
  · rename_i u hu
    split at h
    · cases h; exact List.mem_of_getElem? hu
    · cases h
  · cases h

/-- The peers of the routing cluster ARE the nodes the cluster state knows: distinct host ids, and the node registered
under a peer's host id carries that peer's datacenter ("stored node = peer node"). -/
def PeersMatch (peers : List Ring.Node) (known : Known) : Prop :=
  (peers.map (·.id)).Nodup ∧
    ∀ n ∈ peers, ∃ kn, alGet n.id (nodesOf known) = some kn ∧ kn.dc = n.dc.map dcName

/-- **Preferred datacenter on tablet tables, stated against the PEER node** (audit finding: without tying the tablet's
stored node to the peer the datacenter claim was about the wrong object). For a routing cluster whose tablet map is
the one a history of feedback and refreshes produced (`rc.tables` entry = the table of `RState.run`) and whose peers
are the nodes that state knows (`PeersMatch`): every replica handed to the policy for datacenter `d` IS in datacenter
`d` (the node the request is sent to, not the copy stored in the tablet), and is one of the tablet's replicas with the
same shard. Built on C15 `refresh_lookups_current` and `stateOk_run` (per-datacenter view = restriction). -/
theorem tablet_dc_replicas_in_dc (rc : RCluster) (kss : List (String × Bool × List String))
    (peers0 : List ((Ring.Node × Nat) × Bool)) (ops : List StateOp) (spec : String × String) (tbl : Table)
    (hm : (spec, tbl) ∈ ((RState.init kss peers0).run kss ops).info.tables)
    (hp : PeersMatch rc.peers ((RState.init kss peers0).run kss ops).known) (tok : Int) (d : Nat) :
    ∀ r ∈ tabletReplicas rc tbl.tablets tok (some d),
      r.1.dc = some d ∧ r ∈ tabletReplicas rc tbl.tablets tok none := by
  intro r hr
  obtain ⟨_, hdcs⟩ := history_replicas_current kss peers0 ops spec tbl hm tok
  simp only [tabletReplicas] at hr ⊢
  obtain ⟨p, hpm, hres⟩ := List.mem_filterMap.mp hr
  cases hl : tabletForToken tbl.tablets tok with
  | none => simp [dcReplicasForToken, hl] at hpm
  | some t =>
    have hdr : dcReplicasForToken tbl.tablets tok (dcName d) = some (dcReplicas t (dcName d)) := by
      simp [dcReplicasForToken, hl]
    rw [hdr] at hpm
    simp only [Option.getD_some] at hpm
    obtain ⟨hcur, hpdc⟩ := hdcs (dcName d) _ hdr p hpm
    -- the resolved node is the peer with the replica's host id
    unfold resolve at hres
    obtain ⟨n, hfind, rfl⟩ := Option.map_eq_some_iff.mp hres
    have hn : n ∈ rc.peers := List.mem_of_find?_eq_some hfind
    have hid : n.id = p.1.hostId := by
      have := List.find?_some hfind
      simpa using this
    obtain ⟨kn, hkn, hkdc⟩ := hp.2 n hn
    rw [hid, hcur] at hkn
    cases hkn
    constructor
    · -- datacenter of the PEER
      rw [hpdc] at hkdc
      cases hnd : n.dc with
      | none => rw [hnd] at hkdc; cases hkdc
      | some d' =>
        rw [hnd] at hkdc
        simp only [Option.map_some, Option.some.injEq] at hkdc
        rw [dcName_inj hkdc.symm]
    · -- a replica of the tablet: the per-datacenter view is a restriction of the full list
      have hdcok : C15.DcOk t := by
        have hrun := run_eq_crun kss peers0 ops
        have := (C15.stateOk_run (toCOps kss peers0 ops)).2 (spec, tbl) (by rw [← hrun]; exact hm) t (lookup_mem' hl)
        exact this.2
      have hall : p ∈ t.replicas.all := by
        rw [hdcok (dcName d)] at hpm
        exact (List.mem_filter.mp hpm).1
      refine List.mem_filterMap.mpr ⟨p, ?_, ?_⟩
      · simp [Tablets.replicasForToken, hl, hall]
      · unfold resolve; rw [hfind]; rfl

/-! `PeersMatch` and the table link discharged for the cluster built from a state (`RCluster.ofState`). -/

private theorem alGet_alSet_same {κ β : Type} [DecidableEq κ] (k : κ) (v : β) (m : List (κ × β)) :
    alGet k (alSet k v m) = some v := by
  induction m with
  | nil => simp [alSet, alGet]
  | cons x m ih =>
    obtain ⟨k', v'⟩ := x
    simp only [alSet]
    split
    · simp [alGet]
    · rename_i hne; simp only [alGet, hne, if_false]; exact ih

private theorem alGet_alSet_ne {κ β : Type} [DecidableEq κ] (k k2 : κ) (v : β) (m : List (κ × β)) (h : k ≠ k2) :
    alGet k2 (alSet k v m) = alGet k2 m := by
  induction m with
  | nil => simp [alSet, alGet, h]
  | cons x m ih =>
    obtain ⟨k', v'⟩ := x
    simp only [alSet]
    split
    · rename_i he; subst he; simp [alGet, h]
    · simp only [alGet]; split
      · rfl
      · exact ih

/-- the node object `calculate_new_topology` registers for a peer carries the peer's host id and datacenter -/
private theorem nodeFor_dc (old : Known) (gen : Nat) (p : TabletsRefresh.Peer) : (nodeFor old gen p).1.node.dc = p.dc := by
  unfold nodeFor
  simp only []
  split
  · split
    · rename_i hc
      simp only [Bool.and_eq_true, decide_eq_true_eq] at hc
      exact hc.1.1.2
    · rfl
  · split
    · rename_i hc
      simp only [Bool.and_eq_true, decide_eq_true_eq] at hc
      split
      · exact hc.1.2
      · rfl
    · rfl
  · rfl

private theorem newTopology_get (old : Known) (gen : Nat) (peers : List TabletsRefresh.Peer) (hnd : (peers.map (·.hostId)).Nodup) :
    ∀ p ∈ peers, ∃ kn, alGet p.hostId (newTopology old gen peers).1 = some kn ∧ kn.node.dc = p.dc := by
  unfold newTopology
  have key : ∀ (ps : List TabletsRefresh.Peer) (acc : Known × Nat), (ps.map (·.hostId)).Nodup →
      (∀ p ∈ ps, ∃ kn, alGet p.hostId (ps.foldl (fun (acc : Known × Nat) p =>
          let r := nodeFor old acc.2 p
          (alSet p.hostId r.1 acc.1, r.2)) acc).1 = some kn ∧ kn.node.dc = p.dc) ∧
      (∀ id kn, id ∉ ps.map (·.hostId) → alGet id acc.1 = some kn → alGet id (ps.foldl (fun (acc : Known × Nat) p =>
          let r := nodeFor old acc.2 p
          (alSet p.hostId r.1 acc.1, r.2)) acc).1 = some kn) := by
    intro ps
    induction ps with
    | nil => intro acc _; exact ⟨(by intro p hp; cases hp), (by intro id kn _ h; exact h)⟩
    | cons q ps ih =>
      intro acc hnd
      simp only [List.map_cons, List.nodup_cons] at hnd
      obtain ⟨ih1, ih2⟩ := ih (alSet q.hostId (nodeFor old acc.2 q).1 acc.1, (nodeFor old acc.2 q).2) hnd.2
      simp only [List.foldl_cons]
      refine ⟨?_, ?_⟩
      · intro p hp
        rcases List.mem_cons.mp hp with rfl | hp
        · exact ⟨_, ih2 p.hostId _ hnd.1 (alGet_alSet_same _ _ _), nodeFor_dc old acc.2 p⟩
        · exact ih1 p hp
      · intro id kn hid hk
        simp only [List.map_cons, List.mem_cons, not_or] at hid
        exact ih2 id kn hid.2 (by rw [alGet_alSet_ne _ _ _ _ (Ne.symm hid.1)]; exact hk)
  exact (key peers ([], gen) hnd).1

private theorem alGet_nodesOf' (k : Known) (id : Nat) : alGet id (nodesOf k) = (alGet id k).map (·.node) := by
  induction k with
  | nil => rfl
  | cons e k ih =>
    obtain ⟨k0, v⟩ := e
    simp only [nodesOf, List.map_cons, alGet] at ih ⊢
    split
    · rfl
    · exact ih

/-- **`PeersMatch` holds right after a refresh** whose peers have distinct host ids (whatever the host filter says
about them, whatever the state before): the node `known_nodes` registers under a peer's host id carries that peer's
datacenter. Tablet feedback does not touch `known_nodes`, so it keeps holding until the next refresh. -/
theorem peersMatch_refresh (st : RState) (kss : List (String × Bool × List String)) (ps : List ((Ring.Node × Nat) × Bool))
    (hnd : (ps.map (·.1.1.id)).Nodup) (learns : List StateOp) (hl : ∀ op ∈ learns, ∃ spec f l raw, op = .learn spec f l raw) :
    PeersMatch (ps.map (·.1.1)) ((st.step kss (.refresh ps)).run kss learns).known := by
  have hknown : ((st.step kss (.refresh ps)).run kss learns).known = (st.step kss (.refresh ps)).known := by
    have key : ∀ (ops : List StateOp) (s0 : RState), (∀ op ∈ ops, ∃ spec f l raw, op = .learn spec f l raw) →
        (RState.run kss s0 ops).known = s0.known := by
      intro ops
      induction ops with
      | nil => intro s0 _; rfl
      | cons op ops ih =>
        intro s0 h
        obtain ⟨spec, f, l, raw, rfl⟩ := h op List.mem_cons_self
        simp only [RState.run, List.foldl_cons]
        exact ih _ (fun o ho => h o (List.mem_cons_of_mem _ ho))
    exact key learns _ hl
  rw [hknown]
  refine ⟨by simpa [List.map_map, Function.comp_def] using hnd, ?_⟩
  intro n hn
  obtain ⟨p, hp, rfl⟩ := List.mem_map.mp hn
  have hnd' : ((ps.map toPeer).map (·.hostId)).Nodup := by
    simpa [List.map_map, toPeer, Function.comp_def] using hnd
  obtain ⟨kn, hk, hdc⟩ := newTopology_get st.known st.gen (ps.map toPeer) hnd' (toPeer p) (List.mem_map.mpr ⟨p, hp, rfl⟩)
  refine ⟨kn.node, ?_, hdc⟩
  show alGet p.1.1.id (nodesOf (refresh st (ps.map toPeer) kss).known) = some kn.node
  rw [alGet_nodesOf']
  simp only [refresh]
  have : (toPeer p).hostId = p.1.1.id := rfl
  rw [this] at hk
  rw [hk]; rfl

/-- **The tablet map of `RCluster.ofState` is the state's**: for a table the cluster knows of (`declared`, no pair
twice) the tablets `tablets_for_table` answers are exactly those of the state's entry for `(k<ks>, t<tbl>)`. -/
theorem ofState_tablets (base : RCluster) (st : RState) (declared : List (Nat × Nat)) (r : RRequest) (ks : Nat)
    (hks : r.rq.table = some ks) (hd : (ks, r.tbl) ∈ declared) (tbl : Table)
    (ht : alGet (ksName ks, tblName r.tbl) st.info.tables = some tbl) :
    tabletsOf (RCluster.ofState base st declared) r = some tbl.tablets := by
  unfold tabletsOf RCluster.ofState
  simp only [hks]
  induction declared with
  | nil => cases hd
  | cons d ds ih =>
    simp only [List.filterMap_cons]
    by_cases he : d = (ks, r.tbl)
    · subst he
      simp only [ht, Option.map_some, alGet, if_true]
    · have hin : (ks, r.tbl) ∈ ds := by
        rcases List.mem_cons.mp hd with h | h
        · exact absurd h.symm he
        · exact h
      cases hg : alGet (ksName d.1, tblName d.2) st.info.tables with
      | none => simp only [Option.map_none]; exact ih hin
      | some t =>
        simp only [Option.map_some, alGet, he, if_false]
        exact ih hin

/-- **Preferred datacenter on tablet tables, for the cluster built from a reachable state** (`tablet_dc_replicas_in_dc`
with its two hypotheses discharged): history `pre`, then a refresh to peers `ps` with distinct host ids, then any
tablet feedback; the cluster is `RCluster.ofState` on those peers. Every replica the policy is handed for datacenter
`d` on a declared table is a PEER of datacenter `d` and a replica of the covering tablet with the same shard. -/
theorem ofState_dc_replicas_in_dc (base : RCluster) (kss : List (String × Bool × List String))
    (peers0 : List ((Ring.Node × Nat) × Bool)) (pre : List StateOp) (ps : List ((Ring.Node × Nat) × Bool))
    (learns : List StateOp) (hl : ∀ op ∈ learns, ∃ spec f l raw, op = .learn spec f l raw)
    (hnd : (ps.map (·.1.1.id)).Nodup) (hbase : base.peers = ps.map (·.1.1))
    (declared : List (Nat × Nat)) (r : RRequest) (ks : Nat) (hks : r.rq.table = some ks) (hd : (ks, r.tbl) ∈ declared)
    (tbl : Table)
    (ht : alGet (ksName ks, tblName r.tbl)
      ((RState.init kss peers0).run kss (pre ++ .refresh ps :: learns)).info.tables = some tbl) (tok : Int) (d : Nat) :
    let rc := RCluster.ofState base ((RState.init kss peers0).run kss (pre ++ .refresh ps :: learns)) declared
    tabletsOf rc r = some tbl.tablets ∧
    ∀ x ∈ tabletReplicas rc tbl.tablets tok (some d), x.1.dc = some d ∧ x ∈ tabletReplicas rc tbl.tablets tok none := by
  intro rc
  refine ⟨ofState_tablets base _ declared r ks hks hd tbl ht, ?_⟩
  have hmem : ((ksName ks, tblName r.tbl), tbl) ∈
      ((RState.init kss peers0).run kss (pre ++ .refresh ps :: learns)).info.tables := by
    have : ∀ (m : List ((String × String) × Table)) k v, alGet k m = some v → (k, v) ∈ m := by
      intro m
      induction m with
      | nil => intro k v h; simp [alGet] at h
      | cons x m ih =>
        intro k v h
        obtain ⟨k', v'⟩ := x
        simp only [alGet] at h
        split at h
        · rename_i hk; cases h; subst hk; exact List.mem_cons_self
        · exact List.mem_cons_of_mem _ (ih k v h)
    exact this _ _ _ ht
  have hsplit : (RState.init kss peers0).run kss (pre ++ .refresh ps :: learns) =
      (((RState.init kss peers0).run kss pre).step kss (.refresh ps)).run kss learns := by
    simp [RState.run, List.foldl_append]
  have hpm : PeersMatch rc.peers ((RState.init kss peers0).run kss (pre ++ .refresh ps :: learns)).known := by
    rw [hsplit]
    show PeersMatch base.peers _
    rw [hbase]
    exact peersMatch_refresh _ kss ps hnd learns hl
  exact tablet_dc_replicas_in_dc rc kss peers0 _ _ tbl hmem hpm tok d

/-! "Complete replica list" said outright: the resolved replicas ARE the raw list the servers sent. -/

/-- The host ids and shards of a replica list. -/
def rawOf (l : List Rep) : List (Nat × Nat) := l.map (fun p => (p.1.hostId, p.2))

private theorem resolveAll_complete (tr : Nat → Option Tablets.Node) (htr : ∀ id n, tr id = some n → n.hostId = id)
    (raw : List (Nat × Nat)) (h : (resolveFailed tr raw).isEmpty = true) : rawOf (resolveAll tr raw) = raw := by
  induction raw with
  | nil => rfl
  | cons r raw ih =>
    obtain ⟨id, sh⟩ := r
    simp only [resolveFailed, resolveAll, List.filterMap_cons] at h ⊢
    cases hid : tr id with
    | none => simp [hid] at h
    | some n =>
      simp only [hid, Option.map_some] at h ⊢
      have := ih (by simpa [resolveFailed] using h)
      simp only [rawOf, resolveAll, List.map_cons] at this ⊢
      rw [this, htr id n hid]

/-- **A tablet learnt or re-resolved with every replica known holds exactly the replicas the servers named**
(`Tablet::from_raw_tablet`, `re_resolve_replicas`): same host ids, same shards, same order - nothing dropped, nothing
invented. With `refresh_leaves_nothing_unresolved` (after a refresh `failed = none` everywhere) this is what "complete
replica list" means: the policy is handed ALL replicas of the covering tablet. -/
theorem resolved_is_raw (tr : Nat → Option Tablets.Node) (htr : ∀ id n, tr id = some n → n.hostId = id) :
    (∀ first last raw, (Tablet.fromRaw first last raw tr).failed = none →
      rawOf (Tablet.fromRaw first last raw tr).replicas.all = raw) ∧
    (∀ t u raw, t.failed = some raw → reResolve tr t = some u → u.failed = none ∧ rawOf u.replicas.all = raw) := by
  refine ⟨?_, ?_⟩
  · intro first last raw h
    simp only [Tablet.fromRaw, fromRawReplicas] at h ⊢
    by_cases hc : (resolveFailed tr raw).isEmpty = true
    · exact resolveAll_complete tr htr raw hc
    · simp [hc] at h
  · intro t u raw hf hr
    unfold reResolve at hr
    simp only [hf, fromRawReplicas] at hr
    by_cases hc : (resolveFailed tr raw).isEmpty = true
    · simp only [hc, if_true, Option.some.injEq] at hr
      subst hr
      exact ⟨rfl, resolveAll_complete tr htr raw hc⟩
    · simp [hc] at hr

/-- ... and an unresolved tablet holds exactly the KNOWN part of the raw list, in order (so a truncated list is never
larger or differently sharded than what the servers named). -/
theorem unresolved_is_known_part (tr : Nat → Option Tablets.Node) (htr : ∀ id n, tr id = some n → n.hostId = id)
    (first last : Int) (raw : List (Nat × Nat)) :
    rawOf (Tablet.fromRaw first last raw tr).replicas.all = raw.filter (fun r => (tr r.1).isSome) := by
  simp only [Tablet.fromRaw, fromRawReplicas]
  induction raw with
  | nil => rfl
  | cons r raw ih =>
    obtain ⟨id, sh⟩ := r
    simp only [resolveAll, List.filterMap_cons, List.filter_cons] at ih ⊢
    cases hid : tr id with
    | none => simpa [hid] using ih
    | some n =>
      simp only [Option.map_some, Option.isSome_some, if_true, rawOf, List.map_cons] at ih ⊢
      rw [htr id n hid]
      exact congrArg _ ih

/-! ... as an invariant of the tablets HELD in a reachable state (whatever `maintTablet` rewrote since they were learnt). -/

/-- Where a tablet held by table `spec` comes from: some `learn` of the history FOR THAT TABLE with its range and raw
replica list; if the tablet has
no unresolved replica its replica list IS that raw list (host ids, shards, order); otherwise it remembers that raw list
and holds a sub-sequence of it. -/
def Origin (ops : List StateOp) (spec : String × String) (t : Tablet) : Prop :=
  ∃ f l raw, StateOp.learn spec f l raw ∈ ops ∧ t.first = f ∧ t.last = l ∧
    (t.failed = none → rawOf t.replicas.all = raw) ∧
    (∀ r, t.failed = some r → r = raw ∧ (rawOf t.replicas.all).Sublist raw)

private theorem origin_mono {ops ops' : List StateOp} {spec : String × String} {t : Tablet} (h : Origin ops spec t)
    (hs : ∀ o ∈ ops, o ∈ ops') : Origin ops' spec t := by
  obtain ⟨f, l, raw, hm, r⟩ := h
  exact ⟨f, l, raw, hs _ hm, r⟩

private theorem alGet_mem'' {κ β : Type} [DecidableEq κ] (k : κ) (v : β) (m : List (κ × β)) (h : alGet k m = some v) :
    (k, v) ∈ m := by
  induction m with
  | nil => simp [alGet] at h
  | cons x m ih =>
    obtain ⟨k', v'⟩ := x
    simp only [alGet] at h
    split at h
    · rename_i hk; cases h; subst hk; exact List.mem_cons_self
    · exact List.mem_cons_of_mem _ (ih h)

private theorem mem_alSet'' {κ β : Type} [DecidableEq κ] (k : κ) (v : β) (m : List (κ × β)) :
    ∀ e ∈ alSet k v m, e = (k, v) ∨ e ∈ m := by
  induction m with
  | nil => intro e he; simp [alSet] at he; exact Or.inl he
  | cons x m ih =>
    obtain ⟨k', v'⟩ := x
    intro e he
    simp only [alSet] at he
    split at he
    · rcases List.mem_cons.mp he with rfl | h
      · exact Or.inl rfl
      · exact Or.inr (List.mem_cons_of_mem _ h)
    · rcases List.mem_cons.mp he with rfl | h
      · exact Or.inr List.mem_cons_self
      · rcases ih e h with r | r
        · exact Or.inl r
        · exact Or.inr (List.mem_cons_of_mem _ r)

private theorem addTablet_mem' (tbl : Table) (new : Tablet) :
    ∀ t ∈ (tbl.addTablet new).1.tablets, t = new ∨ t ∈ tbl.tablets := by
  intro t ht
  unfold Table.addTablet at ht
  cases h : addTabletList tbl.tablets new with
  | none => rw [h] at ht; exact Or.inr ht
  | some l =>
    rw [h] at ht
    simp only [] at ht
    unfold addTabletList at h
    simp only [] at h
    split at h
    · cases h
      rcases List.mem_append.mp ht with hm | hm
      · exact Or.inr (List.mem_of_mem_take hm)
      · rcases List.mem_cons.mp hm with rfl | hm
        · exact Or.inl rfl
        · exact Or.inr (List.mem_of_mem_drop hm)
    · cases h

private theorem mem_foldl_addKs (kss : List (String × Bool × List String)) :
    ∀ (acc : List ((String × String) × Table)), ∀ e ∈ kss.foldl C15.addKs acc, e ∈ acc ∨ e.2 = Table.empty := by
  have inner : ∀ (ksn : String) (tbs : List String) (acc : List ((String × String) × Table)),
      ∀ e ∈ tbs.foldl (C15.addEntry ksn) acc, e ∈ acc ∨ e.2 = Table.empty := by
    intro ksn tbs
    induction tbs with
    | nil => intro acc e he; exact Or.inl he
    | cons tb tbs ih =>
      intro acc e he
      simp only [List.foldl_cons] at he
      rcases ih _ e he with h | h
      · unfold C15.addEntry at h
        split at h
        · exact Or.inl h
        · rcases List.mem_append.mp h with h | h
          · exact Or.inl h
          · simp only [List.mem_singleton] at h; subst h; exact Or.inr rfl
      · exact Or.inr h
  induction kss with
  | nil => intro acc e he; exact Or.inl he
  | cons ks kss ih =>
    intro acc e he
    simp only [List.foldl_cons] at he
    rcases ih _ e he with h | h
    · unfold C15.addKs at h
      split at h
      · exact inner _ _ _ e h
      · exact Or.inl h
    · exact Or.inr h

private theorem rawOf_updateStale (rc : List (Nat × Tablets.Node)) (hrc : C15.KeyOk rc) (t : Tablet) :
    rawOf (updateStale rc t).replicas.all = rawOf t.replicas.all := by
  simp only [updateStale, rawOf, List.map_map]
  apply List.map_congr_left
  intro p _
  simp only [Function.comp, swapNode]
  cases hg : alGet p.1.hostId rc with
  | none => rfl
  | some n => simp only []; rw [hrc _ _ hg]

private theorem origin_maintTablet {ops : List StateOp} {rm : List Nat} {ns rc : List (Nat × Tablets.Node)}
    (hns : C15.KeyOk ns) (hrc : C15.KeyOk rc) {spec : String × String} {t u : Tablet} (ho : Origin ops spec t)
    (h : C15.maintTablet rm ns rc t = some u) : Origin ops spec u := by
  unfold C15.maintTablet at h
  simp only [Option.map_eq_some_iff, Option.bind_eq_some_iff] at h
  obtain ⟨t2, ⟨t1, h1, h2⟩, rfl⟩ := h
  have e12 : t2 = t1 := by
    split at h2
    · cases h2
    · cases h2; rfl
  subst e12
  obtain ⟨f, l, raw, hm, hf, hl, hnone, hsome⟩ := ho
  have hus : (updateStale rc t2).first = t2.first ∧ (updateStale rc t2).last = t2.last ∧
      (updateStale rc t2).failed = t2.failed := ⟨rfl, rfl, rfl⟩
  cases hfail : t.failed with
  | none =>
    have : t2 = t := by unfold reResolve at h1; simp only [hfail, Option.some.injEq] at h1; exact h1.symm
    subst this
    refine ⟨f, l, raw, hm, by rw [hus.1]; exact hf, by rw [hus.2.1]; exact hl, ?_, ?_⟩
    · intro _; rw [rawOf_updateStale rc hrc]; exact hnone hfail
    · intro r hr; rw [hus.2.2, hfail] at hr; cases hr
  | some r0 =>
    obtain ⟨hr0, _⟩ := hsome r0 hfail
    subst hr0
    obtain ⟨hfn, hraw⟩ := (resolved_is_raw (fun id => alGet id ns) hns).2 t t2 r0 hfail h1
    have hrange : t2.first = t.first ∧ t2.last = t.last := by
      unfold reResolve at h1
      simp only [hfail, fromRawReplicas] at h1
      by_cases hc : (resolveFailed (fun id => alGet id ns) r0).isEmpty = true
      · simp only [hc, if_true, Option.some.injEq] at h1; subst h1; exact ⟨rfl, rfl⟩
      · simp [hc] at h1
    refine ⟨f, l, r0, hm, by rw [hus.1, hrange.1]; exact hf, by rw [hus.2.1, hrange.2]; exact hl, ?_, ?_⟩
    · intro _; rw [rawOf_updateStale rc hrc]; exact hraw
    · intro r hr; rw [hus.2.2, hfn] at hr; cases hr

private theorem keyOk_recreated (old new : Known) (hk : C15.KeyOk (nodesOf new)) : C15.KeyOk (recreatedNodes old new) := by
  intro id n hg
  have hm := alGet_mem'' _ _ _ hg
  simp only [recreatedNodes, List.mem_filterMap] at hm
  obtain ⟨e, _, he⟩ := hm
  cases hn : alGet e.1 new with
  | none => rw [hn] at he; cases he
  | some kn =>
    rw [hn] at he
    simp only [] at he
    split at he
    · simp only [Option.some.injEq, Prod.mk.injEq] at he
      obtain ⟨rfl, rfl⟩ := he
      exact hk _ _ (by rw [alGet_nodesOf', hn]; rfl)
    · cases he

/-- **Every tablet HELD in a reachable state is complete or knows what it lacks** (invariant along any history of
tablet feedback and metadata refreshes, any host-filter verdicts): it stems from a `learn` of the history FOR THE TABLE THAT HOLDS IT,
with that range; if no replica of it is unresolved, its replica list is exactly the raw list the servers sent with that feedback
(same hosts, same shards, same order - also after re-resolution and after re-created `Node` objects were swapped in);
otherwise it still remembers that raw list and holds a sub-sequence of it. With `refresh_leaves_nothing_unresolved`:
right after a refresh every held tablet hands the policy ALL replicas the servers named. -/
theorem held_tablets_complete (kss : List (String × Bool × List String)) (peers : List ((Ring.Node × Nat) × Bool))
    (ops : List StateOp) :
    ∀ e ∈ ((RState.init kss peers).run kss ops).info.tables, ∀ t ∈ e.2.tablets, Origin ops e.1 t := by
  -- the invariant carried along: origins, honest flags, and C15's `StateOk` (for `KeyOk` of the node maps)
  let I : List StateOp → RState → Prop := fun pre st =>
    (∀ e ∈ st.info.tables, ∀ t ∈ e.2.tablets, Origin pre e.1 t) ∧ FlagsHonest st.info ∧ C15.StateOk st
  have refreshI : ∀ (pre : List StateOp) (st : RState) (ps : List TabletsRefresh.Peer), I pre st →
      (∀ e ∈ (refresh st ps kss).info.tables, ∀ t ∈ e.2.tablets, Origin pre e.1 t) := by
    intro pre st ps ⟨ho, hfl, hok⟩ e he t ht
    have hok' := C15.stateOk_refresh st hok ps kss
    have hns : C15.KeyOk (nodesOf (newTopology st.known st.gen ps).1) := hok'.1
    have hrc := keyOk_recreated st.known (newTopology st.known st.gen ps).1 hns
    simp only [refresh, performTabletsMaintenance] at he
    rw [C15.maintenance_unfold] at he
    simp only [] at he
    have hbase : ∀ x ∈ kss.foldl C15.addKs (st.info.tables.filter (fun e => C15.keptBy kss e.1)),
        (∀ t ∈ x.2.tablets, Origin pre x.1 t) ∧ C15.FlagInv x.2 := by
      intro x hx
      rcases mem_foldl_addKs kss _ x hx with h | h
      · have hm := (List.mem_filter.mp h).1
        exact ⟨ho x hm, hfl.tables x hm⟩
      · rw [h]; exact ⟨by intro t ht; simp [Table.empty] at ht, by intro _ t ht; simp [Table.empty] at ht⟩
    split at he
    · obtain ⟨x, hx, rfl⟩ := List.mem_map.mp he
      simp only [] at ht
      rw [(C15.maintenance_eq_filterMap x.2 (hbase x hx).2 _ _ _).1] at ht
      obtain ⟨t0, ht0, hmt⟩ := List.mem_filterMap.mp ht
      exact origin_maintTablet hns hrc ((hbase x hx).1 t0 ht0) hmt
    · exact (hbase e he).1 t ht
  have stepI : ∀ (pre : List StateOp) (st : RState) (op : StateOp), I pre st → I (pre ++ [op]) (st.step kss op) := by
    intro pre st op hI
    obtain ⟨ho, hfl, hok⟩ := hI
    have mono : ∀ sp t, Origin pre sp t → Origin (pre ++ [op]) sp t :=
      fun sp t h => origin_mono h (fun o ho' => List.mem_append_left _ ho')
    cases op with
    | learn spec f l raw =>
      refine ⟨?_, C15.learn_keeps_flags_honest hfl spec _, C15.stateOk_learn st hok spec f l raw⟩
      intro e he t ht
      have hshape : (RState.step kss st (.learn spec f l raw)).info.tables =
          alSet spec (((alGet spec st.info.tables).getD Table.empty).addTablet
            (Tablet.fromRaw f l raw (translator st.known))).1 st.info.tables := rfl
      rw [hshape] at he
      have htr : ∀ id n, translator st.known id = some n → n.hostId = id := by
        intro id n hn
        exact hok.1 id n (by rw [alGet_nodesOf']; exact hn)
      rcases mem_alSet'' _ _ _ e he with rfl | hm
      · rcases addTablet_mem' _ _ t ht with rfl | hm
        · refine ⟨f, l, raw, List.mem_append_right _ List.mem_cons_self, rfl, rfl, ?_, ?_⟩
          · intro hn; exact (resolved_is_raw _ htr).1 f l raw hn
          · intro r hr
            have hr' : r = raw := by
              simp only [Tablet.fromRaw, fromRawReplicas] at hr
              by_cases hc : (resolveFailed (translator st.known) raw).isEmpty = true
              · simp [hc] at hr
              · simp only [hc, Bool.false_eq_true, if_false, Option.some.injEq] at hr; exact hr.symm
            refine ⟨hr', ?_⟩
            rw [unresolved_is_known_part _ htr]
            exact List.filter_sublist
        · cases hg : alGet spec st.info.tables with
          | none => rw [hg] at hm; simp [Table.empty] at hm
          | some c =>
            rw [hg] at hm
            exact mono _ t (ho _ (alGet_mem'' _ _ _ hg) t hm)
      · exact mono _ t (ho e hm t ht)
    | refresh ps =>
      refine ⟨?_, (C15.refresh_resolves_all hfl _ _ _ _).2, C15.stateOk_refresh st hok _ kss⟩
      intro e he t ht
      exact mono _ t (refreshI pre st (ps.map toPeer) ⟨ho, hfl, hok⟩ e he t ht)
  have runI : ∀ (ops pre : List StateOp) (st : RState), I pre st → I (pre ++ ops) (st.run kss ops) := by
    intro ops
    induction ops with
    | nil => intro pre st h; simpa [RState.run] using h
    | cons op ops ih =>
      intro pre st h
      have := ih (pre ++ [op]) _ (stepI pre st op h)
      simpa [RState.run, List.append_assoc] using this
  have h0 : I [] (RState.init kss peers) := by
    have hI0 : I [] TabletsRefresh.CState.init :=
      ⟨by intro e he; simp [CState.init, Info.empty] at he, C15.flags_honest_empty, C15.stateOk_init⟩
    exact ⟨refreshI [] _ _ hI0, (C15.refresh_resolves_all C15.flags_honest_empty _ _ _ _).2,
      C15.stateOk_refresh _ C15.stateOk_init _ kss⟩
  have := runI ops [] _ h0
  simpa using this.1

-- non-vacuity: the late-replica shape. Nodes 1 (dc0) and 2 (dc1) are known; a tablet names node 4 (unknown) and node 2;
-- a refresh then adds node 4 at the end of the peer list (nobody removed or re-created): the tablet is complete again.
private def n1 : Ring.Node := ⟨1, some 0, some 0⟩
private def n2 : Ring.Node := ⟨2, some 1, some 0⟩
private def n4 : Ring.Node := ⟨4, some 0, some 1⟩
private def kssEx : List (String × Bool × List String) := [("k0", true, ["t0"])]
private def stEx (ops : List StateOp) : RState := (RState.init kssEx [((n1, 0), false), ((n2, 1), true)]).run kssEx ops
private def repsEx (st : RState) : List (Nat × Nat) :=
  ((alGet ("k0", "t0") st.info.tables).map (fun t => (replicasForToken t.tablets 50).getD [])).getD [] |>.map
    (fun r => (r.1.hostId, r.2))
private def lateOps : List StateOp := [.learn ("k0", "t0") 1 100 [(4, 4), (2, 3)], .refresh [((n1, 0), false), ((n2, 1), true), ((n4, 2), true)]]
example : repsEx (stEx [.learn ("k0", "t0") 1 100 [(4, 4), (2, 3)]]) = [(2, 3)] ∧
    (stEx [.learn ("k0", "t0") 1 100 [(4, 4), (2, 3)]]).info.hasUnknown = true ∧
    repsEx (stEx lateOps) = [(4, 4), (2, 3)] ∧
    recreatedNodes (stEx []).known (newTopology (stEx []).known (stEx []).gen ([((n1, 0), false), ((n2, 1), true), ((n4, 2), true)].map toPeer)).1 = [] ∧
    removedNodes (stEx []).known (newTopology (stEx []).known (stEx []).gen ([((n1, 0), false), ((n2, 1), true), ((n4, 2), true)].map toPeer)).1 = [] ∧
    -- a refresh that does not bring the node: the tablet is forgotten, never served truncated
    repsEx (stEx [.learn ("k0", "t0") 1 100 [(4, 4), (2, 3)], .refresh [((n1, 0), false), ((n2, 1), true)]]) = [] := by decide
example : PeersMatch [n1, n2, n4] (stEx lateOps).known := by
  refine ⟨by decide, ?_⟩
  intro n hn
  have h : ∀ n ∈ [n1, n2, n4],
      (alGet n.id (nodesOf (stEx lateOps).known)).map (·.dc) = some (n.dc.map dcName) := by decide
  obtain ⟨kn, hk, hd⟩ := Option.map_eq_some_iff.mp (h n hn)
  exact ⟨kn, hk, hd⟩

end Refresh

/-! ## 6. "Live replica" spelled out (C04), the token (C03), and the composed statement -/

private theorem ts_mem_keyspaces {cl : Cluster} {cfg : Config} {rq : Request} {ts : Strategy × Int}
    (hts : tokenWithStrategy cl cfg rq = some ts) : ts.1 ∈ cl.keyspaces ∧ rq.token = some ts.2 := by
  unfold tokenWithStrategy at hts
  split at hts
  · cases hts
  · split at hts
    · rename_i tok ks ht hk
      obtain ⟨s, hs, rfl⟩ := Option.map_eq_some_iff.mp hts
      exact ⟨List.mem_of_getElem? hs, ht⟩
    · cases hts

open ScyllaVerif.Props.C05 in
/-- **What `live` means** (corollary of C04 `views_agree`): the targets of the two theorems above are exactly the nodes
of the replica set `ReplicaLocator::replicas_for_token(token, keyspace strategy, datacenter)` - which C04 proves equal
to the servers' placement rule - that are enabled and connected (and in the preferred rack when the criterion names
one), whether the policy walks the set in ring order (LWT) or not. -/
theorem live_replicas_are_replicas {cl : Cluster} (hwf : WF cl) {cfg : Config} {rq : Request} {ts : Strategy × Int}
    (hts : tokenWithStrategy cl cfg rq = some ts) (crit : Pref) (det : Bool) (n : Node) :
    n ∈ filteredReplicas cl ts crit det ↔
      n ∈ (replicasForToken cl.loc ts.2 ts.1 crit.datacenter).iter cl.loc ∧ cl.alive n = true ∧ rackOk crit n = true := by
  obtain ⟨r, S, hs, hloc⟩ := hwf.locator
  have hk : ∀ repf, ts.1 = .nts repf → (repf.map (·.1)).Nodup := by
    intro repf h
    exact hwf.ntsKeys repf (h ▸ (ts_mem_keyspaces hts).1)
  have hv := C04.views_agree hs S ts.2 ts.1 hk crit.datacenter
  simp only [] at hv
  rw [← hloc] at hv
  unfold filteredReplicas replicaSet
  simp only [List.mem_filter, Bool.and_eq_true]
  cases det with
  | true => simp only [if_true]; rw [hv.2.2.1.mem_iff]
  | false => simp only [Bool.false_eq_true, if_false]

/-- **The token is the servers' token** (re-export of C03 `token_formula`, so that the statement reads end to end):
the `token` of the `RoutingInfo` of a prepared statement whose partition-key markers are `wire` (any order) and whose
key components are bound to `comps` is Cassandra's Murmur3 token of the serialized key (the CDC token for the CDC
partitioner), never `i64::MIN`. -/
theorem token_is_servers_token (cdc : Bool) (wire : List Nat) (values : List PartitionKey.RawValue)
    (comps : List (List UInt8)) (hne : wire ≠ []) (hnd : wire.Nodup) (hlt : ∀ ix ∈ wire, ix < values.length)
    (hv : values.length ≤ 65535) (hbound : C03.keyOf wire values = comps.map some)
    (hsmall : 2 ≤ comps.length → ∀ c ∈ comps, c.length ≤ 65535) :
    PartitionKey.calculateToken cdc (PartitionKey.pkIndexesOfWire wire) values =
      .ok (some (if cdc then Murmur3.cdcRust (PartitionKey.encodeKey comps)
        else Murmur3.murmur3Spec (PartitionKey.encodeKey comps))) ∧
    Murmur3.murmur3Spec (PartitionKey.encodeKey comps) ≠ Int64.minValue :=
  ⟨C03.token_formula cdc wire values comps hne hnd hlt hv hbound hsmall, C03.murmur3Spec_ne_min _⟩

/-- The live replicas of the request's token as plan targets `(node, Some(shard))`, whichever map routes the table:
the covering tablet's replicas with the tablet's shards, or the ring replicas with the shard of the token under each
node's own sharder. -/
def liveReplicaTargets (rc : RCluster) (cfg : Config) (r : RRequest) (crit : Pref) : List Target :=
  let cl := rc.toCluster r.rq.token
  match tabletsOf rc r with
  | some xs => liveTargetsT cl (tabletReplicas rc xs (r.rq.token.getD 0)) crit
  | none =>
    match tokenWithStrategy cl cfg r.rq with
    | some ts => (filteredReplicas cl ts crit r.rq.routeAsLwt).map (sharded cl)
    | none => []

/-- What can be said of the connection an attempt for `shard` travels on, given the pool its node published. -/
def ConnectionOk (p : PoolConns) (shard : Nat) : Prop :=
  ∀ ρ : PoolRho, ∃ c, connectionForShard p shard ρ = some c ∧
    match p with
    | .notSharded l => c ∈ l
    | .sharded s b => sharderOf c = some s ∧ shardIdOf c < s.nr ∧
        ∀ bucket, shard < 65536 → b[shard]? = some bucket → bucket ≠ [] → shardIdOf c = shard

theorem connectionOk_of_poolOk (p : PoolConns) (hp : PoolOk p) (shard : Nat) : ConnectionOk p shard := by
  intro ρ
  cases p with
  | notSharded l =>
    obtain ⟨c, he, hc⟩ := connection_for_shard_total _ hp shard ρ
    exact ⟨c, he, hc⟩
  | sharded s b =>
    obtain ⟨c, he, h1, h2, h3⟩ := connection_shard s b hp shard ρ
    exact ⟨c, he, h1, h2, h3⟩

open ScyllaVerif.Props.C05 in
/-- **The composed statement (C12).** For every cluster (`WF`: what `ClusterState::new` builds), every policy
configuration, every token-aware request (token present, keyspace known, policy token-aware) on a ring table or a
tablet table, ALL random choices of `pick` / `fallback` (`ρp`, `ρf`), of the shard fill-in (`draw`) and of the pool
(`ρ` inside `ConnectionOk`), and every pool state the refiller can have published for the target node (`evts` = any
sequence of ready / broken connections):
 1. if the preferred datacenter holds a live replica of the token, the first attempt goes to one of them;
 2. if no datacenter is preferred or failover is permitted and some replica is live, the first attempt goes to a live
    replica (a preferred-datacenter one whenever one is live: item 1);
 3. in both cases the attempt carries the replica's shard - the covering TABLET's shard for a tablet table, the shard
    of the token under the target node's own sharder otherwise - and
 4. it travels on a connection the server bound to exactly that shard whenever the node's pool holds one (otherwise on
    some pooled connection of that node); selecting the connection never panics. -/
theorem route_first_attempt (rc : RCluster) (cfg : Config) (r : RRequest) (ρp : RhoPick) (ρf : RhoFb) (draw : Nat)
    (hwf : WF (rc.toCluster r.rq.token)) (haware : tokenAware (rc.toCluster r.rq.token) cfg r.rq = true) :
    let first := firstAttempt rc (routePlan rc cfg r ρp ρf) draw
    let good := fun (a : Attempt) (L : List Target) =>
      (a.node, some a.shard) ∈ L ∧
      ∀ (size : PoolSize) (evts : List PoolEvt) (rf : Refiller) (p : PoolConns),
        (Refiller.init size).run evts = some rf → rf.shared = some p → ConnectionOk p a.shard
    (∀ d, (preference cfg r.rq).datacenter = some d → liveReplicaTargets rc cfg r (.dc d) ≠ [] →
      ∃ a, first = some a ∧ good a (liveReplicaTargets rc cfg r (.dc d))) ∧
    (((preference cfg r.rq).datacenter = none ∨ cfg.failover = true) → liveReplicaTargets rc cfg r .any ≠ [] →
      ∃ a, first = some a ∧
        (good a (liveReplicaTargets rc cfg r .any) ∨
          ∃ d, (preference cfg r.rq).datacenter = some d ∧ good a (liveReplicaTargets rc cfg r (.dc d)))) := by
  intro first good
  -- the pool half: whatever pool was published, it is well-filed
  have pool : ∀ shard (size : PoolSize) (evts : List PoolEvt) (rf : Refiller) (p : PoolConns),
      (Refiller.init size).run evts = some rf → rf.shared = some p → ConnectionOk p shard := by
    intro shard size evts rf p hrun hsh
    exact connectionOk_of_poolOk p ((pool_filing_invariant size evts rf hrun).shared p hsh) shard
  -- a sharded head target becomes the attempt (node, that shard)
  have attempt : ∀ (t : Target) (sh : Nat), (routePlan rc cfg r ρp ρf).head? = some t → t.2 = some sh →
      first = some ⟨t.1, sh⟩ := by
    intro t sh hh hs
    simp only [first, firstAttempt, hh, Option.map_some, hs, Option.getD_some]
  have mk_good : ∀ (t : Target) (L : List Target), (routePlan rc cfg r ρp ρf).head? = some t → t ∈ L →
      (∃ sh, t.2 = some sh) → ∃ a, first = some a ∧ good a L := by
    intro t L hh hL ⟨sh, hs⟩
    refine ⟨⟨t.1, sh⟩, attempt t sh hh hs, ?_, fun size evts rf p h1 h2 => pool sh size evts rf p h1 h2⟩
    have : t = (t.1, some sh) := by rw [← hs]
    rw [← this]; exact hL
  cases htab : tabletsOf rc r with
  | some xs =>
    have hplan := (tablet_overrides_ring rc cfg r ρp ρf).1 xs htab
    obtain ⟨h1, h2⟩ := first_attempt_is_tablet_replica (rc.toCluster r.rq.token) cfg r.rq
      (tabletReplicas rc xs (r.rq.token.getD 0)) ρp ρf haware
    have hsh : ∀ crit t, t ∈ liveTargetsT (rc.toCluster r.rq.token) (tabletReplicas rc xs (r.rq.token.getD 0)) crit →
        ∃ sh, t.2 = some sh := by
      intro crit t ht
      obtain ⟨x, _, rfl⟩ := List.mem_map.mp ht
      exact ⟨x.2, rfl⟩
    simp only [liveReplicaTargets, htab]
    refine ⟨?_, ?_⟩
    · intro d hd hne
      obtain ⟨t, hh, ht, _⟩ := h1 d hd hne
      exact mk_good t _ (by rw [hplan]; exact hh) ht (hsh _ t ht)
    · intro hperm hne
      obtain ⟨t, hh, ht⟩ := h2 hperm hne
      rcases ht with ht | ⟨d, hd, ht⟩
      · obtain ⟨a, ha, hg⟩ := mk_good t _ (by rw [hplan]; exact hh) ht (hsh _ t ht)
        exact ⟨a, ha, Or.inl hg⟩
      · obtain ⟨a, ha, hg⟩ := mk_good t _ (by rw [hplan]; exact hh) ht (hsh _ t ht)
        exact ⟨a, ha, Or.inr ⟨d, hd, hg⟩⟩
  | none =>
    have hplan := (tablet_overrides_ring rc cfg r ρp ρf).2 htab
    cases hts : tokenWithStrategy (rc.toCluster r.rq.token) cfg r.rq with
    | none => simp [tokenAware, hts] at haware
    | some ts =>
      obtain ⟨h1, h2⟩ := first_attempt_is_replica hwf cfg r.rq ρp ρf hts
      simp only [liveReplicaTargets, htab, hts]
      have ne_of : ∀ crit, (filteredReplicas (rc.toCluster r.rq.token) ts crit r.rq.routeAsLwt).map
          (sharded (rc.toCluster r.rq.token)) ≠ [] → filteredReplicas (rc.toCluster r.rq.token) ts crit r.rq.routeAsLwt ≠ [] := by
        intro crit h hc; rw [hc] at h; exact h rfl
      have mem_of : ∀ crit (t : Target), t = sharded (rc.toCluster r.rq.token) t.1 →
          t.1 ∈ filteredReplicas (rc.toCluster r.rq.token) ts crit r.rq.routeAsLwt →
          t ∈ (filteredReplicas (rc.toCluster r.rq.token) ts crit r.rq.routeAsLwt).map (sharded (rc.toCluster r.rq.token)) := by
        intro crit t hs hm
        exact List.mem_map.mpr ⟨t.1, hm, hs.symm⟩
      have sh_of : ∀ t : Target, t = sharded (rc.toCluster r.rq.token) t.1 → ∃ sh, t.2 = some sh := by
        intro t hs; rw [hs]; exact ⟨_, rfl⟩
      refine ⟨?_, ?_⟩
      · intro d hd hne
        obtain ⟨t, hh, hs, ht⟩ := h1 d hd (ne_of _ hne)
        exact mk_good t _ (by rw [hplan]; exact hh) (mem_of _ t hs ht) (sh_of t hs)
      · intro hperm hne
        obtain ⟨t, hh, hs, ht⟩ := h2 hperm (ne_of _ hne)
        rcases ht with ht | ⟨d, hd, ht⟩
        · obtain ⟨a, ha, hg⟩ := mk_good t _ (by rw [hplan]; exact hh) (mem_of _ t hs ht) (sh_of t hs)
          exact ⟨a, ha, Or.inl hg⟩
        · obtain ⟨a, ha, hg⟩ := mk_good t _ (by rw [hplan]; exact hh) (mem_of _ t hs ht) (sh_of t hs)
          exact ⟨a, ha, Or.inr ⟨d, hd, hg⟩⟩

/-! ### non-vacuity: C05's 7-node, 2-datacenter ring (node 2 down, node 7 disabled); node 3 has 4 shards; table
`k1.t0` has tablets: [100, 200] on (node 3, shard 1), (node 5, shard 2) and [201, 300] on (node 4, shard 3) -/

def exPeers : List Node := allNodes C05.exCluster

def exTablets : List Tablets.Tablet :=
  (C15.run [.insert (Tablets.Tablet.fromRaw 100 200 [(3, 1), (5, 2)] (translator exPeers)),
            .insert (Tablets.Tablet.fromRaw 201 300 [(4, 3)] (translator exPeers))]).tablets

def exRC : RCluster :=
  { loc := C04.locOf C05.exRing [], keyspaces := [.nts [(0, 2), (1, 2)], .simple 3], disabled := [7], down := [2]
    sharder := fun id => if id = 3 then some ⟨4, 0⟩ else none
    peers := exPeers
    tables := [((1, 0), exTablets)] }

/-- ring table `k0.t0`, token 160 -/
def exRingRq : RRequest := ⟨⟨.quorum, some 160, some 0, false, .any⟩, 0⟩
/-- tablet table `k1.t0`, token 150 (inside the first tablet) -/
def exTabRq : RRequest := ⟨⟨.quorum, some 150, some 1, false, .any⟩, 0⟩

example : C05.WF (exRC.toCluster (some 160)) :=
  ⟨⟨C05.exRing, [], by decide, rfl⟩, by
    intro repf h
    simp only [exRC, RCluster.toCluster, List.mem_cons, Strategy.nts.injEq, List.not_mem_nil, or_false, reduceCtorEq] at h
    subst h; decide, by decide⟩

-- ring: the live local replica is node 3 (rack 3, not the preferred rack 1); its shard is that of token 160 under node 3's sharder
example : (liveReplicaTargets exRC C05.exCfg exRingRq (.dc 0)).map (fun t => (t.1.id, t.2)) = [(3, some 2)] ∧
    computedShard (some ⟨4, 0⟩) 160 = 2 ∧
    firstAttempt exRC (routePlan exRC C05.exCfg exRingRq C05.ρp1 C05.ρf1) 7 = some ⟨⟨3, some 0, some 3⟩, 2⟩ ∧
    tokenAware (exRC.toCluster (some 160)) C05.exCfg exRingRq.rq = true := by decide
-- tablets: the covering tablet names node 3 on shard 1 and node 5 on shard 2; node 3 is the local one. The shard is the
-- TABLET's (1), not what node 3's sharder computes for token 150 (2)
example : tabletsOf exRC exTabRq = some exTablets ∧
    (tabletReplicas exRC exTablets 150 none).map (fun r => (r.1.id, r.2)) = [(3, 1), (5, 2)] ∧
    (tabletReplicas exRC exTablets 150 (some 0)).map (fun r => (r.1.id, r.2)) = [(3, 1)] ∧
    firstAttempt exRC (routePlan exRC C05.exCfg exTabRq C05.ρp1 C05.ρf1) 7 = some ⟨⟨3, some 0, some 3⟩, 1⟩ ∧
    computedShard (exRC.sharder 3) 150 = 2 ∧
    (tabletReplicas exRC exTablets 250 none).map (fun r => (r.1.id, r.2)) = [(4, 3)] ∧
    tabletReplicas exRC exTablets 301 none = [] := by decide

/-! ## 7. The plan's shard and the pool's buckets use ONE sharder: the connection is bound to the shard that owns the token -/

/-- `nr_shards` of a connection's shard info is a `u16` (`ShardInfo`). -/
def NrU16 (c : Conn) : Prop := ∀ i, c.info = some i → i.nr ≤ 65535

/-- The refiller's current and published sharders hold a `u16` shard count. -/
structure NrBound (rf : Refiller) : Prop where
  cur : ∀ s, rf.sharder = some s → s.nr ≤ 65535
  pub : ∀ s b, rf.shared = some (.sharded s b) → s.nr ≤ 65535

private theorem nrBound_of {rf rf' : Refiller} (h : NrBound rf) (hs : rf'.sharder = rf.sharder) (hp : rf'.shared = rf.shared) :
    NrBound rf' := ⟨by rw [hs]; exact h.cur, by rw [hp]; exact h.pub⟩

private theorem nrBound_publish {rf : Refiller} (h : NrBound rf) : NrBound rf.publish := by
  unfold Refiller.publish
  split
  · exact ⟨h.cur, (by intro s b hc; cases hc)⟩
  · cases hs : rf.sharder with
    | some s =>
      simp only []
      refine ⟨by intro s' h'; exact h.cur s' (by rw [hs]; exact h'), ?_⟩
      intro s' b hc
      simp only [Option.some.injEq, PoolConns.sharded.injEq] at hc
      exact h.cur s' (by rw [hs, hc.1])
    | none =>
      simp only []
      exact ⟨(by intro s' h'; cases h'), (by intro s' b hc; cases hc)⟩

private theorem nrBound_step {rf rf' : Refiller} (h : NrBound rf) (e : PoolEvt)
    (hv : ∀ c r, e = .ready c r → NrU16 c) (he : rf.step e = some rf') : NrBound rf' := by
  cases e with
  | ready c requested =>
    simp only [Refiller.step, Option.map_eq_some_iff] at he
    obtain ⟨rf1, h1, rfl⟩ := he
    have hc := hv c requested rfl
    have hm : NrBound (rf.maybeReshard (sharderOf c)) := by
      unfold Refiller.maybeReshard
      split
      · exact h
      · refine ⟨?_, h.pub⟩
        intro s hs
        simp only [] at hs
        unfold sharderOf at hs
        obtain ⟨i, hi, rfl⟩ := Option.map_eq_some_iff.mp hs
        exact hc i hi
    have h1' : NrBound rf1 := by
      unfold Refiller.handleReady at h1
      simp only [] at h1
      split at h1
      · cases h1
      · split at h1
        · cases h1; exact nrBound_publish (nrBound_of hm rfl rfl)
        · split at h1
          · cases h1; exact hm
          · cases h1; exact nrBound_of hm rfl rfl
    split
    · exact nrBound_of h1' rfl rfl
    · exact h1'
  | broken c =>
    simp only [Refiller.step, Option.some.injEq] at he
    subst he
    unfold Refiller.removeConn
    simp only []
    split
    · exact nrBound_publish (nrBound_of h rfl rfl)
    · split
      · exact nrBound_of h rfl rfl
      · exact h

/-- **Every pool a refiller publishes has a `NonZeroU16` shard count** (given that connections report `u16` counts). -/
theorem published_sharder_valid (size : PoolSize) (evts : List PoolEvt) (rf : Refiller)
    (hv : ∀ c r, PoolEvt.ready c r ∈ evts → NrU16 c) (h : (Refiller.init size).run evts = some rf)
    (s : SharderM) (b : List (List Conn)) (hp : rf.shared = some (.sharded s b)) : s.Valid := by
  have key : ∀ (evts : List PoolEvt) (r0 : Refiller), NrBound r0 → (∀ c r, PoolEvt.ready c r ∈ evts → NrU16 c) →
      r0.run evts = some rf → NrBound rf := by
    intro evts
    induction evts with
    | nil => intro r0 h0 _ he; simp only [Refiller.run, Option.some.injEq] at he; subst he; exact h0
    | cons e es ih =>
      intro r0 h0 hv he
      simp only [Refiller.run] at he
      cases hs : r0.step e with
      | none => rw [hs] at he; cases he
      | some r1 =>
        rw [hs] at he
        exact ih r1 (nrBound_step h0 e (fun c r hc => hv c r (hc ▸ List.mem_cons_self)) hs)
          (fun c r hm => hv c r (List.mem_cons_of_mem _ hm)) he
  have hb := key evts _ ⟨(by intro s hs; cases hs), (by intro s b hs; cases hs)⟩ hv h
  have hok := (pool_filing_invariant size evts rf h).shared _ hp
  obtain ⟨hlen, _, i, bucket, hib, _⟩ := hok
  have hi : i < b.length := by
    rcases Nat.lt_or_ge i b.length with hlt | hge
    · exact hlt
    · rw [List.getElem?_eq_none_iff.mpr hge] at hib; cases hib
  exact ⟨by omega, hb.pub s b hp⟩

/-- **The connection owns the token** (the composition the property is about): when the shard of the token is computed
under the SAME sharder `s` as the one the pool's buckets are indexed by, the request travels - for all random choices -
on a connection the server bound to ScyllaDB's shard of that token (`shardOfSpec` on `s`), whenever the pool holds a
connection for that shard. No side condition on the shard number is left: it is `< nr_shards ≤ 65535`. -/
theorem conn_owns_token (s : SharderM) (b : List (List Conn)) (hp : PoolOk (.sharded s b)) (tok : Int)
    (hs : s.Valid) (hm : s.msb.toNat < 64) (h1 : -2 ^ 63 ≤ tok) (h2 : tok < 2 ^ 63) (ρ : PoolRho) :
    ∃ c, connectionForShard (.sharded s b) (computedShard (some s) tok) ρ = some c ∧
      computedShard (some s) tok = Sharding.shardOfSpec s.nr s.msb.toNat tok ∧
      (∀ bucket, b[Sharding.shardOfSpec s.nr s.msb.toNat tok]? = some bucket → bucket ≠ [] →
        shardIdOf c = Sharding.shardOfSpec s.nr s.msb.toNat tok) := by
  obtain ⟨c, he, _, _, h⟩ := connection_shard s b hp (computedShard (some s) tok) ρ
  have hlt : computedShard (some s) tok < s.nr := C11.shardOfImpl_lt s.nr s.msb _ hs.1
  have heq : computedShard (some s) tok = Sharding.shardOfSpec s.nr s.msb.toNat tok := by
    simp only [computedShard]
    rw [C11.shardOfImpl_eq_spec s.nr s.msb _ hm, Int64.toInt_ofInt_of_le h1 h2]
  refine ⟨c, he, heq, ?_⟩
  intro bucket hb hne
  rw [← heq] at hb ⊢
  exact h bucket (by have := hs.2; omega) hb hne

/-- **`Node::sharder()` is the sharder of every pooled connection**: the sharder a node answers (`nodeSharder` of the
pool its refiller published) is the one every connection in that pool reported - so "the shard of the token under the
target node's sharder" and "the bucket the connection is taken from" speak about the same sharding, as long as the
plan and the connection lookup see the same published pool. -/
theorem node_sharder_is_pool_sharder (size : PoolSize) (evts : List PoolEvt) (rf : Refiller)
    (h : (Refiller.init size).run evts = some rf) (s : SharderM) (hn : nodeSharder rf.shared = some s) :
    ∃ b, rf.shared = some (.sharded s b) ∧ PoolOk (.sharded s b) ∧
      ∀ (i : Nat) (bucket : List Conn), b[i]? = some bucket → ∀ c ∈ bucket, sharderOf c = some s ∧ shardIdOf c = i := by
  cases hsh : rf.shared with
  | none => rw [hsh] at hn; cases hn
  | some p =>
    cases p with
    | notSharded l => rw [hsh] at hn; cases hn
    | sharded s' b =>
      rw [hsh] at hn
      simp only [nodeSharder, Option.some.injEq] at hn
      subst hn
      have hok := (pool_filing_invariant size evts rf h).shared _ hsh
      exact ⟨b, rfl, hok, fun i bucket hb c hc => ⟨(hok.2.1 i bucket hb c hc).2, (hok.2.1 i bucket hb c hc).1⟩⟩

open ScyllaVerif.Props.C05 in
/-- **The composed statement, ring tables, with the sharder tied** (C12 as the property states it). `pools id` is the
refiller of node `id`; `Node::sharder()` of every node IS the sharder of the pool that refiller published (`hnode`) -
the plan and the connection lookup see the same published pools. Then, for every cluster, configuration, token-aware
request on a ring table with token `tok`, ALL random choices and ANY event history of every refiller: the first attempt
goes to a live replica (preferred-datacenter one when one is live), with the shard ScyllaDB's algorithm gives the token
on THAT node, and - when the node is sharded - it travels on a connection whose SERVER-SIDE shard is exactly that shard
whenever the node's pool holds one (else on some pooled connection of the node). -/
theorem route_first_attempt_owns_token (rc : RCluster) (cfg : Config) (r : RRequest) (ρp : RhoPick) (ρf : RhoFb)
    (draw : Nat) (tok : Int) (htok : r.rq.token = some tok) (h1 : -2 ^ 63 ≤ tok) (h2 : tok < 2 ^ 63)
    (hwf : WF (rc.toCluster r.rq.token)) (haware : tokenAware (rc.toCluster r.rq.token) cfg r.rq = true)
    (hring : tabletsOf rc r = none)
    (pools : Nat → Refiller)
    (hreach : ∀ id, ∃ size evts, (∀ c q, PoolEvt.ready c q ∈ evts → NrU16 c) ∧ (Refiller.init size).run evts = some (pools id))
    (hnode : ∀ id, rc.sharder id = nodeSharder (pools id).shared) :
    let first := firstAttempt rc (routePlan rc cfg r ρp ρf) draw
    let owned := fun (a : Attempt) =>
      ∀ s, rc.sharder a.node.id = some s → s.msb.toNat < 64 →
        a.shard = Sharding.shardOfSpec s.nr s.msb.toNat tok ∧
        ∃ b, (pools a.node.id).shared = some (.sharded s b) ∧ ∀ ρ : PoolRho,
          ∃ c, connectionForShard (.sharded s b) a.shard ρ = some c ∧
            (∀ bucket, b[a.shard]? = some bucket → bucket ≠ [] → shardIdOf c = a.shard)
    (∀ d, (preference cfg r.rq).datacenter = some d → liveReplicaTargets rc cfg r (.dc d) ≠ [] →
      ∃ a, first = some a ∧ (a.node, some a.shard) ∈ liveReplicaTargets rc cfg r (.dc d) ∧ owned a) ∧
    (((preference cfg r.rq).datacenter = none ∨ cfg.failover = true) → liveReplicaTargets rc cfg r .any ≠ [] →
      ∃ a, first = some a ∧ owned a ∧
        ((a.node, some a.shard) ∈ liveReplicaTargets rc cfg r .any ∨
          ∃ d, (preference cfg r.rq).datacenter = some d ∧ (a.node, some a.shard) ∈ liveReplicaTargets rc cfg r (.dc d))) := by
  intro first owned
  obtain ⟨g1, g2⟩ := route_first_attempt rc cfg r ρp ρf draw hwf haware
  -- a ring replica target carries the shard computed under its node's sharder
  have shard_of : ∀ (a : Attempt) (crit : Pref), (a.node, some a.shard) ∈ liveReplicaTargets rc cfg r crit →
      a.shard = computedShard (rc.sharder a.node.id) tok := by
    intro a crit hm
    simp only [liveReplicaTargets, hring] at hm
    cases hts : tokenWithStrategy (rc.toCluster r.rq.token) cfg r.rq with
    | none => rw [hts] at hm; cases hm
    | some ts =>
      rw [hts] at hm
      obtain ⟨n, _, hn⟩ := List.mem_map.mp hm
      simp only [sharded, Prod.mk.injEq, Option.some.injEq] at hn
      rw [← hn.2, hn.1]
      simp [RCluster.toCluster, htok]
  have own : ∀ (a : Attempt) (crit : Pref), (a.node, some a.shard) ∈ liveReplicaTargets rc cfg r crit → owned a := by
    intro a crit hm s hs hmsb
    have hsh := shard_of a crit hm
    rw [hs] at hsh
    obtain ⟨size, evts, hv, hrun⟩ := hreach a.node.id
    have hns : nodeSharder (pools a.node.id).shared = some s := by rw [← hnode]; exact hs
    obtain ⟨b, hb, hok, _⟩ := node_sharder_is_pool_sharder size evts _ hrun s hns
    have hvalid := published_sharder_valid size evts _ hv hrun s b hb
    refine ⟨?_, b, hb, ?_⟩
    · rw [hsh]
      exact (conn_owns_token s b hok tok hvalid hmsb h1 h2 ⟨0, fun _ => (0, 0)⟩).choose_spec.2.1
    · intro ρ
      obtain ⟨c, he, heq, hc⟩ := conn_owns_token s b hok tok hvalid hmsb h1 h2 ρ
      refine ⟨c, by rw [hsh]; exact he, ?_⟩
      intro bucket hbk hne
      rw [hsh, heq]
      rw [hsh, heq] at hbk
      exact hc bucket hbk hne
  refine ⟨?_, ?_⟩
  · intro d hd hne
    obtain ⟨a, ha, hg⟩ := g1 d hd hne
    exact ⟨a, ha, hg.1, own a _ hg.1⟩
  · intro hperm hne
    obtain ⟨a, ha, hg⟩ := g2 hperm hne
    rcases hg with hg | ⟨d, hd, hg⟩
    · exact ⟨a, ha, own a _ hg.1, Or.inl hg.1⟩
    · exact ⟨a, ha, own a _ hg.1, Or.inr ⟨d, hd, hg.1⟩⟩

/-- **The reshard race** (`hnode` of `route_first_attempt_owns_token` is a SNAPSHOT assumption: `Node::sharder()` is read
when the plan is computed, the pool again in `connection_for_shard`; the node may have restarted with other sharding
parameters in between). What then happens, for every pool `p` the refiller has published by then and the shard number
`stale` computed under the OLD sharder: selecting the connection does not panic and yields a connection of the CURRENT
pool, reporting the current sharder; it is the connection of bucket `stale` if the current pool has a non-empty bucket
with that number - which need not own the token under the new parameters - and any pooled connection otherwise. So
the request is still served by the right NODE; only shard affinity is lost for that attempt. -/
theorem reshard_race_served_by_current_pool (size : PoolSize) (evts : List PoolEvt) (rf : Refiller)
    (h : (Refiller.init size).run evts = some rf) (p : PoolConns) (hp : rf.shared = some p) (stale : Nat) :
    ConnectionOk p stale :=
  connectionOk_of_poolOk p ((pool_filing_invariant size evts rf h).shared p hp) stale

/-! ## 8. From the prepared statement: the Session glue composed with C03 -/

private theorem int64_toInt_range (x : Int64) : -2 ^ 63 ≤ x.toInt ∧ x.toInt < 2 ^ 63 := by
  have h2 : x.toInt = x.toBitVec.toInt := rfl
  rw [h2, BitVec.toInt_eq_toNat_cond]
  have := x.toBitVec.isLt
  split <;> omega

/-- The token of a serialized key under the statement's partitioner as C03 `token_formula` states it (Murmur3 of the
key, or the CDC rule); C03 `token_formula_server` equates it with the servers' own functions (`Java.getToken`,
`cdc_partitioner::get_token`) on their domains. -/
def serverToken (cdc : Bool) (comps : List (List UInt8)) : Int :=
  (if cdc then Murmur3.cdcRust (PartitionKey.encodeKey comps) else Murmur3.murmur3Spec (PartitionKey.encodeKey comps)).toInt

/-- **The `RoutingInfo` of `Session::execute`** (C03 `token_formula` inside the glue): for a prepared statement whose
partition-key markers are `wire` (any order, distinct, all bound: `comps` in partition-key order), the routing info
carries the servers' token of the serialized key, the statement's table, its LWT flag, the profile's consistency and
the session's location preference; and the first attempt is the head of the plan for exactly that request. -/
theorem session_routing_info_spec (p : PreparedM) (values : List PartitionKey.RawValue) (ex : ExecM)
    (wire : List Nat) (comps : List (List UInt8)) (hpk : p.pk = PartitionKey.pkIndexesOfWire wire)
    (hne : wire ≠ []) (hnd : wire.Nodup) (hlt : ∀ ix ∈ wire, ix < values.length) (hv : values.length ≤ 65535)
    (hbound : C03.keyOf wire values = comps.map some) (hsmall : 2 ≤ comps.length → ∀ c ∈ comps, c.length ≤ 65535) :
    let r : RRequest := ⟨⟨ex.consistency, some (serverToken p.cdc comps), p.table.map (·.1), p.lwt, ex.pref⟩,
      (p.table.map (·.2)).getD 0⟩
    sessionRoutingInfo p values ex = .ok r ∧
    (∀ rc cfg ρp ρf draw, sessionFirstAttempt rc cfg p values ex ρp ρf draw =
      firstAttempt rc (routePlan rc cfg r ρp ρf) draw) ∧
    -2 ^ 63 ≤ serverToken p.cdc comps ∧ serverToken p.cdc comps < 2 ^ 63 := by
  intro r
  have htok := C03.token_formula p.cdc wire values comps hne hnd hlt hv hbound hsmall
  have hri : sessionRoutingInfo p values ex = .ok r := by
    unfold sessionRoutingInfo PartitionKey.boundCalculateToken
    rw [if_neg (by omega), hpk, htok]
    simp only [r, serverToken, Option.map_some]
  refine ⟨hri, ?_, ?_⟩
  · intro rc cfg ρp ρf draw
    unfold sessionFirstAttempt
    rw [hri]
  · exact int64_toInt_range _

-- The pager's copy of the `RoutingInfo` literal (`pagerRoutingInfo`, written out a second time in the model as the code
-- writes it out three times: session.rs:1809, pager.rs:961, pager.rs:1042) is DEFINITIONALLY `sessionRoutingInfo`: not a
-- property theorem, and no statement about `/repo` - the three literals are tied to the code by the `e2e route` cases
-- (api=u, api=i first page, pages=2 second page after a failed coordinator).
example (p : PreparedM) (values : List PartitionKey.RawValue) (ex : ExecM) :
    pagerRoutingInfo p values ex = sessionRoutingInfo p values ex := by
  unfold pagerRoutingInfo sessionRoutingInfo
  cases PartitionKey.boundCalculateToken p.cdc p.pk values <;> rfl

open ScyllaVerif.Props.C05 in
/-- **End to end, from the bound key** (C03 ∘ glue ∘ C05/C04 ∘ C11 ∘ pool): for a prepared statement on a ring table
with all key components bound, every cluster, configuration, refiller history and ALL random choices: the first attempt
of `Session::execute` goes to a live replica of THE SERVERS' TOKEN of the serialized key (preferred-datacenter one when
one is live), with ScyllaDB's shard of that token on that node, on a connection the server bound to that shard whenever
the node's pool holds one. (Hypotheses: those of C03 `token_formula` and of `route_first_attempt_owns_token`.) -/
theorem session_first_attempt_owns_token (rc : RCluster) (cfg : Config) (p : PreparedM)
    (values : List PartitionKey.RawValue) (ex : ExecM) (ρp : RhoPick) (ρf : RhoFb) (draw : Nat)
    (wire : List Nat) (comps : List (List UInt8)) (hpk : p.pk = PartitionKey.pkIndexesOfWire wire)
    (hne : wire ≠ []) (hnd : wire.Nodup) (hlt : ∀ ix ∈ wire, ix < values.length) (hv : values.length ≤ 65535)
    (hbound : C03.keyOf wire values = comps.map some) (hsmall : 2 ≤ comps.length → ∀ c ∈ comps, c.length ≤ 65535)
    (r : RRequest)
    (hr : r = ⟨⟨ex.consistency, some (serverToken p.cdc comps), p.table.map (·.1), p.lwt, ex.pref⟩,
      (p.table.map (·.2)).getD 0⟩)
    (hwf : WF (rc.toCluster r.rq.token)) (haware : tokenAware (rc.toCluster r.rq.token) cfg r.rq = true)
    (hring : tabletsOf rc r = none)
    (pools : Nat → Refiller)
    (hreach : ∀ id, ∃ size evts, (∀ c q, PoolEvt.ready c q ∈ evts → NrU16 c) ∧ (Refiller.init size).run evts = some (pools id))
    (hnode : ∀ id, rc.sharder id = nodeSharder (pools id).shared) :
    let tok := serverToken p.cdc comps
    let first := sessionFirstAttempt rc cfg p values ex ρp ρf draw
    let owned := fun (a : Attempt) =>
      ∀ s, rc.sharder a.node.id = some s → s.msb.toNat < 64 →
        a.shard = Sharding.shardOfSpec s.nr s.msb.toNat tok ∧
        ∃ b, (pools a.node.id).shared = some (.sharded s b) ∧ ∀ ρ : PoolRho,
          ∃ c, connectionForShard (.sharded s b) a.shard ρ = some c ∧
            (∀ bucket, b[a.shard]? = some bucket → bucket ≠ [] → shardIdOf c = a.shard)
    (∀ d, (preference cfg r.rq).datacenter = some d → liveReplicaTargets rc cfg r (.dc d) ≠ [] →
      ∃ a, first = some a ∧ (a.node, some a.shard) ∈ liveReplicaTargets rc cfg r (.dc d) ∧ owned a) ∧
    (((preference cfg r.rq).datacenter = none ∨ cfg.failover = true) → liveReplicaTargets rc cfg r .any ≠ [] →
      ∃ a, first = some a ∧ owned a ∧
        ((a.node, some a.shard) ∈ liveReplicaTargets rc cfg r .any ∨
          ∃ d, (preference cfg r.rq).datacenter = some d ∧ (a.node, some a.shard) ∈ liveReplicaTargets rc cfg r (.dc d))) := by
  intro tok first owned
  obtain ⟨_, hfirst, h1, h2⟩ := session_routing_info_spec p values ex wire comps hpk hne hnd hlt hv hbound hsmall
  have htok : r.rq.token = some tok := by rw [hr]
  have key := route_first_attempt_owns_token rc cfg r ρp ρf draw tok htok h1 h2 hwf haware hring pools hreach hnode
  have hf : first = firstAttempt rc (routePlan rc cfg r ρp ρf) draw := by
    show sessionFirstAttempt rc cfg p values ex ρp ρf draw = _
    rw [hfirst rc cfg ρp ρf draw, hr]
  simp only [] at key
  rw [hf]
  exact key

open ScyllaVerif.Props.C05 in
/-- **Batches** (`Session::batch`, the fourth token-carrying `RoutingInfo` literal): a batch whose FIRST statement is
prepared (`p`) and whose first row of values binds all of its key components is routed exactly as
`Session::execute(p, that row)` with the LWT flag cleared - whatever the other statements and rows are: the first
attempt goes to a live replica of the servers' token of the FIRST statement's key, with ScyllaDB's shard of that token
on that node, on a connection the server bound to that shard whenever the pool holds one (ring tables; hypotheses as
in `session_first_attempt_owns_token`, the request being the one with `confirmedLwt = false`). -/
theorem batch_first_attempt_owns_token (rc : RCluster) (cfg : Config) (p : PreparedM) (rest : List BatchStmtM)
    (values : List PartitionKey.RawValue) (ex : ExecM) (ρp : RhoPick) (ρf : RhoFb) (draw : Nat)
    (wire : List Nat) (comps : List (List UInt8)) (hpk : p.pk = PartitionKey.pkIndexesOfWire wire)
    (hne : wire ≠ []) (hnd : wire.Nodup) (hlt : ∀ ix ∈ wire, ix < values.length) (hv : values.length ≤ 65535)
    (hbound : C03.keyOf wire values = comps.map some) (hsmall : 2 ≤ comps.length → ∀ c ∈ comps, c.length ≤ 65535)
    (r : RRequest)
    (hr : r = ⟨⟨ex.consistency, some (serverToken p.cdc comps), p.table.map (·.1), false, ex.pref⟩,
      (p.table.map (·.2)).getD 0⟩)
    (hwf : WF (rc.toCluster r.rq.token)) (haware : tokenAware (rc.toCluster r.rq.token) cfg r.rq = true)
    (hring : tabletsOf rc r = none)
    (pools : Nat → Refiller)
    (hreach : ∀ id, ∃ size evts, (∀ c q, PoolEvt.ready c q ∈ evts → NrU16 c) ∧ (Refiller.init size).run evts = some (pools id))
    (hnode : ∀ id, rc.sharder id = nodeSharder (pools id).shared) :
    let tok := serverToken p.cdc comps
    let first := batchFirstAttempt rc cfg (.prepared p :: rest) (some values) ex ρp ρf draw
    let owned := fun (a : Attempt) =>
      ∀ s, rc.sharder a.node.id = some s → s.msb.toNat < 64 →
        a.shard = Sharding.shardOfSpec s.nr s.msb.toNat tok ∧
        ∃ b, (pools a.node.id).shared = some (.sharded s b) ∧ ∀ ρ : PoolRho,
          ∃ c, connectionForShard (.sharded s b) a.shard ρ = some c ∧
            (∀ bucket, b[a.shard]? = some bucket → bucket ≠ [] → shardIdOf c = a.shard)
    (∀ d, (preference cfg r.rq).datacenter = some d → liveReplicaTargets rc cfg r (.dc d) ≠ [] →
      ∃ a, first = some a ∧ (a.node, some a.shard) ∈ liveReplicaTargets rc cfg r (.dc d) ∧ owned a) ∧
    (((preference cfg r.rq).datacenter = none ∨ cfg.failover = true) → liveReplicaTargets rc cfg r .any ≠ [] →
      ∃ a, first = some a ∧ owned a ∧
        ((a.node, some a.shard) ∈ liveReplicaTargets rc cfg r .any ∨
          ∃ d, (preference cfg r.rq).datacenter = some d ∧ (a.node, some a.shard) ∈ liveReplicaTargets rc cfg r (.dc d))) := by
  intro tok first owned
  have hf : first = sessionFirstAttempt rc cfg { p with lwt := false } values ex ρp ρf draw := by
    show batchFirstAttempt rc cfg (.prepared p :: rest) (some values) ex ρp ρf draw = _
    unfold batchFirstAttempt sessionFirstAttempt batchRoutingInfo sessionRoutingInfo
    simp only [List.head?_cons]
  rw [hf]
  exact session_first_attempt_owns_token rc cfg { p with lwt := false } values ex ρp ρf draw wire comps hpk hne hnd
    hlt hv hbound hsmall r hr hwf haware hring pools hreach hnode

open ScyllaVerif.Props.C05 in
/-- **Tablet tables through the Session glue** (`Session::execute`; the pager's literals are the same function): for a
prepared statement with all key components bound on a table the tablet map knows (`tabletsOf rc r = some xs`), the
routing info carries the statement's table spec, so the request is routed by the TABLET map and not by the ring: with
`V dc` = the replicas of the tablet covering the servers' token of the key (all, or those of datacenter `dc`), for
every cluster, configuration, refiller history and ALL random choices the first attempt goes to a live replica OF THAT
TABLET (a preferred-datacenter one when one is live) carrying the shard the TABLET names for it, on a connection the
server bound to that shard whenever the node's pool holds one. (A statement whose routing info lost its table would have
`tabletsOf = none` and be routed by the ring replicas: that is the difference this theorem pins.) -/
theorem session_first_attempt_tablet (rc : RCluster) (cfg : Config) (p : PreparedM)
    (values : List PartitionKey.RawValue) (ex : ExecM) (ρp : RhoPick) (ρf : RhoFb) (draw : Nat)
    (wire : List Nat) (comps : List (List UInt8)) (hpk : p.pk = PartitionKey.pkIndexesOfWire wire)
    (hne : wire ≠ []) (hnd : wire.Nodup) (hlt : ∀ ix ∈ wire, ix < values.length) (hv : values.length ≤ 65535)
    (hbound : C03.keyOf wire values = comps.map some) (hsmall : 2 ≤ comps.length → ∀ c ∈ comps, c.length ≤ 65535)
    (r : RRequest)
    (hr : r = ⟨⟨ex.consistency, some (serverToken p.cdc comps), p.table.map (·.1), p.lwt, ex.pref⟩,
      (p.table.map (·.2)).getD 0⟩)
    (hwf : WF (rc.toCluster r.rq.token)) (haware : tokenAware (rc.toCluster r.rq.token) cfg r.rq = true)
    (xs : List Tablets.Tablet) (htab : tabletsOf rc r = some xs) :
    let tok := serverToken p.cdc comps
    let first := sessionFirstAttempt rc cfg p values ex ρp ρf draw
    let cl := rc.toCluster (some tok)
    let V := tabletReplicas rc xs tok
    let good := fun (a : Attempt) (L : List Target) =>
      (a.node, some a.shard) ∈ L ∧
      ∀ (size : PoolSize) (evts : List PoolEvt) (rf : Refiller) (pc : PoolConns),
        (Refiller.init size).run evts = some rf → rf.shared = some pc → ConnectionOk pc a.shard
    (∀ d, (preference cfg r.rq).datacenter = some d → liveTargetsT cl V (.dc d) ≠ [] →
      ∃ a, first = some a ∧ good a (liveTargetsT cl V (.dc d))) ∧
    (((preference cfg r.rq).datacenter = none ∨ cfg.failover = true) → liveTargetsT cl V .any ≠ [] →
      ∃ a, first = some a ∧
        (good a (liveTargetsT cl V .any) ∨
          ∃ d, (preference cfg r.rq).datacenter = some d ∧ good a (liveTargetsT cl V (.dc d)))) := by
  intro tok first cl V good
  obtain ⟨_, hfirst, _, _⟩ := session_routing_info_spec p values ex wire comps hpk hne hnd hlt hv hbound hsmall
  have htok : r.rq.token = some tok := by rw [hr]
  have key := route_first_attempt rc cfg r ρp ρf draw hwf haware
  have hf : first = firstAttempt rc (routePlan rc cfg r ρp ρf) draw := by
    show sessionFirstAttempt rc cfg p values ex ρp ρf draw = _
    rw [hfirst rc cfg ρp ρf draw, hr]
  simp only [liveReplicaTargets, htab, htok, Option.getD_some] at key
  rw [hf]
  exact key

open ScyllaVerif.Props.C05 in
/-- **Batches on tablet tables**: a batch whose first statement is prepared on a table the tablet map knows is routed
as `execute(first statement, first row)` with the LWT flag cleared, hence by the tablet covering the FIRST statement's
token: the conclusion of `session_first_attempt_tablet` for `batchFirstAttempt`. -/
theorem batch_first_attempt_tablet (rc : RCluster) (cfg : Config) (p : PreparedM) (rest : List BatchStmtM)
    (values : List PartitionKey.RawValue) (ex : ExecM) (ρp : RhoPick) (ρf : RhoFb) (draw : Nat)
    (wire : List Nat) (comps : List (List UInt8)) (hpk : p.pk = PartitionKey.pkIndexesOfWire wire)
    (hne : wire ≠ []) (hnd : wire.Nodup) (hlt : ∀ ix ∈ wire, ix < values.length) (hv : values.length ≤ 65535)
    (hbound : C03.keyOf wire values = comps.map some) (hsmall : 2 ≤ comps.length → ∀ c ∈ comps, c.length ≤ 65535)
    (r : RRequest)
    (hr : r = ⟨⟨ex.consistency, some (serverToken p.cdc comps), p.table.map (·.1), false, ex.pref⟩,
      (p.table.map (·.2)).getD 0⟩)
    (hwf : WF (rc.toCluster r.rq.token)) (haware : tokenAware (rc.toCluster r.rq.token) cfg r.rq = true)
    (xs : List Tablets.Tablet) (htab : tabletsOf rc r = some xs) :
    let tok := serverToken p.cdc comps
    let first := batchFirstAttempt rc cfg (.prepared p :: rest) (some values) ex ρp ρf draw
    let cl := rc.toCluster (some tok)
    let V := tabletReplicas rc xs tok
    let good := fun (a : Attempt) (L : List Target) =>
      (a.node, some a.shard) ∈ L ∧
      ∀ (size : PoolSize) (evts : List PoolEvt) (rf : Refiller) (pc : PoolConns),
        (Refiller.init size).run evts = some rf → rf.shared = some pc → ConnectionOk pc a.shard
    (∀ d, (preference cfg r.rq).datacenter = some d → liveTargetsT cl V (.dc d) ≠ [] →
      ∃ a, first = some a ∧ good a (liveTargetsT cl V (.dc d))) ∧
    (((preference cfg r.rq).datacenter = none ∨ cfg.failover = true) → liveTargetsT cl V .any ≠ [] →
      ∃ a, first = some a ∧
        (good a (liveTargetsT cl V .any) ∨
          ∃ d, (preference cfg r.rq).datacenter = some d ∧ good a (liveTargetsT cl V (.dc d)))) := by
  intro tok first cl V good
  have hf : first = sessionFirstAttempt rc cfg { p with lwt := false } values ex ρp ρf draw := by
    show batchFirstAttempt rc cfg (.prepared p :: rest) (some values) ex ρp ρf draw = _
    unfold batchFirstAttempt sessionFirstAttempt batchRoutingInfo sessionRoutingInfo
    simp only [List.head?_cons]
  rw [hf]
  exact session_first_attempt_tablet rc cfg { p with lwt := false } values ex ρp ρf draw wire comps hpk hne hnd
    hlt hv hbound hsmall r hr hwf haware xs htab

-- non-vacuity / the difference the two tablet theorems pin: `exTabRq` (table 1 of `exRC`, token 150) is routed by the
-- tablet map - first attempt node 3 on the TABLET's shard 1; the same request with the table spec lost is not in the
-- tablet map (and, its keyspace unknown, not token-aware at all); the ring shard of token 150 on node 3 would be 2
example : tabletsOf exRC exTabRq = some exTablets ∧
    firstAttempt exRC (routePlan exRC C05.exCfg exTabRq C05.ρp1 C05.ρf1) 7 = some ⟨⟨3, some 0, some 3⟩, 1⟩ ∧
    tabletsOf exRC ⟨{ exTabRq.rq with table := none }, 0⟩ = none ∧
    tokenAware (exRC.toCluster (some 150)) C05.exCfg { exTabRq.rq with table := none } = false ∧
    computedShard (exRC.sharder 3) 150 = 2 := by decide

-- a batch whose first statement is NOT prepared, an empty batch, a batch without a first row of values: no token, and
-- (unprepared / empty) no table - the request is not token-aware, any node may get it (definitional; driven by the
-- `e2e route ... api=b bfirst=u` cases, which only demand that the BATCH frames arrive)
example (rest : List BatchStmtM) (vs : Option (List PartitionKey.RawValue)) (ex : ExecM) :
    batchRoutingInfo (.unprepared :: rest) vs ex = .ok ⟨⟨ex.consistency, none, none, false, ex.pref⟩, 0⟩ := rfl
example (vs : Option (List PartitionKey.RawValue)) (ex : ExecM) :
    batchRoutingInfo [] vs ex = .ok ⟨⟨ex.consistency, none, none, false, ex.pref⟩, 0⟩ := rfl
example (p : PreparedM) (rest : List BatchStmtM) (ex : ExecM) :
    (batchRoutingInfo (.prepared p :: rest) none ex).toOption.map (·.rq.token) = some none := rfl

-- non-vacuity of `route_first_attempt_owns_token`: in `exRC` node 3 has 4 shards (msb 0), the others none. A refiller of
-- node 3 that saw two connections (shards 2 and 0 of 4) publishes a pool whose sharder is the node's; an untouched
-- refiller (node 1) publishes nothing - `Node::sharder()` is `None`, as `exRC.sharder 1`.
private def exPool3 : Refiller :=
  ((Refiller.init (.perShard 1)).run [.ready ⟨0, some ⟨2, 4, 0⟩⟩ false, .ready ⟨1, some ⟨0, 4, 0⟩⟩ true]).getD
    (Refiller.init (.perShard 1))
example : nodeSharder exPool3.shared = exRC.sharder 3 ∧ nodeSharder (Refiller.init (.perShard 1)).shared = exRC.sharder 1 ∧
    (exPool3.shared.map (fun p => match p with | .sharded _ b => b.map (·.map (·.id)) | .notSharded l => [l.map (·.id)])) =
      some [[1], [], [0], []] ∧
    -- token 160 is on shard 2 of node 3: the attempt travels on connection 0, which the server bound to shard 2
    ((exPool3.shared.bind (fun p => connectionForShard p (computedShard (exRC.sharder 3) 160) ⟨7, fun k => (k, 1)⟩)).map
      (fun c => (c.id, shardIdOf c))) = some (0, 2) ∧
    Sharding.shardOfSpec 4 0 160 = 2 := by decide
example : NrU16 ⟨0, some ⟨2, 4, 0⟩⟩ ∧ SharderM.Valid ⟨4, 0⟩ :=
  ⟨(by intro i h; cases h; decide), (by unfold SharderM.Valid; decide)⟩

/-! ## 9. The statement's own consistency (`StatementConfig::consistency`; audit round 6, item 3) -/

/-- `RRequest` with another consistency. -/
def withConsistency (c : Consistency) (r : RRequest) : RRequest := { r with rq := { r.rq with consistency := c } }

/-- **The statement's consistency wins - and nothing else of the routing information moves.** For `execute`, the pager
and `batch`: the `RoutingInfo` built under `effectiveExec sc profile` (`statement_config.consistency.unwrap_or(profile
.consistency)`) is the one built under the profile with only its `consistency` replaced by the statement's when set;
token, table, LWT flag, location preference and every error are untouched; with no statement-level consistency the
profile's routing information is reproduced exactly. -/
theorem statement_consistency_overrides (sc : StmtConfigM) (ex : ExecM) :
    (∀ p values, sessionRoutingInfo p values (effectiveExec sc ex) =
      (sessionRoutingInfo p values ex).map (withConsistency (sc.consistency.getD ex.consistency))) ∧
    (∀ p values, pagerRoutingInfo p values (effectiveExec sc ex) =
      (pagerRoutingInfo p values ex).map (withConsistency (sc.consistency.getD ex.consistency))) ∧
    (∀ stmts fv, batchRoutingInfo stmts fv (effectiveExec sc ex) =
      (batchRoutingInfo stmts fv ex).map (withConsistency (sc.consistency.getD ex.consistency))) ∧
    (sc.consistency = none → effectiveExec sc ex = ex) := by
  refine ⟨?_, ?_, ?_, ?_⟩
  · intro p values
    unfold sessionRoutingInfo effectiveExec
    cases PartitionKey.boundCalculateToken p.cdc p.pk values <;> rfl
  · intro p values
    unfold pagerRoutingInfo effectiveExec
    cases PartitionKey.boundCalculateToken p.cdc p.pk values <;> rfl
  · intro stmts fv
    unfold batchRoutingInfo effectiveExec
    cases stmts.head? with
    | none => rfl
    | some s =>
      cases s with
      | unprepared => rfl
      | prepared p =>
        cases fv with
        | none => rfl
        | some values =>
          simp only
          cases PartitionKey.boundCalculateToken p.cdc p.pk values <;> rfl
  · intro h
    unfold effectiveExec
    rw [h]
    rfl

open ScyllaVerif.Props.C05 in
/-- **A serial consistency set on the STATEMENT routes as an LWT** - through `execute`, the pager (all pages) and
`batch` alike: whatever the profile's consistency is and whether or not the PREPARED response carried the LWT mark,
every `RoutingInfo` built under `effectiveExec` carries that serial consistency, `should_route_as_lwt` holds, and so
(C05 `lwt_plan_replicas`) on a RING table, for all random choices, the replica part of the plan is the deterministic
list of live permitted replicas in ring order - the first attempt is the PRIMARY live replica, no shuffling. -/
theorem statement_serial_routes_as_lwt (sc : StmtConfigM) (ex : ExecM)
    (hser : sc.consistency = some .serial ∨ sc.consistency = some .localSerial) (r : RRequest)
    (hr : (∃ p values, sessionRoutingInfo p values (effectiveExec sc ex) = .ok r) ∨
          (∃ p values, pagerRoutingInfo p values (effectiveExec sc ex) = .ok r) ∨
          (∃ stmts fv, batchRoutingInfo stmts fv (effectiveExec sc ex) = .ok r)) :
    sc.consistency = some r.rq.consistency ∧ r.rq.routeAsLwt = true ∧
    ∀ (rc : RCluster) (cfg : Config), WF (rc.toCluster r.rq.token) → tabletsOf rc r = none → ∀ ρp ρf,
      (routePlan rc cfg r ρp ρf).filter (fun t => decide (classOf (rc.toCluster r.rq.token) cfg r.rq t.1 ≤ 2)) =
        uniqueBy (lwtReplicas (rc.toCluster r.rq.token) cfg r.rq) := by
  have hc : sc.consistency = some r.rq.consistency := by
    have hcons : (effectiveExec sc ex).consistency = sc.consistency.getD ex.consistency := rfl
    have key : r.rq.consistency = (effectiveExec sc ex).consistency := by
      rcases hr with ⟨p, values, h⟩ | ⟨p, values, h⟩ | ⟨stmts, fv, h⟩
      · unfold sessionRoutingInfo at h
        cases hb : PartitionKey.boundCalculateToken p.cdc p.pk values with
        | error e => rw [hb] at h; cases h
        | ok tok => rw [hb] at h; cases h; rfl
      · unfold pagerRoutingInfo at h
        cases hb : PartitionKey.boundCalculateToken p.cdc p.pk values with
        | error e => rw [hb] at h; cases h
        | ok tok => rw [hb] at h; cases h; rfl
      · unfold batchRoutingInfo at h
        cases hs : stmts.head? with
        | none => rw [hs] at h; cases h; rfl
        | some s =>
          rw [hs] at h
          cases s with
          | unprepared => cases h; rfl
          | prepared p =>
            cases fv with
            | none => cases h; rfl
            | some values =>
              simp only at h
              cases hb : PartitionKey.boundCalculateToken p.cdc p.pk values with
              | error e => rw [hb] at h; cases h
              | ok tok => rw [hb] at h; cases h; rfl
    rw [key, hcons]
    rcases hser with h | h <;> rw [h] <;> rfl
  have hlwt : r.rq.routeAsLwt = true := by
    unfold Request.routeAsLwt
    rcases hser with h | h
    · have h2 : Consistency.serial = r.rq.consistency := Option.some.inj (h.symm.trans hc)
      rw [← h2]; simp
    · have h2 : Consistency.localSerial = r.rq.consistency := Option.some.inj (h.symm.trans hc)
      rw [← h2]; simp
  refine ⟨hc, hlwt, ?_⟩
  intro rc cfg hwf htab ρp ρf
  rw [(tablet_overrides_ring rc cfg r ρp ρf).2 htab]
  exact lwt_plan_replicas hwf cfg r.rq hlwt ρp ρf

-- non-vacuity: a statement with `set_consistency(Serial)` under a profile at QUORUM - the routing information of
-- `execute`, of the pager and of a batch carries SERIAL and is routed as an LWT although the statement is not a
-- confirmed LWT; without a statement-level consistency the profile's QUORUM stays and the request is not LWT-routed.
example :
    let p : PreparedM := ⟨PartitionKey.pkIndexesOfWire [0], false, some (0, 0), false⟩
    let vals : List PartitionKey.RawValue := [.value [1, 2, 3]]
    let ex : ExecM := ⟨.quorum, .any⟩
    ((sessionRoutingInfo p vals (effectiveExec ⟨some .serial⟩ ex)).toOption.map (fun r => (r.rq.consistency, r.rq.routeAsLwt))) =
      some (.serial, true) ∧
    ((pagerRoutingInfo p vals (effectiveExec ⟨some .serial⟩ ex)).toOption.map (fun r => (r.rq.consistency, r.rq.routeAsLwt))) =
      some (.serial, true) ∧
    ((batchRoutingInfo [.prepared p] (some vals) (effectiveExec ⟨some .localSerial⟩ ex)).toOption.map
      (fun r => (r.rq.consistency, r.rq.routeAsLwt))) = some (.localSerial, true) ∧
    ((sessionRoutingInfo p vals (effectiveExec ⟨none⟩ ex)).toOption.map (fun r => (r.rq.consistency, r.rq.routeAsLwt))) =
      some (.quorum, false) := by decide +kernel

end ScyllaVerif.Props.C12

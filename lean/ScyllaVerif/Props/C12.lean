/-
C12 — token-aware requests are first sent to an owning replica and shard.
A COMPOSITION property: the theorems below are corollaries of C03 (`token_formula`), C04 (`views_agree`, the placement
rules), C05 (`plan_order`, `plan_complete`, `pick_spec`, `classOf_eq`), C11 (`shardOfImpl_eq_spec`, `shardOfImpl_lt`) and
C15 (`lookup_refines`, `dc_restrict`), plus what exists only here: the default policy over a TABLET replica set and the
per-node connection pool (`connection_for_shard`, the refiller's filing of ready connections).
Model: `Model/Routing.lean`.
-/
import ScyllaVerif.Model.Routing
import ScyllaVerif.Proofs.Plan
import ScyllaVerif.Props.C03
import ScyllaVerif.Props.C04
import ScyllaVerif.Props.C05
import ScyllaVerif.Props.C11
import ScyllaVerif.Props.C15

namespace ScyllaVerif.Props.C12
open ScyllaVerif.Ring ScyllaVerif.Replicas ScyllaVerif.Plan ScyllaVerif.Routing
open ScyllaVerif.Proofs.Plan

/-! ## 1. The connection pool -/

/-- What `ShardInfo::new` guarantees about a connection's shard info (C11 `shardinfo_valid`). -/
def ValidConn (c : Conn) : Prop := ∀ i, c.info = some i → i.shard < i.nr

/-- Every connection filed in bucket `i` satisfies `P i`. -/
def Filed (b : List (List Conn)) (P : Nat → Conn → Prop) : Prop :=
  ∀ i bucket, b[i]? = some bucket → ∀ c ∈ bucket, P i c

/-- A published pool is well-filed: one bucket per shard, every connection in bucket `i` was told by the server that it
is on shard `i` of this very sharder, and the pool is not empty; an unsharded pool holds only connections without
shard info. -/
def PoolOk : PoolConns → Prop
  | .notSharded l => l ≠ [] ∧ ∀ c ∈ l, c.info = none
  | .sharded s b => b.length = s.nr ∧ Filed b (fun i c => shardIdOf c = i ∧ sharderOf c = some s) ∧
      ∃ (i : Nat) (bucket : List Conn), b[i]? = some bucket ∧ bucket ≠ []

/-- The refiller's invariant. -/
structure Inv (rf : Refiller) : Prop where
  len : rf.conns.length = (match rf.sharder with | some s => s.nr | none => 1)
  filed : Filed rf.conns (fun i c => shardIdOf c = i ∧ sharderOf c = rf.sharder)
  shared : ∀ p, rf.shared = some p → PoolOk p

private theorem chooseConn_none {v : List Conn} {r : Nat} (h : chooseConn v r = none) : v = [] := by
  unfold chooseConn at h
  cases v with
  | nil => rfl
  | cons a l =>
    simp only [List.isEmpty_cons, Bool.false_eq_true, if_false] at h
    have : r % (a :: l).length < (a :: l).length := Nat.mod_lt _ (by simp)
    rw [List.getElem?_eq_none_iff] at h
    omega

private theorem chooseConn_mem {v : List Conn} {r : Nat} {c : Conn} (h : chooseConn v r = some c) : c ∈ v := by
  unfold chooseConn at h
  split at h
  · cases h
  · exact List.mem_of_getElem? h

private theorem chooseConn_some_of_ne {v : List Conn} (r : Nat) (h : v ≠ []) : ∃ c ∈ v, chooseConn v r = some c := by
  cases hc : chooseConn v r with
  | none => exact absurd (chooseConn_none hc) h
  | some c => exact ⟨c, chooseConn_mem hc, rfl⟩

/-! ### `swap_remove` -/

private theorem swapRemoveAt_length {α : Type} (l : List α) (idx : Nat) (h : l ≠ []) :
    (swapRemoveAt l idx).length = l.length - 1 := by
  unfold swapRemoveAt
  cases hl : l.getLast? with
  | none => exact absurd (List.getLast?_eq_none_iff.mp hl) h
  | some last => simp

/-- Every element other than the removed one is still there. -/
private theorem swapRemoveAt_mem {α : Type} (l : List α) (idx : Nat) (hi : idx < l.length) (x : α) (hx : x ∈ l) :
    x = l[idx] ∨ x ∈ swapRemoveAt l idx := by
  unfold swapRemoveAt
  cases hl : l.getLast? with
  | none =>
    have := List.getLast?_eq_none_iff.mp hl
    subst this; simp at hi
  | some last =>
    simp only []
    obtain ⟨k, hk, rfl⟩ := List.getElem_of_mem hx
    by_cases hki : k = idx
    · subst hki; exact Or.inl rfl
    · right
      have hlast : l[l.length - 1]? = some last := by rw [← List.getLast?_eq_getElem?]; exact hl
      have hlen : ((l.set idx last).dropLast).length = l.length - 1 := by simp
      by_cases hkl : k < l.length - 1
      · -- position k survives
        have : ((l.set idx last).dropLast)[k]? = some l[k] := by
          rw [List.getElem?_dropLast]
          simp only [List.length_set]
          rw [if_pos hkl, List.getElem?_set]
          simp [Ne.symm hki, hk]
        exact List.mem_of_getElem? this
      · -- k is the last position: its element was moved to idx
        have hkeq : k = l.length - 1 := by omega
        have hidx : idx < l.length - 1 := by omega
        have hlk : l[k] = last := by
          have : l[k]? = some last := by rw [hkeq]; exact hlast
          rw [List.getElem?_eq_getElem hk] at this
          exact Option.some.inj this
        have : ((l.set idx last).dropLast)[idx]? = some l[k] := by
          rw [List.getElem?_dropLast]
          simp only [List.length_set]
          rw [if_pos hidx, List.getElem?_set]
          simp [hi, hlk]
        exact List.mem_of_getElem? this

/-! ### `connection_for_shard` -/

/-- The fallback loop finds a connection whenever some shard still to be tried has one - for ALL random draws; what
it returns is a pooled connection. -/
private theorem tryShards_spec (buckets : List (List Conn)) (ρ : Nat → Nat × Nat) :
    ∀ (fuel k : Nat) (toTry : List Nat), toTry.length ≤ fuel →
      (∃ s ∈ toTry, buckets.getD s [] ≠ []) →
      ∃ c s, tryShards buckets ρ fuel k toTry = some c ∧ c ∈ buckets.getD s [] := by
  intro fuel
  induction fuel with
  | zero =>
    intro k toTry hlen ⟨s, hs, _⟩
    have : toTry = [] := List.eq_nil_of_length_eq_zero (by omega)
    subst this; simp at hs
  | succ fuel ih =>
    intro k toTry hlen ⟨s, hs, hne⟩
    have hnn : toTry ≠ [] := by intro h; subst h; simp at hs
    have hpos : 0 < toTry.length := List.length_pos_iff.mpr hnn
    simp only [tryShards]
    rw [if_neg (by simpa using hnn)]
    have hidx : (ρ k).1 % toTry.length < toTry.length := Nat.mod_lt _ hpos
    cases hc : chooseConn (buckets.getD (toTry.getD ((ρ k).1 % toTry.length) 0) []) (ρ k).2 with
    | some c => exact ⟨c, _, rfl, chooseConn_mem hc⟩
    | none =>
      simp only []
      have hempty := chooseConn_none hc
      apply ih
      · rw [swapRemoveAt_length _ _ hnn]; omega
      · rcases swapRemoveAt_mem toTry _ hidx s hs with h | h
        · exfalso
          apply hne
          rw [h]
          have e : toTry.getD ((ρ k).1 % toTry.length) 0 = toTry[(ρ k).1 % toTry.length] := by
            simp [List.getD_eq_getElem?_getD, hidx]
          rw [e] at hempty
          exact hempty
        · exact ⟨s, h, hne⟩

/-- **`connection_for_shard`, own bucket.** If the bucket of the requested shard holds a connection, the request
travels on a connection OF THAT BUCKET, whatever the random choices. (`shard < 65536`: a `u16`; larger values are
looked up as shard 0.) -/
theorem connection_for_shard_own_bucket (s : SharderM) (b : List (List Conn)) (shard : Nat) (bucket : List Conn)
    (hs : shard < 65536) (hb : b[shard]? = some bucket) (hne : bucket ≠ []) (ρ : PoolRho) :
    ∃ c ∈ bucket, connectionForShard (.sharded s b) shard ρ = some c := by
  obtain ⟨c, hc, he⟩ := chooseConn_some_of_ne ρ.first hne
  refine ⟨c, hc, ?_⟩
  simp only [connectionForShard, hs, if_true, hb, Option.bind_some, he]

/-- **`connection_for_shard` never panics on a published pool and returns a pooled connection** (any requested shard,
in range or not; any random choices): the `.unwrap()` / `unreachable!` of the Rust are unreachable. -/
theorem connection_for_shard_total (p : PoolConns) (hp : PoolOk p) (shard : Nat) (ρ : PoolRho) :
    ∃ c, connectionForShard p shard ρ = some c ∧
      (match p with
       | .notSharded l => c ∈ l
       | .sharded _ b => ∃ (i : Nat) (bucket : List Conn), b[i]? = some bucket ∧ c ∈ bucket) := by
  cases p with
  | notSharded l =>
    obtain ⟨c, hc, he⟩ := chooseConn_some_of_ne ρ.first hp.1
    exact ⟨c, he, hc⟩
  | sharded s b =>
    obtain ⟨hlen, _, i, bucket, hib, hne⟩ := hp
    simp only [connectionForShard]
    cases h1 : (b[if shard < 65536 then shard else 0]?).bind (fun b => chooseConn b ρ.first) with
    | some c =>
      simp only []
      obtain ⟨bk, hbk, hcc⟩ := Option.bind_eq_some_iff.mp h1
      exact ⟨c, rfl, _, bk, hbk, chooseConn_mem hcc⟩
    | none =>
      simp only []
      have hi : i < b.length := by
        rcases Nat.lt_or_ge i b.length with h | h
        · exact h
        · rw [List.getElem?_eq_none_iff.mpr h] at hib; cases hib
      have hgetD : b.getD i [] = bucket := by
        rw [List.getD_eq_getElem?_getD, hib]; rfl
      obtain ⟨c, s', he, hm⟩ := tryShards_spec b ρ.tries s.nr 0 (List.range s.nr) (by simp)
        ⟨i, List.mem_range.mpr (by omega), by rw [hgetD]; exact hne⟩
      refine ⟨c, he, s', b.getD s' [], ?_, hm⟩
      have : s' < b.length := by
        rcases Nat.lt_or_ge s' b.length with h | h
        · exact h
        · rw [List.getD_eq_getElem?_getD, List.getElem?_eq_none_iff.mpr h] at hm; simp at hm
      rw [List.getD_eq_getElem?_getD, List.getElem?_eq_getElem this]; rfl

/-- **The first attempt's connection is bound to the requested shard whenever the pool has one** - in terms of what
the SERVER said: on a well-filed pool the connection returned for shard `shard` reports shard `shard` if the bucket is
non-empty, and is some pooled connection of the node (reporting the bucket it sits in) otherwise. -/
theorem connection_shard (s : SharderM) (b : List (List Conn)) (hp : PoolOk (.sharded s b)) (shard : Nat) (ρ : PoolRho) :
    ∃ c, connectionForShard (.sharded s b) shard ρ = some c ∧ sharderOf c = some s ∧ shardIdOf c < s.nr ∧
      (∀ bucket, shard < 65536 → b[shard]? = some bucket → bucket ≠ [] → shardIdOf c = shard) := by
  obtain ⟨c, he, i, bk, hbk, hc⟩ := connection_for_shard_total _ hp shard ρ
  obtain ⟨hlen, hfiled, _⟩ := hp
  have hci := hfiled i bk hbk c hc
  have hi : i < b.length := by
    rcases Nat.lt_or_ge i b.length with h | h
    · exact h
    · rw [List.getElem?_eq_none_iff.mpr h] at hbk; cases hbk
  refine ⟨c, he, hci.2, by rw [hci.1]; omega, ?_⟩
  intro bucket hs hb hne
  obtain ⟨c', hc', he'⟩ := connection_for_shard_own_bucket s b shard bucket hs hb hne ρ
  rw [he] at he'
  cases he'
  exact (hfiled shard bucket hb c hc').1

/-! ### the refiller files every connection under the shard the server reported -/

private theorem filed_replicate (n : Nat) (P : Nat → Conn → Prop) : Filed (List.replicate n ([] : List Conn)) P := by
  intro i bucket h c hc
  rw [List.getElem?_replicate] at h
  split at h
  · cases h; simp at hc
  · cases h

private theorem inv_maybeReshard {rf : Refiller} (h : Inv rf) (new : Option SharderM) :
    let rf1 := rf.maybeReshard new
    rf1.sharder = new ∧ Inv rf1 := by
  simp only [Refiller.maybeReshard]
  split
  · rename_i he; exact ⟨he, h⟩
  · refine ⟨rfl, ⟨?_, ?_, h.shared⟩⟩
    · exact List.length_replicate
    · exact filed_replicate _ _

private theorem filed_set {b : List (List Conn)} {P : Nat → Conn → Prop} (h : Filed b P) (sid : Nat) (nb : List Conn)
    (hnb : ∀ c ∈ nb, P sid c) : Filed (b.set sid nb) P := by
  intro i bucket hi c hc
  rw [List.getElem?_set] at hi
  split at hi
  · split at hi
    · cases hi; rename_i he _; subst he; exact hnb c hc
    · cases hi
  · exact h i bucket hi c hc

private theorem inv_of {rf rf' : Refiller} (h : Inv rf) (hs : rf'.sharder = rf.sharder) (hc : rf'.conns = rf.conns)
    (hsh : ∀ p, rf'.shared = some p → PoolOk p) : Inv rf' :=
  ⟨by rw [hc, hs]; exact h.len, by rw [hc, hs]; exact h.filed, hsh⟩

private theorem inv_publish {rf : Refiller} (h : Inv rf) : Inv rf.publish := by
  unfold Refiller.publish
  by_cases hemp : rf.isEmpty = true
  · rw [if_pos hemp]
    exact inv_of h rfl rfl (by intro p hp; cases hp)
  · rw [if_neg hemp]
    have hex : ∃ (i : Nat) (bucket : List Conn), rf.conns[i]? = some bucket ∧ bucket ≠ [] := by
      have hnall : ¬ (∀ x ∈ rf.conns, x.isEmpty = true) := by
        intro hall; apply hemp; simp only [Refiller.isEmpty, List.all_eq_true]; exact hall
      obtain ⟨bucket, hb⟩ := Classical.not_forall.mp hnall
      obtain ⟨hb1, hb2⟩ := Classical.not_imp.mp hb
      obtain ⟨i, hi, rfl⟩ := List.getElem_of_mem hb1
      exact ⟨i, _, List.getElem?_eq_getElem hi, by intro hc; rw [hc] at hb2; exact hb2 rfl⟩
    cases hs : rf.sharder with
    | some s =>
      simp only []
      refine @inv_of rf _ h hs.symm rfl ?_
      intro p hp
      cases hp
      have hlen := h.len
      have hfiled := h.filed
      simp only [hs] at hlen hfiled
      exact ⟨hlen, hfiled, hex⟩
    | none =>
      simp only []
      refine @inv_of rf _ h hs.symm rfl ?_
      intro p hp
      cases hp
      have hlen := h.len
      simp only [hs] at hlen
      obtain ⟨i, bucket, hib, hbne⟩ := hex
      have hi0 : i = 0 := by
        rcases Nat.lt_or_ge i rf.conns.length with hlt | hge
        · omega
        · rw [List.getElem?_eq_none_iff.mpr hge] at hib; cases hib
      subst hi0
      have hg : rf.conns.getD 0 [] = bucket := by rw [List.getD_eq_getElem?_getD, hib]; rfl
      rw [hg]
      refine ⟨hbne, ?_⟩
      intro c hc
      have := (h.filed 0 bucket hib c hc).2
      rw [hs] at this
      unfold sharderOf at this
      cases hci : c.info with
      | none => rfl
      | some i => rw [hci] at this; cases this

/-- **`handle_ready_connection` does not index out of bounds** for a connection whose shard info passed
`ShardInfo::new` (shard < nr_shards): the bucket vector was sized by `maybe_reshard` for that very sharder. -/
theorem handleReady_no_panic {rf : Refiller} (h : Inv rf) (c : Conn) (hv : ValidConn c) (requested : Bool) :
    (rf.handleReady c requested).isSome = true := by
  obtain ⟨hsh, hinv⟩ := inv_maybeReshard h (sharderOf c)
  have hlt : shardIdOf c < (rf.maybeReshard (sharderOf c)).conns.length := by
    rw [hinv.len, hsh]
    unfold shardIdOf sharderOf
    cases hci : c.info with
    | none => simp
    | some i => simp only [Option.map_some]; exact hv i hci
  unfold Refiller.handleReady
  simp only []
  rw [List.getElem?_eq_getElem hlt]
  simp only []
  repeat' split
  all_goals rfl

private theorem inv_handleReady {rf rf' : Refiller} (h : Inv rf) (c : Conn) (requested : Bool)
    (he : rf.handleReady c requested = some rf') : Inv rf' := by
  obtain ⟨hsh, hinv⟩ := inv_maybeReshard h (sharderOf c)
  unfold Refiller.handleReady at he
  simp only [] at he
  cases hb : (rf.maybeReshard (sharderOf c)).conns[shardIdOf c]? with
  | none => rw [hb] at he; cases he
  | some bucket =>
    rw [hb] at he
    simp only [] at he
    cases hacc : (rf.maybeReshard (sharderOf c)).canAccept bucket with
    | true =>
      rw [hacc] at he
      simp only [if_true, Option.some.injEq] at he
      subst he
      apply inv_publish
      refine ⟨?_, ?_, hinv.shared⟩
      · show ((rf.maybeReshard (sharderOf c)).conns.set _ _).length = _
        rw [List.length_set]; exact hinv.len
      · show Filed ((rf.maybeReshard (sharderOf c)).conns.set _ _) _
        apply filed_set hinv.filed
        intro x hx
        rcases List.mem_append.mp hx with hx | hx
        · exact hinv.filed _ bucket hb x hx
        · simp only [List.mem_singleton] at hx
          subst hx
          exact ⟨rfl, hsh.symm⟩
    | false =>
      rw [hacc] at he
      simp only [Bool.false_eq_true, if_false] at he
      cases hr : requested with
      | true =>
        rw [hr] at he
        simp only [if_true, Option.some.injEq] at he
        subst he; exact hinv
      | false =>
        rw [hr] at he
        simp only [Bool.false_eq_true, if_false, Option.some.injEq] at he
        subst he
        exact inv_of hinv rfl rfl hinv.shared

private theorem swapRemoveAt_subset {α : Type} (l : List α) (idx : Nat) (x : α) (hx : x ∈ swapRemoveAt l idx) : x ∈ l := by
  unfold swapRemoveAt at hx
  cases hl : l.getLast? with
  | none => rw [hl] at hx; simp at hx
  | some last =>
    rw [hl] at hx
    simp only [] at hx
    have h1 : x ∈ l.set idx last := (List.dropLast_sublist _).subset hx
    rcases List.mem_or_eq_of_mem_set h1 with h | h
    · exact h
    · rw [h]; exact List.mem_of_getLast? hl

private theorem inv_removeConn {rf : Refiller} (h : Inv rf) (c : Conn) : Inv (rf.removeConn c) := by
  unfold Refiller.removeConn
  simp only []
  split
  · rename_i b' hb'
    obtain ⟨bucket, hbk, hrest⟩ := Option.bind_eq_some_iff.mp hb'
    obtain ⟨i, _, rfl⟩ := Option.map_eq_some_iff.mp hrest
    apply inv_publish
    refine ⟨?_, ?_, h.shared⟩
    · show (rf.conns.set _ _).length = _
      rw [List.length_set]; exact h.len
    · show Filed (rf.conns.set _ _) _
      apply filed_set h.filed
      intro x hx
      exact h.filed _ bucket hbk x (swapRemoveAt_subset _ _ _ hx)
  · split
    · exact inv_of h rfl rfl h.shared
    · exact h

/-- The refiller starts well-filed. -/
theorem inv_init (size : PoolSize) : Inv (Refiller.init size) :=
  ⟨rfl, by
    intro i bucket h c hc
    simp only [Refiller.init] at h
    cases i with
    | zero => simp at h; subst h; simp at hc
    | succ i => simp at h, by intro p hp; cases hp⟩

/-- **Pool filing invariant, one turn of the refiller.** -/
theorem pool_filing_step {rf rf' : Refiller} (h : Inv rf) (e : PoolEvt) (he : rf.step e = some rf') : Inv rf' := by
  cases e with
  | ready c requested =>
    simp only [Refiller.step, Option.map_eq_some_iff] at he
    obtain ⟨rf1, h1, rfl⟩ := he
    have := inv_handleReady h c requested h1
    split
    · exact inv_of this rfl rfl this.shared
    · exact this
  | broken c =>
    simp only [Refiller.step, Option.some.injEq] at he
    subst he
    exact inv_removeConn h c

/-- **Pool filing invariant** (`handle_ready_connection` / `remove_connection` / `update_shared_conns`): after ANY
sequence of ready / broken connection events, every connection in bucket `s` of the refiller - and of the pool it
published for `connection_for_shard` - is one the server reported to be on shard `s` of the current sharder; the
published pool is never empty. -/
theorem pool_filing_invariant (size : PoolSize) (evts : List PoolEvt) (rf : Refiller)
    (h : (Refiller.init size).run evts = some rf) : Inv rf := by
  have key : ∀ (evts : List PoolEvt) (r0 : Refiller), Inv r0 → r0.run evts = some rf → Inv rf := by
    intro evts
    induction evts with
    | nil => intro r0 h0 he; simp only [Refiller.run, Option.some.injEq] at he; subst he; exact h0
    | cons e es ih =>
      intro r0 h0 he
      simp only [Refiller.run] at he
      cases hs : r0.step e with
      | none => rw [hs] at he; cases he
      | some r1 => rw [hs] at he; exact ih r1 (pool_filing_step h0 e hs) he
  exact key evts _ (inv_init size) h

/-- ... and the run never panics when every arriving connection carries valid shard info. -/
theorem pool_run_no_panic (size : PoolSize) (evts : List PoolEvt)
    (hv : ∀ c r, PoolEvt.ready c r ∈ evts → ValidConn c) : ((Refiller.init size).run evts).isSome = true := by
  have key : ∀ (evts : List PoolEvt) (r0 : Refiller), Inv r0 → (∀ c r, PoolEvt.ready c r ∈ evts → ValidConn c) →
      (r0.run evts).isSome = true := by
    intro evts
    induction evts with
    | nil => intro r0 _ _; rfl
    | cons e es ih =>
      intro r0 h0 hv
      simp only [Refiller.run]
      have hsome : (r0.step e).isSome = true := by
        cases e with
        | ready c r =>
          simp only [Refiller.step, Option.isSome_map]
          exact handleReady_no_panic h0 c (hv c r List.mem_cons_self) r
        | broken c => rfl
      cases hs : r0.step e with
      | none => rw [hs] at hsome; cases hsome
      | some r1 =>
        simp only []
        exact ih r1 (pool_filing_step h0 e hs) (fun c r hm => hv c r (List.mem_cons_of_mem _ hm))
  exact key evts _ (inv_init size) hv

-- non-vacuity: a 3-shard node; connections arrive on shards 1, 1 (excess for PerShard(1)), 2; the one on shard 1 breaks
private def cA : Conn := ⟨0, some ⟨1, 3, 12⟩⟩
private def cB : Conn := ⟨1, some ⟨1, 3, 12⟩⟩
private def cC : Conn := ⟨2, some ⟨2, 3, 12⟩⟩
example : ((Refiller.init (.perShard 1)).run [.ready cA false, .ready cB false, .ready cC true]).map
    (fun rf => (rf.conns, rf.excess)) = some ([[], [cA], [cC]], [cB]) := by decide
example : (((Refiller.init (.perShard 1)).run [.ready cA false, .ready cB false, .ready cC true, .broken cA]).bind
    (·.shared)).map (fun p => match p with | .sharded _ b => b | .notSharded l => [l]) = some [[], [], [cC]] := by decide
-- requests for shard 2 use cC; requests for shard 0 (empty bucket) or 7 (out of range) fall back to a pooled connection
example : (connectionForShard (.sharded ⟨3, 12⟩ [[], [cA], [cC]]) 2 ⟨5, fun _ => (0, 0)⟩).map (·.id) = some 2 ∧
    (connectionForShard (.sharded ⟨3, 12⟩ [[], [cA], [cC]]) 0 ⟨5, fun k => (k, 3)⟩).map (·.id) = some 0 ∧
    (connectionForShard (.sharded ⟨3, 12⟩ [[], [cA], [cC]]) 7 ⟨5, fun _ => (2, 0)⟩).map (·.id) = some 2 ∧
    (connectionForShard (.sharded ⟨3, 12⟩ [[], [cA], [cC]]) 65538 ⟨0, fun _ => (0, 0)⟩).map (·.id) = some 2 := by decide
example : ValidConn cA := by intro i h; cases h; decide

/-! ## 2. Tables with tablets: the first attempt goes to a live replica of the covering tablet, with the tablet's shard -/

private theorem chooseFilteredT_none {l : List SRep} {pred : SRep → Bool} {i j : Nat}
    (h : chooseFilteredT l pred i j = none) : l.filter pred = [] := by
  unfold chooseFilteredT at h
  split at h
  · rename_i h0
    rw [List.eq_nil_of_length_eq_zero h0]; rfl
  · rename_i h0
    have hlt : i % l.length < l.length := Nat.mod_lt _ (by omega)
    rw [List.getElem?_eq_getElem hlt] at h
    simp only [] at h
    split at h
    · cases h
    · cases hc : l.filter pred with
      | nil => rfl
      | cons a cs =>
        exfalso
        rw [hc] at h
        have : j % (a :: cs).length < (a :: cs).length := Nat.mod_lt _ (by simp)
        rw [List.getElem?_eq_none_iff] at h
        omega

private theorem chooseFilteredT_some {l : List SRep} {pred : SRep → Bool} {i j : Nat} {r : SRep}
    (h : chooseFilteredT l pred i j = some r) : r ∈ l.filter pred := by
  unfold chooseFilteredT at h
  split at h
  · cases h
  · split at h
    · cases h
    · rename_i happy hh
      split at h
      · rename_i hp
        cases h
        exact List.mem_filter.mpr ⟨List.mem_of_getElem? hh, hp⟩
      · exact List.mem_of_getElem? h

/-- A token-aware step of `pick` and the like-numbered replica group of `fallback` fit together (tablet tables): what
the step returns is in the group, and it falls through only when the group is empty - for all random choices. -/
private theorem fit_replicaT (cl : Cluster) (V : Option Nat → List SRep) (crit : Pref) (lwt : Bool) (i j : Nat)
    (shuf : List Nat) :
    Fit ((pickReplicaT cl V crit lwt i j).map retPickedT) (replicaTargetsT cl V crit lwt shuf) := by
  cases lwt with
  | true =>
    simp only [pickReplicaT, replicaTargetsT, if_true]
    have nonany : crit ≠ .any → Fit ((((filteredT cl V crit).head?).map PickedT.computed).map retPickedT)
        ((filteredT cl V crit).map targetT) := by
      intro _
      cases hf : filteredT cl V crit with
      | nil => exact ⟨by simp, fun _ => rfl⟩
      | cons a l =>
        refine ⟨?_, by simp⟩
        intro t ht
        simp only [List.head?_cons, Option.map_some, retPickedT, Option.some.injEq] at ht
        subst ht
        exact List.mem_map.mpr ⟨a, List.mem_cons_self, rfl⟩
    cases crit with
    | any =>
      simp only [pickFirstT]
      cases hv : V none with
      | nil => exact ⟨by simp, fun _ => by simp [filteredT, Pref.datacenter, hv]⟩
      | cons p l =>
        refine ⟨?_, by simp⟩
        intro t ht
        simp only [List.head?_cons, Option.map_some] at ht
        by_cases ha : cl.alive p.1 = true
        · simp only [ha, if_true, retPickedT, Option.some.injEq] at ht
          subst ht
          refine List.mem_map.mpr ⟨p, ?_, rfl⟩
          simp only [filteredT, Pref.datacenter, hv]
          exact List.mem_filter.mpr ⟨List.mem_cons_self, by simp [predT, ha, rackOk]⟩
        · simp only [ha, Bool.false_eq_true, if_false, retPickedT, Option.some.injEq] at ht
          cases ht
    | dc d => exact nonany (by simp)
    | dcRack d r => exact nonany (by simp)
  | false =>
    simp only [pickReplicaT, replicaTargetsT, Bool.false_eq_true, if_false]
    refine ⟨?_, ?_⟩
    · intro t ht
      cases hc : chooseFilteredT (V crit.datacenter) (predT cl crit) i j with
      | none => rw [hc] at ht; cases ht
      | some r =>
        rw [hc] at ht
        simp only [Option.map_some, retPickedT, Option.some.injEq] at ht
        subst ht
        have hr : r ∈ filteredT cl V crit := chooseFilteredT_some hc
        exact List.mem_map.mpr ⟨r, (shuffleWith_perm shuf _).mem_iff.mpr hr, rfl⟩
    · intro hn
      cases hc : chooseFilteredT (V crit.datacenter) (predT cl crit) i j with
      | some r => rw [hc] at hn; cases hn
      | none =>
        have : filteredT cl V crit = [] := chooseFilteredT_none hc
        rw [this]
        have := (shuffleWith_perm shuf ([] : List SRep)).eq_nil
        rw [this]; rfl

/-- Only the unrestricted LWT step can answer "compute it in `fallback`". -/
private theorem step_ne_some_none (cl : Cluster) (V : Option Nat → List SRep) (crit : Pref) (lwt : Bool) (i j : Nat)
    (hc : crit ≠ .any) : (pickReplicaT cl V crit lwt i j).map retPickedT ≠ some none := by
  intro h
  obtain ⟨p, hp, hr⟩ := Option.map_eq_some_iff.mp h
  cases p with
  | computed r => cases hr
  | toBeComputedInFallback =>
    unfold pickReplicaT at hp
    cases lwt with
    | true =>
      simp only [if_true] at hp
      cases crit with
      | any => exact hc rfl
      | dc d => simp only [pickFirstT] at hp; obtain ⟨_, _, h2⟩ := Option.map_eq_some_iff.mp hp; cases h2
      | dcRack d r => simp only [pickFirstT] at hp; obtain ⟨_, _, h2⟩ := Option.map_eq_some_iff.mp hp; cases h2
    | false =>
      simp only [Bool.false_eq_true, if_false] at hp
      obtain ⟨_, _, h2⟩ := Option.map_eq_some_iff.mp hp
      cases h2

private theorem uniqueBy_head (l : List Target) : (uniqueBy l).head? = l.head? := by
  cases l with
  | nil => rfl
  | cons a l => simp [uniqueBy, uniqueByFrom]

private theorem planOf_head (pk : Option Target) (fb : List Target) :
    (planOf pk fb).head? = (match pk with | some t => some t | none => fb.head?) := by
  cases pk with
  | some t => rfl
  | none => cases fb <;> rfl

/-- Three steps that fit three groups, the first two never answering "compute in fallback": when some group is
non-empty the plan starts with a member of the FIRST non-empty group. -/
private theorem head_of_three {s1 s2 s3 : Option (Option Target)} {g1 g2 g3 : List Target}
    (restS : List (Option (Option Target))) (restG : List (List Target))
    (f1 : Fit s1 g1) (f2 : Fit s2 g2) (f3 : Fit s3 g3) (n1 : s1 ≠ some none) (n2 : s2 ≠ some none)
    (hne : g1 ++ g2 ++ g3 ≠ []) :
    ∃ t, (planOf ((firstReturn ([s1, s2, s3] ++ restS)).getD none) (uniqueBy (([g1, g2, g3] ++ restG).flatten))).head?
        = some t ∧
      (g1 ≠ [] → t ∈ g1) ∧ (g1 = [] → g2 ≠ [] → t ∈ g2) ∧ (g1 = [] → g2 = [] → t ∈ g3) := by
  rw [planOf_head, uniqueBy_head]
  cases s1 with
  | some r1 =>
    cases r1 with
    | none => exact absurd rfl n1
    | some t =>
      have ht := f1.1 t rfl
      have hg : g1 ≠ [] := by intro h; rw [h] at ht; cases ht
      exact ⟨t, rfl, fun _ => ht, fun h => absurd h hg, fun h => absurd h hg⟩
  | none =>
    have hg1 : g1 = [] := f1.2 rfl
    subst hg1
    cases s2 with
    | some r2 =>
      cases r2 with
      | none => exact absurd rfl n2
      | some t =>
        have ht := f2.1 t rfl
        have hg : g2 ≠ [] := by intro h; rw [h] at ht; cases ht
        exact ⟨t, rfl, fun h => absurd rfl h, fun _ _ => ht, fun _ h => absurd h hg⟩
    | none =>
      have hg2 : g2 = [] := f2.2 rfl
      subst hg2
      have hg3 : g3 ≠ [] := by simpa using hne
      cases s3 with
      | some r3 =>
        cases r3 with
        | some t =>
          exact ⟨t, rfl, fun h => absurd rfl h, fun _ h => absurd rfl h, fun _ _ => f3.1 t rfl⟩
        | none =>
          cases g3 with
          | nil => exact absurd rfl hg3
          | cons a l =>
            exact ⟨a, by simp [firstReturn], fun h => absurd rfl h, fun _ h => absurd rfl h, fun _ _ => List.mem_cons_self⟩
      | none => exact absurd (f3.2 rfl) hg3

/-- The live replicas of the token under a location criterion, as targets: `(node, Some(the replica's own shard))`. -/
def liveTargetsT (cl : Cluster) (V : Option Nat → List SRep) (crit : Pref) : List Target :=
  (filteredT cl V crit).map targetT

private theorem mem_replicaTargetsT {cl : Cluster} {V : Option Nat → List SRep} {crit : Pref} {lwt : Bool}
    {shuf : List Nat} {t : Target} : t ∈ replicaTargetsT cl V crit lwt shuf ↔ t ∈ liveTargetsT cl V crit := by
  unfold replicaTargetsT liveTargetsT
  cases lwt with
  | true => simp
  | false =>
    simp only [Bool.false_eq_true, if_false, List.mem_map]
    constructor
    · rintro ⟨r, hr, rfl⟩; exact ⟨r, (shuffleWith_perm shuf _).mem_iff.mp hr, rfl⟩
    · rintro ⟨r, hr, rfl⟩; exact ⟨r, (shuffleWith_perm shuf _).mem_iff.mpr hr, rfl⟩

private theorem replicaTargetsT_nil_iff {cl : Cluster} {V : Option Nat → List SRep} {crit : Pref} {lwt : Bool}
    {shuf : List Nat} : replicaTargetsT cl V crit lwt shuf = [] ↔ liveTargetsT cl V crit = [] := by
  constructor
  · intro h
    cases hl : liveTargetsT cl V crit with
    | nil => rfl
    | cons a l =>
      have : a ∈ replicaTargetsT cl V crit lwt shuf := mem_replicaTargetsT.mpr (by rw [hl]; exact List.mem_cons_self)
      rw [h] at this; cases this
  · intro h
    cases hl : replicaTargetsT cl V crit lwt shuf with
    | nil => rfl
    | cons a l =>
      have : a ∈ liveTargetsT cl V crit := mem_replicaTargetsT.mp (by rw [hl]; exact List.mem_cons_self)
      rw [h] at this; cases this

/-- **First attempt on a table with tablets** (`V dc` = the replicas of the tablet covering the token, all of them or
those of one datacenter, each with the tablet's shard), for ALL random choices of `pick` and `fallback`, LWT or not:
 * a datacenter `d` is preferred and holds a live replica → the first target is a live replica of `d` (one in the
   preferred rack if that rack holds a live replica), carrying the shard the TABLET names for it;
 * no datacenter is preferred, or failover is permitted, and some replica is live → the first target is a live replica
   with its tablet shard (a local one whenever one is live). -/
theorem first_attempt_is_tablet_replica (cl : Cluster) (cfg : Config) (rq : Request) (V : Option Nat → List SRep)
    (ρp : RhoPick) (ρf : RhoFb) (haware : tokenAware cl cfg rq = true) :
    (∀ d, (preference cfg rq).datacenter = some d → liveTargetsT cl V (.dc d) ≠ [] →
      ∃ t, (planT cl cfg rq V ρp ρf).head? = some t ∧ t ∈ liveTargetsT cl V (.dc d) ∧
        (∀ r, preference cfg rq = .dcRack d r → liveTargetsT cl V (.dcRack d r) ≠ [] →
          t ∈ liveTargetsT cl V (.dcRack d r))) ∧
    (((preference cfg rq).datacenter = none ∨ cfg.failover = true) → liveTargetsT cl V .any ≠ [] →
      ∃ t, (planT cl cfg rq V ρp ρf).head? = some t ∧
        (t ∈ liveTargetsT cl V .any ∨ ∃ d, (preference cfg rq).datacenter = some d ∧ t ∈ liveTargetsT cl V (.dc d))) := by
  -- the rack group is contained in the datacenter group
  have rack_sub : ∀ d r t, t ∈ liveTargetsT cl V (.dcRack d r) → t ∈ liveTargetsT cl V (.dc d) := by
    intro d r t ht
    obtain ⟨x, hx, rfl⟩ := List.mem_map.mp ht
    refine List.mem_map.mpr ⟨x, ?_, rfl⟩
    simp only [filteredT, Pref.datacenter, List.mem_filter, predT, Bool.and_eq_true] at hx ⊢
    exact ⟨hx.1, hx.2.1, by simp [rackOk]⟩
  unfold planT pickT fallbackT
  rw [haware]
  simp only [if_true]
  unfold replicaStepsT replicaGroupsT
  simp only []
  cases hp : preference cfg rq with
  | any =>
    simp only [Pref.datacenter, Option.isNone_none, Bool.true_or, if_true]
    refine ⟨(fun d hd => by cases hd), ?_⟩
    intro _ hlive
    obtain ⟨t, hh, _, _, h3⟩ := head_of_three (s1 := none) (s2 := none) (g1 := []) (g2 := [])
      ((pickSteps cl cfg (rqNoToken rq) ρp).drop 3) ((fallbackGroups cl cfg (rqNoToken rq) ρf).drop 3)
      fit_none fit_none (fit_replicaT cl V .any rq.routeAsLwt ρp.anyI ρp.anyJ ρf.shufAny) (by simp) (by simp)
      (by simpa using (not_congr replicaTargetsT_nil_iff).mpr hlive)
    exact ⟨t, hh, Or.inl (mem_replicaTargetsT.mp (h3 rfl rfl))⟩
  | dc d =>
    simp only [Pref.datacenter, Option.isNone_some, Bool.false_or]
    have key : ∀ g3 s3, Fit s3 g3 → (replicaTargetsT cl V (.dc d) rq.routeAsLwt ρf.shufDc ++ g3 ≠ []) →
        ∃ t, (planOf ((firstReturn ([none, (pickReplicaT cl V (.dc d) rq.routeAsLwt ρp.dcI ρp.dcJ).map retPickedT, s3] ++
            (pickSteps cl cfg (rqNoToken rq) ρp).drop 3)).getD none)
          (uniqueBy (([[], replicaTargetsT cl V (.dc d) rq.routeAsLwt ρf.shufDc, g3] ++
            (fallbackGroups cl cfg (rqNoToken rq) ρf).drop 3).flatten))).head? = some t ∧
          (replicaTargetsT cl V (.dc d) rq.routeAsLwt ρf.shufDc ≠ [] → t ∈ replicaTargetsT cl V (.dc d) rq.routeAsLwt ρf.shufDc) ∧
          (replicaTargetsT cl V (.dc d) rq.routeAsLwt ρf.shufDc = [] → t ∈ g3) := by
      intro g3 s3 f3 hne
      obtain ⟨t, hh, _, h2, h3⟩ := head_of_three (s1 := none) (g1 := []) _ _ fit_none
        (fit_replicaT cl V (.dc d) rq.routeAsLwt ρp.dcI ρp.dcJ ρf.shufDc) f3 (by simp)
        (step_ne_some_none cl V (.dc d) rq.routeAsLwt ρp.dcI ρp.dcJ (by simp)) (by simpa using hne)
      exact ⟨t, hh, fun h => h2 rfl h, fun h => h3 rfl h⟩
    refine ⟨?_, ?_⟩
    · intro d' hd' hlive
      cases hd'
      have hne : replicaTargetsT cl V (.dc d) rq.routeAsLwt ρf.shufDc ≠ [] := (not_congr replicaTargetsT_nil_iff).mpr hlive
      by_cases hfp : failoverPossible cfg rq = true
      · simp only [hfp, if_true]
        obtain ⟨t, hh, h2, _⟩ := key _ _ (fit_replicaT cl V .any rq.routeAsLwt ρp.anyI ρp.anyJ ρf.shufAny)
          (by intro h; exact hne (List.append_eq_nil_iff.mp h).1)
        exact ⟨t, hh, mem_replicaTargetsT.mp (h2 hne), fun r hr => by cases hr⟩
      · simp only [hfp, Bool.false_eq_true, if_false]
        obtain ⟨t, hh, h2, _⟩ := key [] none fit_none (by intro h; exact hne (List.append_eq_nil_iff.mp h).1)
        exact ⟨t, hh, mem_replicaTargetsT.mp (h2 hne), fun r hr => by cases hr⟩
    · intro hperm hlive
      have hfo : cfg.failover = true := by
        rcases hperm with h | h
        · cases h
        · exact h
      have hfp : failoverPossible cfg rq = true := by simp [failoverPossible, hp, Pref.datacenter, hfo]
      simp only [hfp, if_true]
      have hne3 : replicaTargetsT cl V .any rq.routeAsLwt ρf.shufAny ≠ [] := (not_congr replicaTargetsT_nil_iff).mpr hlive
      obtain ⟨t, hh, h2, h3⟩ := key _ _ (fit_replicaT cl V .any rq.routeAsLwt ρp.anyI ρp.anyJ ρf.shufAny)
        (by intro h; exact hne3 (List.append_eq_nil_iff.mp h).2)
      refine ⟨t, hh, ?_⟩
      by_cases hg2 : replicaTargetsT cl V (.dc d) rq.routeAsLwt ρf.shufDc = []
      · exact Or.inl (mem_replicaTargetsT.mp (h3 hg2))
      · exact Or.inr ⟨d, rfl, mem_replicaTargetsT.mp (h2 hg2)⟩
  | dcRack d r =>
    simp only [Pref.datacenter, Option.isNone_some, Bool.false_or]
    have key : ∀ g3 s3, Fit s3 g3 →
        (replicaTargetsT cl V (.dcRack d r) rq.routeAsLwt ρf.shufRack ++ replicaTargetsT cl V (.dc d) rq.routeAsLwt ρf.shufDc ++ g3 ≠ []) →
        ∃ t, (planOf ((firstReturn ([(pickReplicaT cl V (.dcRack d r) rq.routeAsLwt ρp.rackI ρp.rackJ).map retPickedT,
              (pickReplicaT cl V (.dc d) rq.routeAsLwt ρp.dcI ρp.dcJ).map retPickedT, s3] ++
            (pickSteps cl cfg (rqNoToken rq) ρp).drop 3)).getD none)
          (uniqueBy (([replicaTargetsT cl V (.dcRack d r) rq.routeAsLwt ρf.shufRack,
              replicaTargetsT cl V (.dc d) rq.routeAsLwt ρf.shufDc, g3] ++
            (fallbackGroups cl cfg (rqNoToken rq) ρf).drop 3).flatten))).head? = some t ∧
          (replicaTargetsT cl V (.dcRack d r) rq.routeAsLwt ρf.shufRack ≠ [] → t ∈ liveTargetsT cl V (.dcRack d r)) ∧
          (replicaTargetsT cl V (.dcRack d r) rq.routeAsLwt ρf.shufRack = [] →
            replicaTargetsT cl V (.dc d) rq.routeAsLwt ρf.shufDc ≠ [] → t ∈ liveTargetsT cl V (.dc d)) ∧
          (replicaTargetsT cl V (.dcRack d r) rq.routeAsLwt ρf.shufRack = [] →
            replicaTargetsT cl V (.dc d) rq.routeAsLwt ρf.shufDc = [] → t ∈ g3) := by
      intro g3 s3 f3 hne
      obtain ⟨t, hh, h1, h2, h3⟩ := head_of_three _ _
        (fit_replicaT cl V (.dcRack d r) rq.routeAsLwt ρp.rackI ρp.rackJ ρf.shufRack)
        (fit_replicaT cl V (.dc d) rq.routeAsLwt ρp.dcI ρp.dcJ ρf.shufDc) f3
        (step_ne_some_none cl V (.dcRack d r) rq.routeAsLwt ρp.rackI ρp.rackJ (by simp))
        (step_ne_some_none cl V (.dc d) rq.routeAsLwt ρp.dcI ρp.dcJ (by simp)) hne
      exact ⟨t, hh, fun h => mem_replicaTargetsT.mp (h1 h), fun h h' => mem_replicaTargetsT.mp (h2 h h'), h3⟩
    -- a live rack replica is a live datacenter replica, so the dc group is non-empty whenever the rack group is
    have dc_of_rack : replicaTargetsT cl V (.dcRack d r) rq.routeAsLwt ρf.shufRack ≠ [] →
        replicaTargetsT cl V (.dc d) rq.routeAsLwt ρf.shufDc ≠ [] := by
      intro h hc
      cases hl : replicaTargetsT cl V (.dcRack d r) rq.routeAsLwt ρf.shufRack with
      | nil => exact h hl
      | cons a l =>
        have ha : a ∈ liveTargetsT cl V (.dc d) :=
          rack_sub d r a (mem_replicaTargetsT.mp (by rw [hl]; exact List.mem_cons_self))
        have : a ∈ replicaTargetsT cl V (.dc d) rq.routeAsLwt ρf.shufDc := mem_replicaTargetsT.mpr ha
        rw [hc] at this; cases this
    refine ⟨?_, ?_⟩
    · intro d' hd' hlive
      cases hd'
      have hne : replicaTargetsT cl V (.dc d) rq.routeAsLwt ρf.shufDc ≠ [] := (not_congr replicaTargetsT_nil_iff).mpr hlive
      have concl : ∀ g3 s3, Fit s3 g3 → ∃ t, (planOf ((firstReturn ([(pickReplicaT cl V (.dcRack d r) rq.routeAsLwt ρp.rackI ρp.rackJ).map retPickedT,
              (pickReplicaT cl V (.dc d) rq.routeAsLwt ρp.dcI ρp.dcJ).map retPickedT, s3] ++
            (pickSteps cl cfg (rqNoToken rq) ρp).drop 3)).getD none)
          (uniqueBy (([replicaTargetsT cl V (.dcRack d r) rq.routeAsLwt ρf.shufRack,
              replicaTargetsT cl V (.dc d) rq.routeAsLwt ρf.shufDc, g3] ++
            (fallbackGroups cl cfg (rqNoToken rq) ρf).drop 3).flatten))).head? = some t ∧ t ∈ liveTargetsT cl V (.dc d) ∧
          (∀ r', Pref.dcRack d r = .dcRack d r' → liveTargetsT cl V (.dcRack d r') ≠ [] → t ∈ liveTargetsT cl V (.dcRack d r')) := by
        intro g3 s3 f3
        obtain ⟨t, hh, h1, h2, _⟩ := key g3 s3 f3 (by
          intro h
          exact hne (List.append_eq_nil_iff.mp (List.append_eq_nil_iff.mp h).1).2)
        refine ⟨t, hh, ?_, ?_⟩
        · by_cases hg1 : replicaTargetsT cl V (.dcRack d r) rq.routeAsLwt ρf.shufRack = []
          · exact h2 hg1 hne
          · exact rack_sub d r t (h1 hg1)
        · intro r' hr' hlr
          cases hr'
          exact h1 ((not_congr replicaTargetsT_nil_iff).mpr hlr)
      by_cases hfp : failoverPossible cfg rq = true
      · simp only [hfp, if_true]
        exact concl _ _ (fit_replicaT cl V .any rq.routeAsLwt ρp.anyI ρp.anyJ ρf.shufAny)
      · simp only [hfp, Bool.false_eq_true, if_false]
        exact concl [] none fit_none
    · intro hperm hlive
      have hfo : cfg.failover = true := by
        rcases hperm with h | h
        · cases h
        · exact h
      have hfp : failoverPossible cfg rq = true := by simp [failoverPossible, hp, Pref.datacenter, hfo]
      simp only [hfp, if_true]
      have hne3 : replicaTargetsT cl V .any rq.routeAsLwt ρf.shufAny ≠ [] := (not_congr replicaTargetsT_nil_iff).mpr hlive
      obtain ⟨t, hh, h1, h2, h3⟩ := key _ _ (fit_replicaT cl V .any rq.routeAsLwt ρp.anyI ρp.anyJ ρf.shufAny)
        (by intro h; exact hne3 (List.append_eq_nil_iff.mp h).2)
      refine ⟨t, hh, ?_⟩
      by_cases hg1 : replicaTargetsT cl V (.dcRack d r) rq.routeAsLwt ρf.shufRack = []
      · by_cases hg2 : replicaTargetsT cl V (.dc d) rq.routeAsLwt ρf.shufDc = []
        · exact Or.inl (mem_replicaTargetsT.mp (h3 hg1 hg2))
        · exact Or.inr ⟨d, rfl, h2 hg1 hg2⟩
      · exact Or.inr ⟨d, rfl, rack_sub d r t (h1 hg1)⟩

end ScyllaVerif.Props.C12

/-
C17 — link to C08: the raw row iterator behind the pager (`RawRowLendingIterator`) cannot recover within a page.
`Props/C17.lean` proves the typed stream equal to its specification under `stickyRaws` (once a row of a page is
unreadable, every later announced row of that page is); this file DERIVES that hypothesis from C08's theorems about
the model of the iterator (`Model/Response.lean`): `lending_iterator_is_plain_iterator` (the lending iterator yields
the items of `RawRowIterator`, never panics) and `iterRows_after_error` (the error tail).
-/
import ScyllaVerif.Props.C08
import ScyllaVerif.Props.C17

namespace ScyllaVerif.Props.C17Raw
open ScyllaVerif.Cql ScyllaVerif.Carrier ScyllaVerif.C08

/-- Readability flags of the raw items of a page. -/
def rawFlags (items : List (Except (Nat × String) (List (Option Bytes)))) : List Bool :=
  items.map (fun i => match i with
    | .ok _ => true
    | .error _ => false)

theorem iterRows_sticky (ncols : Nat) : ∀ (n : Nat) (buf : Bytes), stickyRaws (rawFlags (iterRows ncols n buf)) = true
  | 0, _ => rfl
  | n + 1, buf => by
    cases h : readCells ncols 0 buf with
    | ok p =>
      obtain ⟨cells, b⟩ := p
      unfold iterRows
      simp only [h, rawFlags, List.map_cons, stickyRaws]
      exact iterRows_sticky ncols n b
    | error e =>
      obtain ⟨c, k⟩ := e
      rw [ScyllaVerif.Props.C08.iterRows_after_error ncols c k n buf h]
      simp [rawFlags, stickyRaws]

/-- **The pages the pager hands to the typed stream are sticky**: for all page bytes, column counts and announced
row counts the lending iterator yields items whose readability flags satisfy `stickyRaws` (and it never panics). -/
theorem lending_rows_sticky (ncols : Nat) (raw : Bytes) (hraw : raw.length ≤ USIZE_MAX) (n : Nat) :
    ∃ items, lendRows ncols n 0 raw = .ok items ∧ stickyRaws (rawFlags items) = true :=
  ⟨iterRows ncols n raw, ScyllaVerif.Props.C08.lending_iterator_is_plain_iterator ncols raw hraw n,
    iterRows_sticky ncols n raw⟩

/-- The composed statement: for pages whose raw items are those of the row iterator (`iterRows`, which the lending
iterator yields by `lending_rows_sticky`), after a raw-row error on a
page — fresh or not — no row of that page is ever decoded, and every yielded row belongs to a page that passed its
own check (`typed_stream_is_spec` applies). -/
theorem stream_over_lending_pages (check : List (String × CqlTy) → Bool)
    (pages : List (List (String × CqlTy) × Nat × Nat × Bytes))   -- (specs, ncols, announced rows, page bytes)
    (outs : List StreamOut)
    (h : typedStream check (pages.map fun p => ⟨p.1, rawFlags (iterRows p.2.1 p.2.2.1 p.2.2.2)⟩) = some outs) :
    outs = streamSpec check 0 (pages.map fun p => ⟨p.1, rawFlags (iterRows p.2.1 p.2.2.1 p.2.2.2)⟩) := by
  apply ScyllaVerif.Props.C17.typed_stream_is_spec check _ outs _ h
  intro p hp
  obtain ⟨q, _, rfl⟩ := List.mem_map.mp hp
  exact iterRows_sticky _ _ _

end ScyllaVerif.Props.C17Raw

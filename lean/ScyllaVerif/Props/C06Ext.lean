/-
C06, extensions: (1) the FRAME-level form of the non-idempotent clause (re-sends inside one attempt: EXECUTE after
UNPREPARED, the BATCH re-prepare loop), (2) the client-side request timeout, (3) which clauses hold for an arbitrary
(user-defined) retry policy, under which contract.
Models: `Model/RetryFrames.lean` on top of `Model/Exec.lean` / `Model/Retry.lean`.
-/
import ScyllaVerif.Model.RetryFrames
import ScyllaVerif.Props.C06

namespace ScyllaVerif.Props.C06Ext
open ScyllaVerif.Retry ScyllaVerif.Exec ScyllaVerif.RetryFrames ScyllaVerif.Props.C06

/-! ### (3) arbitrary retry policies: the clauses of the property as CONTRACTS on the policy

For every `P : PolicyFn σ` (any `RetryPolicy` implementation) `Props/C06.lean` proves, without hypothesis on `P`:
`sends_exactly_decided_any_policy` (given the loop ends), `one_decision_per_failed_attempt`,
`decisions_are_policy_replay_any_policy`, `attempt_follows_decision`, `retry_same_stays_on_connected_target`,
`never_after_success`, `first_attempt_consistency`, `attempts_on_connected_targets`, `one_session`,
`result_is_about_last_attempt`, `decided_attempts_failed`, `fiber_steps_refine_exec`.
The three clauses that are about WHAT the policy answers need a hypothesis on it; they are stated here with the
weakest natural one (the built-in policies satisfy them: `decide_nonidempotent_retry_only_after_proof`,
`budget_nonincreasing`, `budget_consumed_by_retrySame`).  Without it they are false (non-vacuity example below). -/

private theorem isRetry_of_same {d : Decision} {c} (h : d = .retrySame c) : d.isRetry = true := by subst h; rfl
private theorem isRetry_of_next {d : Decision} {c} (h : d = .retryNext c) : d.isRetry = true := by subst h; rfl
private theorem isRetrySame_of_same {d : Decision} {c} (h : d = .retrySame c) : d.isRetrySame = true := by
  subst h; rfl

private theorem exec_nonidem_contract {σ : Type} (P : PolicyFn σ) (outcomes : Nat → Outcome)
    (hP : ∀ s e cl, (P.decide s ⟨e, false, cl⟩).2.isRetry = true → proofOfNonApplication e = true)
    (fuel : Nat) (plan : List Target) (t : Nat) (loc : Loc σ) (i : Nat)
    (hi : i + 1 < (exec P false outcomes fuel plan t loc).attempts.length) :
    ∃ e, outcomes (loc.k + i) = .fail e ∧ proofOfNonApplication e = true := by
  fun_induction exec P false outcomes fuel plan t loc generalizing i
  case case1 => simp at hi
  case case2 => simp at hi
  case case3 ih => exact ih i hi
  case case4 => simp at hi
  case case5 fuel av rest t loc hav a e hout created r loc' cl hd ih =>
    cases i with
    | zero => exact ⟨e, by simpa using hout, hP _ e loc.cl (isRetry_of_same hd)⟩
    | succ j =>
      have := ih j (by simpa [Trace.push] using hi)
      simpa [loc', Nat.add_assoc, Nat.add_comm 1 j] using this
  case case6 fuel av rest t loc hav a e hout created r loc' cl hd ih =>
    cases i with
    | zero => exact ⟨e, by simpa using hout, hP _ e loc.cl (isRetry_of_next hd)⟩
    | succ j =>
      have := ih j (by simpa [Trace.push] using hi)
      simpa [loc', Nat.add_assoc, Nat.add_comm 1 j] using this
  case case7 => simp at hi
  case case8 => simp at hi

/-- **Any retry policy that never answers "retry" to a non-idempotent request on an error outside the proof set**
gives the property's main clause — whatever else it does (any session state, any plan, any fuel). -/
theorem nonidempotent_clause_for_any_policy {σ : Type} (P : PolicyFn σ)
    (hP : ∀ s e cl, (P.decide s ⟨e, false, cl⟩).2.isRetry = true → proofOfNonApplication e = true)
    (cl0 : Consistency) (plan : List Target) (outcomes : Nat → Outcome) (fuel k : Nat)
    (h : k + 1 < (runWith P false cl0 plan outcomes fuel).attempts.length) :
    ∃ e, outcomes k = .fail e ∧ proofOfNonApplication e = true := by
  have := exec_nonidem_contract P outcomes hP fuel plan 0 (Loc.init cl0) k h
  simpa [Loc.init] using this

private theorem exec_bound_contract {σ : Type} (P : PolicyFn σ) (μ : σ → Nat)
    (hmono : ∀ s ri, μ (P.decide s ri).1 ≤ μ s)
    (hsame : ∀ s ri, (P.decide s ri).2.isRetrySame = true → μ (P.decide s ri).1 + 1 ≤ μ s)
    (idem : Bool) (outcomes : Nat → Outcome) (fuel : Nat) (plan : List Target) (t : Nat) (loc : Loc σ) :
    (exec P idem outcomes fuel plan t loc).attempts.length ≤ plan.length + μ (loc.sess.getD P.init) ∧
    (plan.length + μ (loc.sess.getD P.init) < fuel → (exec P idem outcomes fuel plan t loc).final ≠ .outOfFuel) := by
  fun_induction exec P idem outcomes fuel plan t loc
  case case1 => simp
  case case2 => simp
  case case3 ih =>
    simp only [List.length_cons] at ih ⊢
    exact ⟨by omega, fun h => ih.2 (by omega)⟩
  case case4 => simp only [List.length_cons, List.length_nil]; exact ⟨by omega, by simp⟩
  case case5 fuel av rest t loc hav a e hout created r loc' cl hd ih =>
    have h2 := hsame (loc.sess.getD P.init) ⟨e, idem, loc.cl⟩ (isRetrySame_of_same hd)
    simp only [Trace.push, List.length_cons, loc', Option.getD_some, r] at ih h2 ⊢
    exact ⟨by omega, fun h => ih.2 (by omega)⟩
  case case6 fuel av rest t loc hav a e hout created r loc' cl hd ih =>
    have h1 := hmono (loc.sess.getD P.init) ⟨e, idem, loc.cl⟩
    simp only [Trace.push, List.length_cons, loc', Option.getD_some, r] at ih h1 ⊢
    exact ⟨by omega, fun h => ih.2 (by omega)⟩
  case case7 => simp only [List.length_cons, List.length_nil]; exact ⟨by omega, by simp⟩
  case case8 => simp only [List.length_cons, List.length_nil]; exact ⟨by omega, by simp⟩

/-- **Any retry policy with a same-node retry budget** (a measure `μ` of its session state that never grows and
that every `RetrySameTarget` decision consumes) sends at most `plan length + μ(new session)` attempts, and the
driver's loop terminates with it. -/
theorem attempts_bounded_for_any_policy {σ : Type} (P : PolicyFn σ) (μ : σ → Nat)
    (hmono : ∀ s ri, μ (P.decide s ri).1 ≤ μ s)
    (hsame : ∀ s ri, (P.decide s ri).2.isRetrySame = true → μ (P.decide s ri).1 + 1 ≤ μ s)
    (idem : Bool) (cl0 : Consistency) (plan : List Target) (outcomes : Nat → Outcome) (fuel : Nat) :
    (runWith P idem cl0 plan outcomes fuel).attempts.length ≤ plan.length + μ P.init ∧
    (plan.length + μ P.init < fuel → (runWith P idem cl0 plan outcomes fuel).final ≠ .outOfFuel) := by
  simpa [Loc.init, runWith] using
    exec_bound_contract P μ hmono hsame idem outcomes fuel plan 0 (Loc.init cl0)

-- without the contract the clause is false: a policy that retries everything re-sends a non-idempotent request
-- after a broken connection
example :
    (runWith (⟨(), fun _ _ => ((), .retryNext none)⟩ : PolicyFn Unit) false .quorum [.always, .always]
      (script [.fail .brokenConnection]) 5).attempts.length = 2 := by decide

/-! ### (1) frame level: re-sends inside one attempt -/

/-- answers of a frame list whose statement frames are all answered UNPREPARED -/
private def allUnprepared (l : List Outcome) : Prop := ∀ x ∈ l, isUnprepared x = true

private theorem frameProof_of_unprepared {x : Outcome} (h : isUnprepared x = true) : frameProof x = true := by
  cases x with
  | ok => simp [isUnprepared] at h
  | fail e => simp [frameProof, h]

private theorem stmtAnswers_append (a b : List Frame) :
    stmtAnswers (a ++ b) = stmtAnswers a ++ stmtAnswers b := by
  induction a with
  | nil => rfl
  | cons f fs ih => cases f <;> simp [stmtAnswers, ih]

private theorem stmtAnswers_prepareBatch (a : Answers) (n j : Nat) :
    stmtAnswers (prepareBatch a n j).1 = [] := by
  induction n generalizing j with
  | zero => rfl
  | succ m ih =>
    simp only [prepareBatch]
    split <;> simp [stmtAnswers, ih]

/-- The shape of one attempt's statement-frame answers: a run of UNPREPARED answers followed by at most one final
answer; when the attempt returns, the final answer is what it returns, unless it returns the failure of a
re-prepare (or `RepreparedIdMissingInBatch`), in which case the last statement frame was answered UNPREPARED. -/
private theorem batchLoop_shape (a : Answers) (pre rounds j : Nat) :
    ∃ us : List Outcome, allUnprepared us ∧
      ((batchLoop a pre rounds j).outcome = none ∧ stmtAnswers (batchLoop a pre rounds j).frames = us ∨
       ∃ o, (batchLoop a pre rounds j).outcome = some o ∧
         (stmtAnswers (batchLoop a pre rounds j).frames = us ++ [o] ∧ isUnprepared o = false ∨
          stmtAnswers (batchLoop a pre rounds j).frames = us ∧ us ≠ [])) := by
  induction rounds generalizing j with
  | zero => exact ⟨[], by simp [allUnprepared], Or.inl ⟨rfl, rfl⟩⟩
  | succ r ih =>
    simp only [batchLoop]
    split
    · rename_i hu
      split
      · split
        · obtain ⟨us, h1, h2⟩ := ih (j + 1)
          refine ⟨a.stmt j :: us, ?_, ?_⟩
          · intro x hx; rcases List.mem_cons.mp hx with h | h
            · rw [h]; exact hu
            · exact h1 x h
          · rcases h2 with ⟨q1, q2⟩ | ⟨o, q1, q2⟩
            · exact Or.inl ⟨by simpa [AttemptFrames.push] using q1,
                by simp [AttemptFrames.push, stmtAnswers, q2]⟩
            · refine Or.inr ⟨o, by simpa [AttemptFrames.push] using q1, ?_⟩
              rcases q2 with ⟨q2, q3⟩ | ⟨q2, q3⟩
              · exact Or.inl ⟨by simp [AttemptFrames.push, stmtAnswers, q2], q3⟩
              · exact Or.inr ⟨by simp [AttemptFrames.push, stmtAnswers, q2], by simp⟩
        · exact ⟨[a.stmt j], by intro x hx; simp at hx; rw [hx]; exact hu,
            Or.inr ⟨_, rfl, Or.inr ⟨by simp [stmtAnswers], by simp⟩⟩⟩
        · exact ⟨[a.stmt j], by intro x hx; simp at hx; rw [hx]; exact hu,
            Or.inr ⟨_, rfl, Or.inr ⟨by simp [stmtAnswers], by simp⟩⟩⟩
      · exact ⟨[a.stmt j], by intro x hx; simp at hx; rw [hx]; exact hu,
          Or.inr ⟨_, rfl, Or.inr ⟨by simp [stmtAnswers], by simp⟩⟩⟩
    · rename_i hu
      exact ⟨[], by simp [allUnprepared],
        Or.inr ⟨_, rfl, Or.inl ⟨by simp [stmtAnswers], by simpa using hu⟩⟩⟩

private theorem executeArm_shape (a : Answers) (p0 : Nat) :
    ∃ us : List Outcome, allUnprepared us ∧
      ∃ o, (executeArm a p0).outcome = some o ∧
         (stmtAnswers (executeArm a p0).frames = us ++ [o] ∨ stmtAnswers (executeArm a p0).frames = us) := by
  simp only [executeArm]
  split
  · rename_i hu
    have hus : allUnprepared [a.stmt 0] := by intro x hx; simp at hx; rw [hx]; exact hu
    split
    · exact ⟨[a.stmt 0], hus, _, rfl, Or.inl (by simp [stmtAnswers])⟩
    · exact ⟨[a.stmt 0], hus, _, rfl, Or.inr (by simp [stmtAnswers])⟩
    · exact ⟨[a.stmt 0], hus, _, rfl, Or.inr (by simp [stmtAnswers])⟩
  · exact ⟨[], by simp [allUnprepared], _, rfl, Or.inl (by simp [stmtAnswers])⟩

private theorem attempt_shape (kind : StmtKind) (a : Answers) (rounds : Nat) :
    ∃ us : List Outcome, allUnprepared us ∧
      ((attempt kind a rounds).outcome = none ∧ stmtAnswers (attempt kind a rounds).frames = us ∨
       ∃ o, (attempt kind a rounds).outcome = some o ∧
         (stmtAnswers (attempt kind a rounds).frames = us ++ [o] ∨
          stmtAnswers (attempt kind a rounds).frames = us)) := by
  cases kind with
  | query => exact ⟨[], by simp [allUnprepared], Or.inr ⟨_, rfl, Or.inl (by simp [attempt, stmtAnswers])⟩⟩
  | execute =>
    obtain ⟨us, h1, o, h2, h3⟩ := executeArm_shape a 0
    exact ⟨us, h1, Or.inr ⟨o, by simpa [attempt] using h2, by simpa [attempt] using h3⟩⟩
  | queryValues =>
    simp only [attempt]
    split
    · exact ⟨[], by simp [allUnprepared], Or.inr ⟨_, rfl, Or.inr (by simp [stmtAnswers])⟩⟩
    · obtain ⟨us, h1, o, h2, h3⟩ := executeArm_shape a 1
      refine ⟨us, h1, Or.inr ⟨o, by simpa [AttemptFrames.push] using h2, ?_⟩⟩
      rcases h3 with h3 | h3
      · exact Or.inl (by simp [AttemptFrames.push, stmtAnswers_append, stmtAnswers, h3])
      · exact Or.inr (by simp [AttemptFrames.push, stmtAnswers_append, stmtAnswers, h3])
  | batch pre =>
    simp only [attempt]
    split
    · exact ⟨[], by simp [allUnprepared],
        Or.inr ⟨_, rfl, Or.inr (by simp [stmtAnswers_prepareBatch])⟩⟩
    · obtain ⟨us, h1, h2⟩ := batchLoop_shape a pre rounds 0
      refine ⟨us, h1, ?_⟩
      rcases h2 with ⟨q1, q2⟩ | ⟨o, q1, q2⟩
      · exact Or.inl ⟨by simpa [AttemptFrames.push] using q1,
          by simp [AttemptFrames.push, stmtAnswers_append, stmtAnswers_prepareBatch, q2]⟩
      · refine Or.inr ⟨o, by simpa [AttemptFrames.push] using q1, ?_⟩
        rcases q2 with ⟨q2, _⟩ | ⟨q2, _⟩
        · exact Or.inl (by simp [AttemptFrames.push, stmtAnswers_append, stmtAnswers_prepareBatch, q2])
        · exact Or.inr (by simp [AttemptFrames.push, stmtAnswers_append, stmtAnswers_prepareBatch, q2])

/-- "every answer except the very last one proves non-application" -/
def allButLastProof (l : List Outcome) : Prop := ∀ i, (h : i + 1 < l.length) → frameProof (l[i]'(by omega)) = true

/-- **Inside one attempt** a statement frame (EXECUTE / BATCH) is sent again only after the previous one was answered
UNPREPARED — any kind of request, any answers, any number of BATCH rounds. -/
theorem attempt_resends_only_after_unprepared (kind : StmtKind) (a : Answers) (rounds i : Nat)
    (h : i + 1 < (stmtAnswers (attempt kind a rounds).frames).length) :
    isUnprepared ((stmtAnswers (attempt kind a rounds).frames)[i]'(by omega)) = true := by
  obtain ⟨us, h1, h2⟩ := attempt_shape kind a rounds
  rcases h2 with ⟨_, q2⟩ | ⟨o, _, q2 | q2⟩
  · simp only [q2] at h ⊢; exact h1 _ (List.getElem_mem _)
  · simp only [q2] at h ⊢
    have hi : i < us.length := by simpa using h
    rw [List.getElem_append_left hi]; exact h1 _ (List.getElem_mem _)
  · simp only [q2] at h ⊢; exact h1 _ (List.getElem_mem _)

private theorem attempt_allButLast (kind : StmtKind) (a : Answers) (rounds : Nat) :
    allButLastProof (stmtAnswers (attempt kind a rounds).frames) := fun i h =>
  frameProof_of_unprepared (attempt_resends_only_after_unprepared kind a rounds i h)

/-- If the attempt returns an error that proves non-application, EVERY statement frame of it got such an answer. -/
private theorem attempt_all_proof (kind : StmtKind) (a : Answers) (rounds : Nat) (e : Err)
    (ho : (attempt kind a rounds).outcome = some (.fail e)) (he : proofOfNonApplication e = true) :
    ∀ x ∈ stmtAnswers (attempt kind a rounds).frames, frameProof x = true := by
  obtain ⟨us, h1, h2⟩ := attempt_shape kind a rounds
  intro x hx
  rcases h2 with ⟨q1, _⟩ | ⟨o, q1, q2 | q2⟩
  · rw [ho] at q1; cases q1
  · rw [ho] at q1; cases q1
    rw [q2] at hx
    rcases List.mem_append.mp hx with h | h
    · exact frameProof_of_unprepared (h1 x h)
    · simp at h; rw [h]; simp [frameProof, he]
  · rw [q2] at hx; exact frameProof_of_unprepared (h1 x hx)

private theorem flatten_allButLast (ls : List (List Outcome))
    (hinit : ∀ k, (h : k + 1 < ls.length) → ∀ x ∈ ls[k]'(by omega), frameProof x = true)
    (hlast : ∀ l, ls.getLast? = some l → allButLastProof l) : allButLastProof ls.flatten := by
  induction ls with
  | nil => intro i h; simp at h
  | cons l rest ih =>
    cases rest with
    | nil => simpa using hlast l (by simp)
    | cons l2 rest2 =>
      have ih' := ih (fun k h => hinit (k + 1) (by simpa using h))
        (fun l' hl' => hlast l' (by simpa [List.getLast?_cons_cons] using hl'))
      have hl : ∀ x ∈ l, frameProof x = true := hinit 0 (by simp)
      intro i h
      simp only [List.flatten_cons] at h ⊢
      by_cases hi : i < l.length
      · rw [List.getElem_append_left hi]; exact hl _ (List.getElem_mem _)
      · have hi' : l.length ≤ i := by omega
        rw [List.getElem_append_right hi']
        exact ih' (i - l.length) (by simp only [List.length_append, List.flatten_cons] at h ⊢; omega)

/-- **C06 at frame level.**  For a request that is not marked idempotent — QUERY (with or without values), EXECUTE or BATCH, any plan, any
answers of the server to every statement and PREPARE frame, any number of BATCH re-prepare rounds, each of the
three policies — a statement frame is put on the wire again only after the previous statement frame was answered
with something that proves it was not applied: unavailable, bootstrapping, no free stream id, read timeout — or
UNPREPARED (the one answer outside the property's list after which the statement IS sent again: inside the same
attempt, by `execute_raw_with_consistency` / the `batch_with_consistency` loop). -/
theorem nonidempotent_frames_resent_only_after_proof (pol : Policy) (cl0 : Consistency) (plan : List Target)
    (kind : StmtKind) (answers : Nat → Answers) (rounds : Nat) :
    allButLastProof (runWire pol false cl0 plan kind answers rounds).stmtAnswers := by
  simp only [WireTrace.stmtAnswers, runWire, List.map_map]
  apply flatten_allButLast
  · intro k hk x hx
    simp only [List.length_map, List.length_range] at hk
    simp only [List.getElem_map, List.getElem_range, Function.comp] at hx
    obtain ⟨e, he1, he2⟩ := nonidempotent_resend_only_after_proof pol cl0 plan (outcomeOf kind answers rounds) k hk
    have ho : (attempt kind (answers k) rounds).outcome = some (.fail e) := by
      simp only [outcomeOf] at he1
      cases hq : (attempt kind (answers k) rounds).outcome with
      | none => rw [hq] at he1; simp at he1
      | some o => rw [hq] at he1; simp at he1; rw [he1]
    exact attempt_all_proof kind (answers k) rounds e ho he2 x hx
  · intro l hl
    rcases List.getLast?_eq_some_iff.mp hl with ⟨ys, hys⟩
    have : l ∈ (List.range (run pol false cl0 plan (outcomeOf kind answers rounds)).attempts.length).map
        (RetryFrames.stmtAnswers ∘ fun k => (attempt kind (answers k) rounds).frames) := by
      rw [hys]; simp
    obtain ⟨k, _, hk⟩ := List.mem_map.mp this
    rw [← hk]
    exact attempt_allButLast kind (answers k) rounds

/-- The attempt level and the frame level agree when nothing is answered UNPREPARED: one frame per attempt
(the BATCH `prepare_batch` PREPAREs aside), and its answer is the attempt's outcome. -/
theorem one_frame_per_attempt_without_unprepared (kind : StmtKind) (a : Answers) (rounds : Nat)
    (hr : 0 < rounds) (hu : isUnprepared (a.stmt 0) = false)
    (hp : ∀ pre, kind = .batch pre → (prepareBatch a pre 0).2 = none)
    (hq : kind = .queryValues → ∀ e, a.prep 0 ≠ .err e) :
    stmtAnswers (attempt kind a rounds).frames = [a.stmt 0] ∧ (attempt kind a rounds).outcome = some (a.stmt 0) := by
  cases kind with
  | query => simp [attempt, stmtAnswers]
  | execute => simp [attempt, executeArm, hu, stmtAnswers]
  | queryValues =>
    have := hq rfl
    cases hpq : a.prep 0 with
    | err e => rw [hpq] at this; simp at this
    | ok => simp [attempt, hpq, executeArm, hu, AttemptFrames.push, stmtAnswers]
    | idChanged => simp [attempt, hpq, executeArm, hu, AttemptFrames.push, stmtAnswers]
  | batch pre =>
    have := hp pre rfl
    cases rounds with
    | zero => omega
    | succ r =>
      simp [attempt, this, batchLoop, hu, AttemptFrames.push, stmtAnswers_append, stmtAnswers_prepareBatch,
        stmtAnswers]

-- EXECUTE answered UNPREPARED then Unavailable, retried on the next node and answered UNPREPARED then ok:
-- 2 attempts, 4 EXECUTE frames, 2 PREPARE frames; every EXECUTE but the last one got a proving answer
example :
    let unp : Outcome := .fail (.dbError .unprepared)
    let w := runWire .default false .quorum [.always, .always] .execute
      (fun k => ⟨fun j => if j = 0 then unp else if k = 0 then .fail (.dbError (.unavailable 1)) else .ok,
        fun _ => .ok, fun _ => true⟩) 3
    w.trace.attempts.length = 2 ∧ w.stmtAnswers = [unp, .fail (.dbError (.unavailable 1)), unp, .ok] ∧
    w.trace.final = .completed 1 ∧ w.hung = false := by decide

-- BATCH: three UNPREPARED rounds inside ONE attempt (4 BATCH frames), then a write timeout: not re-sent
example :
    let unp : Outcome := .fail (.dbError .unprepared)
    let w := runWire .default false .quorum [.always, .always] (.batch 1)
      (fun _ => ⟨fun j => if j < 3 then unp else .fail (.dbError (.writeTimeout 1 .batch)), fun _ => .ok,
        fun _ => true⟩) 10
    w.trace.attempts.length = 1 ∧ w.stmtAnswers.length = 4 ∧ (w.frames.map List.length) = [8] := by decide

/-! ### (2) the client-side request timeout -/

private theorem startTime_mono (dur : Nat → Nat) {a b : Nat} (h : a ≤ b) : startTime dur a ≤ startTime dur b := by
  induction b with
  | zero => have : a = 0 := by omega
            subst this; exact Nat.le_refl _
  | succ n ih =>
    by_cases hab : a = n + 1
    · subst hab; exact Nat.le_refl _
    · have := ih (by omega); simp only [startTime]; omega

private theorem returnedBy_le (dur : Nat → Nat) (t n : Nat) : returnedBy dur t n ≤ n := by
  induction n with
  | zero => simp [returnedBy]
  | succ m ih => simp only [returnedBy]; split <;> omega

private theorem returnedBy_start (dur : Nat → Nat) (t n : Nat) : startTime dur (returnedBy dur t n) ≤ t := by
  induction n with
  | zero => simp [returnedBy, startTime]
  | succ m ih => simp only [returnedBy]; split <;> assumption

private theorem returnedBy_eq_iff (dur : Nat → Nat) (t n : Nat) :
    returnedBy dur t n = n ↔ startTime dur n ≤ t := by
  constructor
  · intro h; have := returnedBy_start dur t n; rwa [h] at this
  · intro h
    cases n with
    | zero => rfl
    | succ m => simp [returnedBy, h]

section
variable (pol : Policy) (idem : Bool) (cl0 : Consistency) (plan : List Target) (outcomes : Nat → Outcome)
  (dur : Nat → Nat) (t : Nat)

/-- Under a request timeout the attempts made and the decisions taken are a PREFIX of those of the same request
without timeout: the deadline only cuts the history short (the runner does not know about it). -/
theorem timed_is_prefix :
    (runTimed pol idem cl0 plan outcomes dur t).attempts <+: (run pol idem cl0 plan outcomes).attempts ∧
    (runTimed pol idem cl0 plan outcomes dur t).decisions <+: (run pol idem cl0 plan outcomes).decisions := by
  simp only [runTimed]
  split
  · exact ⟨List.prefix_refl _, List.prefix_refl _⟩
  · exact ⟨List.take_prefix _ _, List.take_prefix _ _⟩

/-- **Attempts stop at the deadline**: every attempt made under a timeout `t` was started at a time `≤ t`
(attempt `i` takes `dur i`). -/
theorem attempts_stop_at_deadline (k : Nat)
    (hk : k < (runTimed pol idem cl0 plan outcomes dur t).attempts.length) : startTime dur k ≤ t := by
  simp only [runTimed] at hk
  have hs := returnedBy_start dur t (run pol idem cl0 plan outcomes).attempts.length
  split at hk
  · rename_i hc
    simp only at hk
    rw [hc] at hs
    exact Nat.le_trans (startTime_mono dur (Nat.le_of_lt hk)) hs
  · simp only [List.length_take] at hk
    exact Nat.le_trans (startTime_mono dur (by omega)) hs

/-- The caller gets `RequestTimeout` exactly when the untimed run would still be going at the deadline; otherwise
the timeout changes nothing. -/
theorem timedOut_iff :
    (runTimed pol idem cl0 plan outcomes dur t).final = .timedOut ↔
      t < startTime dur (run pol idem cl0 plan outcomes).attempts.length := by
  simp only [runTimed]
  split
  · rename_i hc
    have := (returnedBy_eq_iff dur t _).mp hc
    constructor
    · intro h; cases h
    · intro h; omega
  · rename_i hc
    have : ¬ startTime dur (run pol idem cl0 plan outcomes).attempts.length ≤ t :=
      fun h => hc ((returnedBy_eq_iff dur t _).mpr h)
    exact ⟨fun _ => by omega, fun _ => rfl⟩

theorem no_timeout_is_run (h : startTime dur (run pol idem cl0 plan outcomes).attempts.length ≤ t) :
    runTimed pol idem cl0 plan outcomes dur t =
      ⟨(run pol idem cl0 plan outcomes).attempts, (run pol idem cl0 plan outcomes).decisions,
        .finished (run pol idem cl0 plan outcomes).final⟩ := by
  simp [runTimed, (returnedBy_eq_iff dur t _).mpr h]

/-- The property's clauses survive the timeout (they are prefix-closed): the attempt bound … -/
theorem timed_attempts_bounded :
    (runTimed pol idem cl0 plan outcomes dur t).attempts.length ≤ plan.length + sameTargetBound pol :=
  Nat.le_trans (timed_is_prefix pol idem cl0 plan outcomes dur t).1.length_le
    (attempts_bounded pol idem cl0 plan outcomes)

end

/-- … and the non-idempotent clause. -/
theorem timed_nonidempotent_resend_only_after_proof (pol : Policy) (cl0 : Consistency) (plan : List Target)
    (outcomes : Nat → Outcome) (dur : Nat → Nat) (t k : Nat)
    (h : k + 1 < (runTimed pol false cl0 plan outcomes dur t).attempts.length) :
    ∃ e, outcomes k = .fail e ∧ proofOfNonApplication e = true :=
  nonidempotent_resend_only_after_proof pol cl0 plan outcomes k
    (Nat.lt_of_lt_of_le h (timed_is_prefix pol false cl0 plan outcomes dur t).1.length_le)

-- three attempts of 40 time units each: a timeout of 100 lets two return and cancels the third in flight;
-- a timeout of 120 lets the whole run finish (an attempt ending exactly at the deadline still returns)
example :
    let os := script [.fail (.dbError .isBootstrapping), .fail (.dbError .isBootstrapping), .fail .brokenConnection]
    (runTimed .default false .quorum [.always, .always, .always] os (fun _ => 40) 100)
      = ⟨[⟨0, .quorum⟩, ⟨1, .quorum⟩, ⟨2, .quorum⟩], [.retryNext none, .retryNext none], .timedOut⟩ ∧
    (runTimed .default false .quorum [.always, .always, .always] os (fun _ => 40) 120).final
      = .finished (.stopped .brokenConnection) ∧
    (runTimed .default false .quorum [.always, .always, .always] os (fun _ => 40) 39).attempts.length = 1 := by
  decide

-- a QUERY WITH values (PREPARE + EXECUTE in every attempt): the per-attempt PREPARE fails with Overloaded - nothing
-- of the statement is sent and a non-idempotent request stops; PREPARE ok, EXECUTE answered UNPREPARED, the
-- re-prepare returns another id: RepreparedIdChanged, not re-sent
example :
    let unp : Outcome := .fail (.dbError .unprepared)
    let w1 := runWire .default false .quorum [.always, .always] .queryValues
      (fun _ => ⟨fun _ => .ok, fun _ => .err (.dbError .overloaded), fun _ => true⟩) 3
    let w2 := runWire .default false .quorum [.always, .always] .queryValues
      (fun _ => ⟨fun _ => unp, fun j => if j = 0 then .ok else .idChanged, fun _ => true⟩) 3
    w1.stmtAnswers = [] ∧ w1.trace.final = .stopped (.dbError .overloaded) ∧ w1.frames.map List.length = [1] ∧
    w2.stmtAnswers = [unp] ∧ w2.trace.final = .stopped .repreparedIdChanged ∧ w2.frames.map List.length = [3] := by
  decide

/-! ### request timeout around several speculative fibers

`tokio::time::timeout` wraps the whole `runner` (`execution.rs:486-502`), speculative fibers included: at the
deadline all fibers are dropped, i.e. the schedule simply ends there.  `attempts_bounded_speculative` holds for
every schedule, hence for every schedule cut at any point: -/
theorem attempts_bounded_speculative_under_timeout (pol : Policy) (idem : Bool) (cl0 : Consistency)
    (plan : List Target) (outcomes : Nat → Nat → Outcome) (nFibers : Nat) (sched : List Nat) (cut : Nat) :
    totalAttempts (runSched (builtin pol) idem outcomes (sched.take cut)
        (List.replicate nFibers (Fiber.fresh cl0), ⟨plan, 0⟩)).1
      ≤ plan.length + nFibers * sameTargetBound pol :=
  attempts_bounded_speculative pol idem cl0 plan outcomes nFibers (sched.take cut)

end ScyllaVerif.Props.C06Ext

/-
C03 — "taken in partition-key order" on the `ClusterState::compute_token` path: where `Table.partition_key` /
`pk_column_specs` come from (the metadata fetch, `Model/PkFetchC03.lean`), for `system_schema.columns` rows arriving
in ANY order, and what one broken table does to the rest of its keyspace.
-/
import ScyllaVerif.Model.PkFetchC03
import ScyllaVerif.Props.C03

namespace ScyllaVerif.Props.C03Fetch
open ScyllaVerif.PkFetchC03 ScyllaVerif.Murmur3 ScyllaVerif.PartitionKey

private theorem checkPositions_ok (l : List (Int × String)) : ∀ (k : Nat) (names : List String),
    checkPositions k l = .ok names →
      names = l.map (fun c => c.2) ∧ ∀ j (h : j < l.length), (l[j]'h).1 = ((k + j : Nat) : Int) := by
  induction l with
  | nil =>
    intro k names h
    simp [checkPositions] at h
    subst h
    exact ⟨rfl, fun j h => absurd h (by simp)⟩
  | cons c rest ih =>
    intro k names h
    obtain ⟨p, n⟩ := c
    unfold checkPositions at h
    split at h
    · rename_i hp
      split at h
      · rename_i ns hrest
        have := ih (k + 1) ns hrest
        injection h with h
        subst h
        refine ⟨by simp [this.1], ?_⟩
        intro j hj
        cases j with
        | zero => simp [← hp]
        | succ j =>
          have hj' : j < rest.length := by simpa using hj
          have := this.2 j hj'
          simp only [List.getElem_cons_succ]
          rw [this]; congr 1; omega
      · cases h
    · cases h

/-- **Key columns are placed by POSITION, whatever the order of the rows.** If `validate_key_columns` accepts a list of
`(position, name)` pairs (given in any order), the result has one entry per pair and every pair's name sits at the
index equal to its position. -/
theorem validate_places_by_position (cols : List (Int × String)) (names : List String)
    (h : validateKeyColumns cols = .ok names) :
    names.length = cols.length ∧
    ∀ p n, (p, n) ∈ cols → ∃ i : Nat, (i : Int) = p ∧ names[i]? = some n := by
  unfold validateKeyColumns at h
  obtain ⟨hn, hpos⟩ := checkPositions_ok _ 0 names h
  refine ⟨by rw [hn, List.length_map, (List.mergeSort_perm _ _).length_eq], ?_⟩
  intro p n hmem
  have hm : (p, n) ∈ cols.mergeSort posLe := (List.mem_mergeSort).2 hmem
  obtain ⟨i, hi, hget⟩ := List.getElem_of_mem hm
  have hp := hpos i hi
  rw [hget] at hp
  refine ⟨i, by simpa using hp.symm, ?_⟩
  rw [hn, List.getElem?_map, List.getElem?_eq_getElem hi, hget]
  rfl

/-- **The key order does not depend on the order of the rows.** Two permutations of the same `(position, name)` pairs
that are both accepted give the same list of names. -/
theorem validate_row_order_independent (cols cols' : List (Int × String)) (a b : List String)
    (hperm : cols.Perm cols') (ha : validateKeyColumns cols = .ok a) (hb : validateKeyColumns cols' = .ok b) :
    a = b := by
  obtain ⟨hla, _⟩ := validate_places_by_position cols a ha
  obtain ⟨hlb, hpb⟩ := validate_places_by_position cols' b hb
  have hlen : a.length = b.length := by rw [hla, hlb, hperm.length_eq]
  apply List.ext_getElem hlen
  intro i h1 h2
  -- the i-th sorted pair of `cols` is `(i, a[i])`
  unfold validateKeyColumns at ha
  obtain ⟨hn, hpos⟩ := checkPositions_ok _ 0 a ha
  have hi : i < (cols.mergeSort posLe).length := by
    rw [(List.mergeSort_perm _ _).length_eq, ← hla]; exact h1
  have hmem : (cols.mergeSort posLe)[i] ∈ cols := (List.mem_mergeSort).1 (List.getElem_mem hi)
  have hp := hpos i hi
  obtain ⟨j, hj, hbj⟩ := hpb (cols.mergeSort posLe)[i].1 (cols.mergeSort posLe)[i].2 (hperm.subset hmem)
  have hji : j = i := by
    have : ((j : Nat) : Int) = ((0 + i : Nat) : Int) := by rw [hj, hp]
    omega
  subst hji
  have hai : a[j] = ((cols.mergeSort posLe)[j]).2 := by
    simp [hn]
  rw [List.getElem?_eq_getElem h2] at hbj
  injection hbj with hbj
  rw [hai, hbj]

example : validateKeyColumns [(1, "a"), (2, "b"), (0, "c")] = .ok ["c", "a", "b"] := by
  simp [validateKeyColumns, List.mergeSort, checkPositions, posLe, List.MergeSort.Internal.splitInTwo]
example : validateKeyColumns [(0, "a"), (2, "b")] = .error 1 := by
  simp [validateKeyColumns, List.mergeSort, checkPositions, posLe, List.MergeSort.Internal.splitInTwo]
example : validateKeyColumns [(0, "a"), (0, "b")] = .error 1 := by
  simp [validateKeyColumns, List.mergeSort, checkPositions, posLe, List.MergeSort.Internal.splitInTwo]

/-- **`partition_key` and `pk_column_specs` list the key columns by position, with their own types** — for the
rows of a table in any order, provided no column is listed twice: the partition-key row with position `p` ends up at
index `p` of `partition_key`, and `pk_column_specs[p]` carries its name and ITS type (what `compute_token` type-checks
the p-th value of the key against). -/
theorem pk_specs_in_position_order (rows : List ColRow) (t : FetchedTable)
    (hnames : ∀ x ∈ rows, ∀ y ∈ rows, x.name = y.name → x = y)
    (h : tableOfRows rows = .ok t) :
    t.pkSpecs.length = (rows.filter (fun r => r.kind == .partitionKey)).length ∧
    ∀ r ∈ rows, r.kind = .partitionKey →
      ∃ i : Nat, (i : Int) = r.position ∧ t.partitionKey[i]? = some r.name ∧ t.pkSpecs[i]? = some (r.name, r.ty) := by
  unfold tableOfRows at h
  split at h
  · cases h
  · rename_i pk hpk
    split at h
    · cases h
    · rename_i ck hck
      injection h with h
      subst h
      obtain ⟨hlen, hplace⟩ := validate_places_by_position _ pk hpk
      refine ⟨by simp [hlen, keyColumns], ?_⟩
      intro r hr hkind
      have hmem : (r.position, r.name) ∈ keyColumns .partitionKey rows := by
        unfold keyColumns
        exact List.mem_map.2 ⟨r, List.mem_filter.2 ⟨hr, by simp [hkind]⟩, rfl⟩
      obtain ⟨i, hi, hget⟩ := hplace _ _ hmem
      refine ⟨i, hi, hget, ?_⟩
      have hty : columnType rows r.name = some r.ty := by
        unfold columnType
        have hex : (rows.reverse.find? (fun x => x.name == r.name)).isSome := by
          rw [List.find?_isSome]
          exact ⟨r, List.mem_reverse.2 hr, by simp⟩
        obtain ⟨x, hx⟩ := Option.isSome_iff_exists.1 hex
        have hxm : x ∈ rows := List.mem_reverse.1 (List.mem_of_find?_eq_some hx)
        have hxn : x.name = r.name := by simpa using List.find?_some hx
        rw [hx, hnames x hxm r hr hxn]
        rfl
      simp [List.getElem?_map, hget, hty]

/-- **One broken table drops the whole keyspace.** If any table of a keyspace fails validation (a gap or a repeated
position among its partition-key or clustering columns), `query_tables` turns the keyspace entry into an error, and on
a session's FIRST snapshot (`old = none`) the keyspace is absent from `ClusterState` — with ALL its tables. -/
theorem broken_table_drops_keyspace (ts : List (String × Except TableErr FetchedTable)) (name : String) (e : TableErr)
    (h : (name, .error e) ∈ ts) :
    (∃ e', keyspaceOfTables ts = .error e') ∧ resolveKeyspace none (keyspaceOfTables ts) = none := by
  have key : ∀ (l : List (String × Except TableErr FetchedTable)) (acc : Except TableErr (List (String × FetchedTable))),
      ((∃ e0, acc = .error e0) ∨ (name, Except.error e) ∈ l) → ∃ e', l.foldl addTable acc = .error e' := by
    intro l
    induction l with
    | nil =>
      intro acc hh
      rcases hh with ⟨e0, rfl⟩ | hh
      · exact ⟨e0, rfl⟩
      · cases hh
    | cons t rest ih =>
      intro acc hh
      simp only [List.foldl_cons]
      apply ih
      rcases hh with ⟨e0, rfl⟩ | hh
      · exact Or.inl ⟨e0, by simp [addTable]⟩
      · rcases List.mem_cons.1 hh with rfl | hh
        · left
          cases acc with
          | error e0 => exact ⟨e0, by simp [addTable]⟩
          | ok m => exact ⟨e, by simp [addTable]⟩
        · exact Or.inr hh
  obtain ⟨e', he'⟩ := key ts (.ok []) (Or.inr h)
  exact ⟨⟨e', he'⟩, by unfold keyspaceOfTables at *; rw [he']; rfl⟩

/-- … and then every token path treats every table of that keyspace — a CDC log table included — as unknown: a
statement prepared on it silently gets the default partitioner, `compute_token` answers `UnknownTable`. (`schemaP` /
`schemaT` are the snapshot without the keyspace.) -/
theorem dropped_keyspace_paths (ks table : List UInt8) (schemaP : SchemaSnapshot) (schemaT : TableSnapshot)
    (key : List RawValue) (hP : schemaP.lookup ks = none) (hT : schemaT.lookup ks = none) :
    preparedPartitioner (some (ks, table)) schemaP = .murmur3 ∧
    clusterComputeToken schemaT ks table key = .error .unknownTable := by
  refine ⟨?_, ?_⟩
  · exact ScyllaVerif.Props.C03.preparedPartitioner_default _ _ (Or.inr ⟨ks, table, rfl, Or.inl hP⟩)
  · exact ScyllaVerif.Props.C03.clusterComputeToken_unknown_table _ _ _ _ (Or.inl hT)

example :
    (∃ e', keyspaceOfTables [("log", .ok ⟨["pk"], [], [("pk", "blob")]⟩),
        ("bad", tableOfRows [⟨"a", .partitionKey, 1, "int"⟩])] = .error e') :=
  (broken_table_drops_keyspace _ "bad" (.incompletePartitionKey 0) (by
    simp [tableOfRows, keyColumns, validateKeyColumns, checkPositions])).1

-- non-vacuity of `pk_specs_in_position_order`: PRIMARY KEY ((c, a)) with the rows in column-name order
example : (tableOfRows [⟨"a", .partitionKey, 1, "int"⟩, ⟨"b", .other, -1, "int"⟩, ⟨"c", .partitionKey, 0, "blob"⟩]).map
    (fun t => t.pkSpecs) = .ok [("c", "blob"), ("a", "int")] := by
  simp [tableOfRows, keyColumns, columnType, validateKeyColumns, List.mergeSort, checkPositions, posLe,
    List.MergeSort.Internal.splitInTwo, Except.map]

end ScyllaVerif.Props.C03Fetch

import ScyllaVerif.Props.C20
/-! C20, the PREPARE fallback: `Session::prepare`'s second attempt (client/session.rs:1633-1650) - taken when EVERY first
PREPARE failed - walks `ClusterState::iter_working_connections_to_shards`, i.e. for every known node
`NodeConnectionPool::get_working_connections()` (network/connection_pool.rs:444-455: `NotSharded` = `conns.clone()`,
`Sharded` = `connections.iter().flatten()`), and sends one PREPARE on each connection it yields. The bridging definition
`fallbackTargets` below is that walk over the model's `Pool.workingConnections` (= `Pool.byShard`, the bucket walk).
THEOREM-ONLY: no driven case takes the fallback (it needs session-level PerHost(2) / sharded pools with every node
failing the first PREPARE); which connections the real `get_working_connections` returns is tied to the code by a count. -/
namespace ScyllaVerif.Props.C20Fallback
open ScyllaVerif.Keyspace

variable {K : Type}

/-- The (node, connection) pairs the fallback sends a PREPARE on: every working connection of every known node. -/
def fallbackTargets (c : Cluster K) : List (Nat × Nat) :=
  c.known.flatMap fun n => (c.pools n).workingConnections.map fun i => (n, i)

/-- The fallback's PREPAREs at one node. -/
def fallbackAt (c : Cluster K) (n : Nat) : List Nat := ((fallbackTargets c).filter (·.1 == n)).map (·.2)

private abbrev le (sh : Nat → Nat) (a b : Nat) : Prop := sh a ≤ sh b

private theorem ins_perm (sh : Nat → Nat) (i : Nat) : ∀ l, (insertByShard sh i l).Perm (i :: l) := by
  intro l
  induction l with
  | nil => simp [insertByShard]
  | cons j l ih =>
    simp only [insertByShard]
    split
    · exact List.Perm.refl _
    · exact ((List.Perm.cons j ih).trans (List.Perm.swap i j l))

private theorem ins_sorted (sh : Nat → Nat) (i : Nat) :
    ∀ l, l.Pairwise (le sh) → (insertByShard sh i l).Pairwise (le sh) := by
  intro l
  induction l with
  | nil => intro _; simp [insertByShard]
  | cons j l ih =>
    intro h
    rw [List.pairwise_cons] at h
    simp only [insertByShard]
    split
    · rename_i hlt
      refine List.pairwise_cons.mpr ⟨fun b hb => ?_, List.pairwise_cons.mpr h⟩
      rcases List.mem_cons.mp hb with rfl | hb
      · exact Nat.le_of_lt hlt
      · exact Nat.le_trans (Nat.le_of_lt hlt) (h.1 b hb)
    · rename_i hge
      refine List.pairwise_cons.mpr ⟨fun b hb => ?_, ih h.2⟩
      rcases (ScyllaVerif.Keyspace.mem_insertByShard sh i b l).mp hb with rfl | hb
      · exact Nat.le_of_not_lt hge
      · exact h.1 b hb

private theorem ins_filter (sh : Nat → Nat) (i s : Nat) :
    ∀ l, l.Pairwise (le sh) →
      (insertByShard sh i l).filter (fun j => sh j == s) =
        l.filter (fun j => sh j == s) ++ (if sh i == s then [i] else []) := by
  intro l
  induction l with
  | nil => intro _; simp [insertByShard, List.filter]; split <;> simp_all
  | cons j l ih =>
    intro h
    rw [List.pairwise_cons] at h
    simp only [insertByShard]
    split
    · rename_i hlt
      by_cases hs : sh i = s
      · -- nothing behind the insertion point is on shard s
        have hnone : (j :: l).filter (fun j => sh j == s) = [] := by
          rw [List.filter_eq_nil_iff]
          intro b hb
          have : sh j ≤ sh b := by
            rcases List.mem_cons.mp hb with rfl | hb
            · exact Nat.le_refl _
            · exact h.1 b hb
          simp; omega
        rw [List.filter_cons, hnone]; simp [hs]
      · rw [List.filter_cons]; simp [hs]
    · rw [List.filter_cons, ih h.2, List.filter_cons]
      split <;> simp

private theorem fold_facts (sh : Nat → Nat) (s : Nat) :
    ∀ (l acc : List Nat), acc.Pairwise (le sh) →
      (l.foldl (fun acc i => insertByShard sh i acc) acc).Pairwise (le sh) ∧
      (l.foldl (fun acc i => insertByShard sh i acc) acc).Perm (acc ++ l) ∧
      (l.foldl (fun acc i => insertByShard sh i acc) acc).filter (fun j => sh j == s) =
        acc.filter (fun j => sh j == s) ++ l.filter (fun j => sh j == s) := by
  intro l
  induction l with
  | nil => intro acc h; simp [h]
  | cons x l ih =>
    intro acc h
    obtain ⟨a, b, c⟩ := ih (insertByShard sh x acc) (ins_sorted sh x acc h)
    simp only [List.foldl_cons]
    refine ⟨a, b.trans ?_, ?_⟩
    · have := (ins_perm sh x acc).append_right l
      exact this.trans (by simpa using (List.perm_middle (l₁ := acc) (l₂ := l) (a := x)).symm)
    · rw [c, ins_filter sh x s acc h, List.filter_cons]
      split <;> simp_all

private theorem walk_at (w : Nat → List Nat) (n : Nat) : ∀ (ks : List Nat), ks.Nodup → n ∈ ks →
    ((ks.flatMap fun m => (w m).map fun i => (m, i)).filter (·.1 == n)).map (·.2) = w n := by
  intro ks
  induction ks with
  | nil => intro _ hn; cases hn
  | cons m ms ih =>
    intro hk hn
    rw [List.nodup_cons] at hk
    simp only [List.flatMap_cons, List.filter_append, List.map_append]
    by_cases hm : m = n
    · subst hm
      have h1 : ((ms.flatMap fun k => (w k).map fun i => (k, i)).filter (·.1 == m)) = [] := by
        rw [List.filter_eq_nil_iff]
        intro x hx
        obtain ⟨k, hk', hx⟩ := List.mem_flatMap.mp hx
        obtain ⟨i, _, rfl⟩ := List.mem_map.mp hx
        simp; rintro rfl; exact hk.1 hk'
      rw [h1]
      simp [List.filter_map, Function.comp_def]
    · have h1 : (((w m).map fun i => (m, i)).filter (·.1 == n)) = [] := by
        rw [List.filter_eq_nil_iff]
        intro x hx
        obtain ⟨i, _, rfl⟩ := List.mem_map.mp hx
        simpa using hm
      rw [h1]
      rcases List.mem_cons.mp hn with rfl | hn'
      · exact absurd rfl hm
      · simpa using ih hk.2 hn'

/-- **fallback_targets_are_working_connections**: at every known node the fallback sends its PREPAREs on exactly the
list `get_working_connections` returns, and that list is the published connections, each as often as it is published
(a permutation: nothing dropped, nothing repeated, nothing that is not published - no excess connection, none whose
keyspace is still being set). -/
theorem fallback_targets_are_working_connections (c : Cluster K) (hk : c.known.Nodup) (n : Nat) (hn : n ∈ c.known) :
    fallbackAt c n = (c.pools n).workingConnections ∧
    ((c.pools n).workingConnections).Perm (c.pools n).conns := by
  constructor
  · exact walk_at (fun n => (c.pools n).workingConnections) n c.known hk hn
  · have := (fold_facts (fun j => ((c.pools n).net j).shard) 0 (c.pools n).conns [] List.Pairwise.nil).2.1
    simpa [Pool.workingConnections, Pool.byShard] using this

/-- **fallback_connections_have_keyspace**: in every reachable cluster state in which the newest use_keyspace fan-out
did not overlap an older one and was answered Ok, every connection the fallback sends a PREPARE on (any known node) has
the session keyspace set at the server (unless broken, or marked by a later user `USE` / an out-of-order answer). -/
theorem fallback_connections_have_keyspace [DecidableEq K] (perShard : Bool) (target : Nat) (evs : List (CEv K)) :
    let c := crun (Cluster.init perShard target : Cluster K) evs
    c.overlap = false → ∀ F, c.fanouts.head? = some F → F.resp = some .ok →
      ∀ t ∈ fallbackTargets c, ((c.pools t.1).net t.2).broken = false → ((c.pools t.1).net t.2).unclaimed = false →
        ((c.pools t.1).net t.2).serverKs = some F.ks := by
  intro c hov F hF hr t ht hb hu
  obtain ⟨n, hn, ht⟩ := List.mem_flatMap.mp ht
  obtain ⟨i, hi, rfl⟩ := List.mem_map.mp ht
  exact ScyllaVerif.Props.C20.working_connections_have_keyspace perShard target evs hov F hF hr n hn i hi hb hu

/-- **fallback_covers_every_shard_bucket**: for every shard `s`, the connections of shard `s` among the fallback's targets
are EXACTLY the bucket of `s`, in the bucket's order (no non-empty bucket is skipped or cut short), and the walk is
ordered by shard (each bucket is one contiguous block: none is visited twice, none is interleaved with another). A walk
that returned one bucket twice and dropped another - same length - contradicts the first conjunct at the dropped shard. -/
theorem fallback_covers_every_shard_bucket (p : Pool K) :
    (∀ s, p.workingConnections.filter (fun i => (p.net i).shard == s) = p.bucket s) ∧
    p.workingConnections.Pairwise (fun a b => (p.net a).shard ≤ (p.net b).shard) := by
  refine ⟨fun s => ?_, ?_⟩
  · have := (fold_facts (fun j => (p.net j).shard) s p.conns [] List.Pairwise.nil).2.2
    simpa [Pool.workingConnections, Pool.byShard, Pool.bucket] using this
  · exact (fold_facts (fun j => (p.net j).shard) 0 p.conns [] List.Pairwise.nil).1

/-- Non-vacuity: a 3-shard node, connections 0 and 2 on shard 1 (two in one bucket), connection 1 on shard 0, shard 2
empty; published in the order 0, 1, 2. The walk is bucket 0, then bucket 1 in its own order. -/
private def ex3 : Pool Nat :=
  let p := Pool.init true 1 (some 5)
  { p with sharder := some 3, conns := [0, 1, 2],
           net := fun i => { p.net i with shard := if i = 1 then 0 else 1 } }
example : ex3.workingConnections = [1, 0, 2] ∧ ex3.bucket 0 = [1] ∧ ex3.bucket 1 = [0, 2] ∧ ex3.bucket 2 = [] ∧
    fallbackAt ({ (Cluster.init true 1 : Cluster Nat) with known := [4], pools := fun _ => ex3 }) 4 = [1, 0, 2] := by
  decide

end ScyllaVerif.Props.C20Fallback

/-
C15 — the tablet map of a table stays a set of disjoint ranges with latest-wins lookup.
Model: `ScyllaVerif/Model/Tablets.lean`; generic helper lemmas: `ScyllaVerif/Proofs/Tablets.lean`.
-/
import ScyllaVerif.Model.Tablets
import ScyllaVerif.Proofs.Tablets

namespace ScyllaVerif.Props.C15
open ScyllaVerif.Tablets

/-! ### the invariant -/

/-- every tablet is a non-empty range and each tablet ends before every later one starts -/
def Inv (xs : List Tablet) : Prop :=
  (∀ t ∈ xs, t.first ≤ t.last) ∧ xs.Pairwise (fun a b => a.last < b.first)

/-- the invariant in its "adjacent" form: sorted by `first`, neighbours `prev.last < next.first`, `first ≤ last` -/
def InvAdj : List Tablet → Prop
  | [] => True
  | [t] => t.first ≤ t.last
  | a :: b :: rest => a.first ≤ a.last ∧ a.first < b.first ∧ a.last < b.first ∧ InvAdj (b :: rest)

private theorem invAdj_lower : ∀ (a : Tablet) (xs : List Tablet), InvAdj (a :: xs) → ∀ b ∈ xs, a.last < b.first
  | _, [], _, b, hb => by cases hb
  | a, c :: rest, h, b, hb => by
    obtain ⟨_, _, h3, h4⟩ := h
    rcases List.mem_cons.mp hb with rfl | hb'
    · exact h3
    · have := invAdj_lower c rest h4 b hb'
      have hc : c.first ≤ c.last := by
        cases rest with
        | nil => exact h4
        | cons d r => exact h4.1
      omega

/-- The pairwise form used in the proofs is equivalent to the adjacent form of the property statement. -/
theorem inv_iff_adjacent : ∀ xs : List Tablet, Inv xs ↔ InvAdj xs
  | [] => by simp [Inv, InvAdj]
  | [t] => by simp [Inv, InvAdj]
  | a :: b :: rest => by
    have ih := inv_iff_adjacent (b :: rest)
    constructor
    · rintro ⟨h1, h2⟩
      obtain ⟨ha, ht⟩ := List.pairwise_cons.mp h2
      have hab := ha b List.mem_cons_self
      have hb1 := h1 b (List.mem_cons_of_mem _ List.mem_cons_self)
      have ha1 := h1 a List.mem_cons_self
      refine ⟨ha1, by omega, hab, ih.mp ⟨fun t ht' => h1 t (List.mem_cons_of_mem _ ht'), ht⟩⟩
    · intro h
      have hlow := invAdj_lower a (b :: rest) h
      obtain ⟨h1, _, _, h4⟩ := h
      obtain ⟨i1, i2⟩ := ih.mpr h4
      refine ⟨?_, List.pairwise_cons.mpr ⟨hlow, i2⟩⟩
      intro t ht
      rcases List.mem_cons.mp ht with rfl | ht'
      · exact h1
      · exact i1 t ht'

/-- sorted by `first`, and no token belongs to two tablets of the list -/
theorem inv_sorted_disjoint (xs : List Tablet) (h : Inv xs) :
    xs.Pairwise (fun a b => a.first < b.first ∧ ∀ tok, ¬ (covers tok a = true ∧ covers tok b = true)) := by
  obtain ⟨h1, h2⟩ := h
  refine h2.imp_of_mem ?_
  intro a b ha _ hab
  have := h1 a ha
  refine ⟨by omega, ?_⟩
  intro tok ⟨ca, cb⟩
  simp only [covers, Bool.and_eq_true, decide_eq_true_eq] at ca cb
  omega

private theorem inv_part_last (xs : List Tablet) (h : Inv xs) (x : Int) :
    Partitioned (fun t : Tablet => decide (t.last < x)) xs := by
  obtain ⟨h1, h2⟩ := h
  refine h2.imp_of_mem ?_
  intro a b _ hb hab hp
  have := h1 b hb
  simp only [decide_eq_true_eq] at hp ⊢
  omega

private theorem inv_part_first (xs : List Tablet) (h : Inv xs) (x : Int) :
    Partitioned (fun t : Tablet => decide (t.first ≤ x)) xs := by
  obtain ⟨h1, h2⟩ := h
  refine h2.imp_of_mem ?_
  intro a b ha _ hab hp
  have := h1 a ha
  simp only [decide_eq_true_eq] at hp ⊢
  omega

/-- **Precondition of `partition_point`, proved rather than assumed**: under the invariant the two
binary searches of `add_tablet` and the one of `tablet_for_token` return the number of leading tablets
satisfying their predicate. -/
theorem partition_points_exact (xs : List Tablet) (h : Inv xs) (x : Int) :
    partitionPoint (fun t : Tablet => decide (t.last < x)) xs
        = (xs.takeWhile (fun t : Tablet => decide (t.last < x))).length ∧
    partitionPoint (fun t : Tablet => decide (t.first ≤ x)) xs
        = (xs.takeWhile (fun t : Tablet => decide (t.first ≤ x))).length :=
  ⟨partitionPoint_eq _ xs (inv_part_last xs h x), partitionPoint_eq _ xs (inv_part_first xs h x)⟩

end ScyllaVerif.Props.C15

/-
C15 — the tablet map of a table stays a set of disjoint ranges with latest-wins lookup.
Model: `ScyllaVerif/Model/Tablets.lean`; generic helper lemmas: `ScyllaVerif/Proofs/Tablets.lean`.
-/
import ScyllaVerif.Model.Tablets
import ScyllaVerif.Model.TabletsRefresh
import ScyllaVerif.Proofs.Tablets

namespace ScyllaVerif.Props.C15
open ScyllaVerif.Tablets

/-! ### the invariant -/

/-- every tablet is a non-empty range and each tablet ends before every later one starts -/
def Inv (xs : List Tablet) : Prop :=
  (∀ t ∈ xs, t.first ≤ t.last) ∧ xs.Pairwise (fun a b => a.last < b.first)

/-- the invariant in its "adjacent" form: sorted by `first`, neighbours `prev.last < next.first`, `first ≤ last` -/
def InvAdj : List Tablet → Prop
  | [] => True
  | [t] => t.first ≤ t.last
  | a :: b :: rest => a.first ≤ a.last ∧ a.first < b.first ∧ a.last < b.first ∧ InvAdj (b :: rest)

private theorem invAdj_lower : ∀ (a : Tablet) (xs : List Tablet), InvAdj (a :: xs) → ∀ b ∈ xs, a.last < b.first
  | _, [], _, b, hb => by cases hb
  | a, c :: rest, h, b, hb => by
    obtain ⟨_, _, h3, h4⟩ := h
    rcases List.mem_cons.mp hb with rfl | hb'
    · exact h3
    · have := invAdj_lower c rest h4 b hb'
      have hc : c.first ≤ c.last := by
        cases rest with
        | nil => exact h4
        | cons d r => exact h4.1
      omega

/-- The pairwise form used in the proofs is equivalent to the adjacent form of the property statement. -/
theorem inv_iff_adjacent : ∀ xs : List Tablet, Inv xs ↔ InvAdj xs
  | [] => by simp [Inv, InvAdj]
  | [t] => by simp [Inv, InvAdj]
  | a :: b :: rest => by
    have ih := inv_iff_adjacent (b :: rest)
    constructor
    · rintro ⟨h1, h2⟩
      obtain ⟨ha, ht⟩ := List.pairwise_cons.mp h2
      have hab := ha b List.mem_cons_self
      have hb1 := h1 b (List.mem_cons_of_mem _ List.mem_cons_self)
      have ha1 := h1 a List.mem_cons_self
      refine ⟨ha1, by omega, hab, ih.mp ⟨fun t ht' => h1 t (List.mem_cons_of_mem _ ht'), ht⟩⟩
    · intro h
      have hlow := invAdj_lower a (b :: rest) h
      obtain ⟨h1, _, _, h4⟩ := h
      obtain ⟨i1, i2⟩ := ih.mpr h4
      refine ⟨?_, List.pairwise_cons.mpr ⟨hlow, i2⟩⟩
      intro t ht
      rcases List.mem_cons.mp ht with rfl | ht'
      · exact h1
      · exact i1 t ht'

/-- sorted by `first`, and no token belongs to two tablets of the list -/
theorem inv_sorted_disjoint (xs : List Tablet) (h : Inv xs) :
    xs.Pairwise (fun a b => a.first < b.first ∧ ∀ tok, ¬ (covers tok a = true ∧ covers tok b = true)) := by
  obtain ⟨h1, h2⟩ := h
  refine h2.imp_of_mem ?_
  intro a b ha _ hab
  have := h1 a ha
  refine ⟨by omega, ?_⟩
  intro tok ⟨ca, cb⟩
  simp only [covers, Bool.and_eq_true, decide_eq_true_eq] at ca cb
  omega

private theorem inv_part_last (xs : List Tablet) (h : Inv xs) (x : Int) :
    Partitioned (fun t : Tablet => decide (t.last < x)) xs := by
  obtain ⟨h1, h2⟩ := h
  refine h2.imp_of_mem ?_
  intro a b _ hb hab hp
  have := h1 b hb
  simp only [decide_eq_true_eq] at hp ⊢
  omega

private theorem inv_part_first (xs : List Tablet) (h : Inv xs) (x : Int) :
    Partitioned (fun t : Tablet => decide (t.first ≤ x)) xs := by
  obtain ⟨h1, h2⟩ := h
  refine h2.imp_of_mem ?_
  intro a b ha _ hab hp
  have := h1 a ha
  simp only [decide_eq_true_eq] at hp ⊢
  omega

/-- **Precondition of `partition_point`, proved rather than assumed**: under the invariant the two
binary searches of `add_tablet` and the one of `tablet_for_token` return the number of leading tablets
satisfying their predicate. -/
theorem partition_points_exact (xs : List Tablet) (h : Inv xs) (x : Int) :
    partitionPoint (fun t : Tablet => decide (t.last < x)) xs
        = (xs.takeWhile (fun t : Tablet => decide (t.last < x))).length ∧
    partitionPoint (fun t : Tablet => decide (t.first ≤ x)) xs
        = (xs.takeWhile (fun t : Tablet => decide (t.first ≤ x))).length :=
  ⟨partitionPoint_eq _ xs (inv_part_last xs h x), partitionPoint_eq _ xs (inv_part_first xs h x)⟩

/-! ### `add_tablet` -/

private theorem filter_split (xs : List Tablet) (h : Inv xs) (nf nl : Int) (hn : nf ≤ nl) :
    xs.filter (fun t => decide (t.last < nf)) ++ xs.filter (fun t => decide (nl < t.first))
      = xs.filter (fun t => decide (t.last < nf) || decide (nl < t.first)) := by
  induction xs with
  | nil => rfl
  | cons a xs ih =>
    have hp := inv_part_last (a :: xs) h nf
    obtain ⟨h1, h2⟩ := h
    have hinv : Inv xs := ⟨fun t ht => h1 t (List.mem_cons_of_mem _ ht), (List.pairwise_cons.mp h2).2⟩
    have ha := h1 a List.mem_cons_self
    by_cases hA : a.last < nf
    · have hB : ¬ (nl < a.first) := by omega
      simp only [List.filter_cons, hA, hB, decide_true, decide_false, if_true, Bool.true_or,
        Bool.false_eq_true, if_false, List.cons_append]
      rw [ih hinv]
    · have hall := partitioned_tail_false _ a xs hp (by simpa using hA)
      have e1 : xs.filter (fun t => decide (t.last < nf)) = [] :=
        List.filter_eq_nil_iff.mpr (fun b hb => by simpa using hall b hb)
      have e2 : xs.filter (fun t => decide (t.last < nf) || decide (nl < t.first))
          = xs.filter (fun t => decide (nl < t.first)) :=
        List.filter_congr (fun b hb => by
          have := hall b hb
          simp only [decide_eq_false_iff_not] at this
          simp [this])
      simp only [List.filter_cons, hA, decide_false, Bool.false_eq_true, if_false, Bool.false_or, e1, e2,
        List.nil_append]

/-- **What `add_tablet` computes** on a well-formed table: the tablets ending before the new one, the new
one, the tablets starting after it — and no panic (`left ≤ right`). -/
theorem addTabletList_eq (xs : List Tablet) (new : Tablet) (h : Inv xs) (hn : new.first ≤ new.last) :
    addTabletList xs new = some (xs.filter (fun t => decide (t.last < new.first)) ++
      new :: xs.filter (fun t => decide (new.last < t.first))) := by
  have hp1 := inv_part_last xs h new.first
  have hp2 := inv_part_first xs h new.last
  unfold addTabletList
  rw [partitionPoint_eq _ xs hp1, partitionPoint_eq _ xs hp2]
  have hle : (xs.takeWhile (fun t : Tablet => decide (t.last < new.first))).length
      ≤ (xs.takeWhile (fun t : Tablet => decide (t.first ≤ new.last))).length := by
    apply takeWhile_length_mono
    intro t ht hp
    have := h.1 t ht
    simp only [decide_eq_true_eq] at hp ⊢
    omega
  simp only [hle, if_true]
  rw [take_takeWhile_length, drop_takeWhile_length, takeWhile_eq_filter _ xs hp1, dropWhile_eq_filter _ xs hp2]
  congr 3
  apply List.filter_congr
  intro t _
  by_cases hc : t.first ≤ new.last <;> simp [hc] <;> omega

/-- `add_tablet` never panics on a well-formed table and a non-empty range. -/
theorem addTablet_no_panic (xs : List Tablet) (new : Tablet) (h : Inv xs) (hn : new.first ≤ new.last) :
    (addTabletList xs new).isSome := by
  rw [addTabletList_eq xs new h hn]; rfl

/-- **An insert removes exactly the overlapping tablets.**  The result is `L ++ new :: R` where `L ++ R` is the
old list with precisely the tablets overlapping the new range filtered out (order and multiplicity kept),
`L` lies entirely before and `R` entirely after the new range. -/
theorem add_removes_exactly_overlaps (xs : List Tablet) (new : Tablet) (h : Inv xs) (hn : new.first ≤ new.last) :
    ∃ L R, addTabletList xs new = some (L ++ new :: R) ∧
      L ++ R = xs.filter (fun t => !overlaps t new) ∧
      (∀ t ∈ L, t.last < new.first) ∧ (∀ t ∈ R, new.last < t.first) := by
  refine ⟨_, _, addTabletList_eq xs new h hn, ?_, ?_, ?_⟩
  · rw [filter_split xs h _ _ hn]
    apply List.filter_congr
    intro t _
    simp only [overlaps]
    by_cases h1 : t.last < new.first <;> by_cases h2 : new.last < t.first <;> simp [h1, h2] <;> omega
  · intro t ht; simpa using (List.mem_filter.mp ht).2
  · intro t ht; simpa using (List.mem_filter.mp ht).2

/-- a tablet survives an insert iff it does not overlap the new range (membership form) -/
theorem add_keeps_iff (xs : List Tablet) (new : Tablet) (h : Inv xs) (hn : new.first ≤ new.last)
    (ys : List Tablet) (hy : addTabletList xs new = some ys) (t : Tablet) :
    t ∈ ys ↔ t = new ∨ (t ∈ xs ∧ overlaps t new = false) := by
  rw [addTabletList_eq xs new h hn] at hy
  cases hy
  simp only [List.mem_append, List.mem_cons, List.mem_filter, decide_eq_true_eq, overlaps]
  constructor
  · rintro (⟨h1, h2⟩ | rfl | ⟨h1, h2⟩)
    · exact Or.inr ⟨h1, by simp; omega⟩
    · exact Or.inl rfl
    · exact Or.inr ⟨h1, by simp; omega⟩
  · rintro (rfl | ⟨h1, h2⟩)
    · exact Or.inr (Or.inl rfl)
    · simp only [Bool.and_eq_false_iff, decide_eq_false_iff_not] at h2
      by_cases hc : t.last < new.first
      · exact Or.inl ⟨h1, hc⟩
      · exact Or.inr (Or.inr ⟨h1, by omega⟩)

/-- **`Inv` is preserved by `add_tablet`.** -/
theorem inv_addTablet (xs : List Tablet) (new : Tablet) (h : Inv xs) (hn : new.first ≤ new.last)
    (ys : List Tablet) (hy : addTabletList xs new = some ys) : Inv ys := by
  rw [addTabletList_eq xs new h hn] at hy
  cases hy
  obtain ⟨h1, h2⟩ := h
  constructor
  · intro t ht
    simp only [List.mem_append, List.mem_cons, List.mem_filter] at ht
    rcases ht with ⟨ht, _⟩ | rfl | ⟨ht, _⟩
    · exact h1 t ht
    · exact hn
    · exact h1 t ht
  · rw [List.pairwise_append]
    refine ⟨h2.filter _, ?_, ?_⟩
    · rw [List.pairwise_cons]
      refine ⟨?_, h2.filter _⟩
      intro b hb
      simpa using (List.mem_filter.mp hb).2
    · intro a ha b hb
      have haL : a.last < new.first := by simpa using (List.mem_filter.mp ha).2
      rcases List.mem_cons.mp hb with rfl | hb'
      · exact haL
      · have : new.last < b.first := by simpa using (List.mem_filter.mp hb').2
        omega

-- non-vacuity and the named boundary cases: touching ranges stay, containment both ways, `last = MAX`, `first = MIN+1`
private def tb (f l : Int) : Tablet := ⟨f, l, ⟨[], []⟩, none⟩
example : Inv [tb 1 3, tb 4 6, tb 9 9] := by
  refine ⟨by decide, ?_⟩
  simp [tb]
example : addTabletList [tb 1 3, tb 4 6, tb 9 9] (tb 7 8) = some [tb 1 3, tb 4 6, tb 7 8, tb 9 9] := by decide
example : addTabletList [tb 1 3, tb 4 6, tb 9 9] (tb 6 9) = some [tb 1 3, tb 6 9] := by decide
example : addTabletList [tb 1 3, tb 4 6, tb 9 9] (tb 5 5) = some [tb 1 3, tb 5 5, tb 9 9] := by decide
example : addTabletList [tb 1 3, tb 4 6, tb 9 9] (tb 0 10) = some [tb 0 10] := by decide
example : addTabletList [tb (i64Min + 1) 3, tb 4 i64Max] (tb 3 4) = some [tb 3 4] := by decide
example : addTabletList [tb (i64Min + 1) 3, tb 5 i64Max] (tb 4 4) = some [tb (i64Min + 1) 3, tb 4 4, tb 5 i64Max] := by
  decide
/-- an ill-formed tablet (`first > last`, never produced by `from_custom_payload`) can make `drain` panic -/
example : addTabletList [tb 1 3, tb 4 6, tb 9 9] (tb 8 2) = none := by decide

/-! ### `tablet_for_token` -/

private theorem inv_tail {a : Tablet} {xs : List Tablet} (h : Inv (a :: xs)) : Inv xs :=
  ⟨fun t ht => h.1 t (List.mem_cons_of_mem _ ht), (List.pairwise_cons.mp h.2).2⟩

/-- Under the invariant the binary-search lookup is the linear search for the covering tablet. -/
theorem lookup_eq_find (xs : List Tablet) (h : Inv xs) (tok : Int) :
    tabletForToken xs tok = xs.find? (covers tok) := by
  have hp := inv_part_last xs h tok
  unfold tabletForToken
  simp only []
  rw [partitionPoint_eq _ xs hp]
  have e : xs[(xs.takeWhile (fun t : Tablet => decide (t.last < tok))).length]?
      = (xs.filter (fun t : Tablet => !decide (t.last < tok))).head? := by
    rw [← dropWhile_eq_filter _ xs hp, ← drop_takeWhile_length, List.head?_drop]
  rw [e, List.head?_filter]
  clear e hp
  induction xs with
  | nil => rfl
  | cons a xs ih =>
    have ha := h.1 a List.mem_cons_self
    by_cases hl : a.last < tok
    · have hc : covers tok a = false := by simp [covers]; omega
      simp only [List.find?_cons, hl, hc, decide_true, Bool.not_true]
      exact ih (inv_tail h)
    · simp only [List.find?_cons, hl, decide_false, Bool.not_false]
      by_cases hf : a.first ≤ tok
      · have hc : covers tok a = true := by simp [covers]; omega
        simp [hf, hc]
      · have hc : covers tok a = false := by simp [covers]; omega
        simp only [hf, if_false, hc]
        symm
        rw [List.find?_eq_none]
        intro b hb
        have := (List.pairwise_cons.mp h.2).1 b hb
        simp [covers]; omega

/-- The answer is a member of the list that covers the token, and it is the only such member. -/
theorem lookup_some_iff (xs : List Tablet) (h : Inv xs) (tok : Int) (u : Tablet) :
    tabletForToken xs tok = some u ↔ u ∈ xs ∧ u.first ≤ tok ∧ tok ≤ u.last := by
  rw [lookup_eq_find xs h]
  constructor
  · intro hf
    have h1 := List.find?_some hf
    have h2 := List.mem_of_find?_eq_some hf
    simp only [covers, Bool.and_eq_true, decide_eq_true_eq] at h1
    exact ⟨h2, h1⟩
  · rintro ⟨hm, hc1, hc2⟩
    have hcu : covers tok u = true := by simp [covers]; omega
    cases hf : xs.find? (covers tok) with
    | none =>
      have := List.find?_eq_none.mp hf u hm
      simp [hcu] at this
    | some v =>
      have hv := List.find?_some hf
      have hvm := List.mem_of_find?_eq_some hf
      simp only [covers, Bool.and_eq_true, decide_eq_true_eq] at hv
      rcases pairwise_trichotomy _ xs h.2 u hm v hvm with e | r | r
      · rw [e]
      · omega
      · omega

theorem lookup_none_iff (xs : List Tablet) (h : Inv xs) (tok : Int) :
    tabletForToken xs tok = none ↔ ∀ u ∈ xs, ¬ (u.first ≤ tok ∧ tok ≤ u.last) := by
  rw [lookup_eq_find xs h, List.find?_eq_none]
  constructor
  · intro hh u hu hc
    have := hh u hu
    simp [covers] at this
    omega
  · intro hh u hu
    have := hh u hu
    simp [covers]; omega

example : tabletForToken [tb 1 3, tb 4 6, tb 9 9] 4 = some (tb 4 6) ∧ tabletForToken [tb 1 3, tb 4 6, tb 9 9] 7 = none ∧
    tabletForToken [tb 1 3, tb 4 i64Max] i64Max = some (tb 4 i64Max) := by decide

/-! ### maintenance -/

/-- What maintenance does to one tablet (the specification of the three passes): re-resolve its unknown
replicas or discard it, discard it if a replica sits on a removed node, swap in re-created `Node` objects. -/
def maintTablet (removed : List Nat) (nodes recreated : List (Nat × Node)) (t : Tablet) : Option Tablet :=
  ((reResolve (fun id => alGet id nodes) t).bind
    (fun t => if touchesRemoved removed t then none else some t)).map (updateStale recreated)

/-- the flag may be falsely true, never falsely false -/
def FlagInv (tbl : Table) : Prop := tbl.hasUnknown = false → ∀ t ∈ tbl.tablets, t.failed = none

private theorem updateStale_nil (t : Tablet) : updateStale [] t = t := by
  obtain ⟨f, l, ⟨all, perDc⟩, fl⟩ := t
  have h1 : all.any (isStaleRep []) = false := by
    simp [isStaleRep, alGet]
  have h2 : all.map (swapNode []) = all := by
    have : swapNode [] = id := by funext p; simp [swapNode, alGet]
    rw [this, List.map_id]
  simp only [updateStale, h1, h2, Bool.false_eq_true, if_false]

private theorem touchesRemoved_nil (t : Tablet) : touchesRemoved [] t = false := by
  simp [touchesRemoved]

/-- **The three gated passes of `perform_maintenance` are one `filterMap`** of the per-tablet specification
(the `has_unknown_replicas` gate is sound because of `FlagInv`; the two `is_empty` gates skip no-ops). -/
theorem maintenance_eq_filterMap (tbl : Table) (hflag : FlagInv tbl) (rm : List Nat) (ns rc : List (Nat × Node)) :
    (tbl.maintenance rm ns rc).tablets = tbl.tablets.filterMap (maintTablet rm ns rc) ∧
    (tbl.maintenance rm ns rc).hasUnknown = false := by
  refine ⟨?_, rfl⟩
  unfold Table.maintenance
  simp only []
  -- pass 1
  have e1 : (if tbl.hasUnknown = true then tbl.tablets.filterMap (reResolve (fun id => alGet id ns)) else tbl.tablets)
      = tbl.tablets.filterMap (reResolve (fun id => alGet id ns)) := by
    cases hu : tbl.hasUnknown
    · have hall := hflag hu
      simp only [Bool.false_eq_true, if_false]
      symm
      have : tbl.tablets.filterMap (reResolve (fun id => alGet id ns)) = tbl.tablets.filterMap some := by
        apply filterMap_congr'
        intro t ht
        simp [reResolve, hall t ht]
      rw [this, List.filterMap_some]
    · simp
  -- pass 2
  have e2 : ∀ l : List Tablet, (if rm.isEmpty = true then l else l.filter (fun t => !touchesRemoved rm t))
      = l.filterMap (fun t => if touchesRemoved rm t then none else some t) := by
    intro l
    have hf : l.filter (fun t => !touchesRemoved rm t) = l.filterMap (fun t => if touchesRemoved rm t then none else some t) := by
      induction l with
      | nil => rfl
      | cons a l ih => cases ha : touchesRemoved rm a <;> simp [ha, ih]
    cases hr : rm.isEmpty
    · simp only [Bool.false_eq_true, if_false]; exact hf
    · have : rm = [] := List.isEmpty_iff.mp hr
      subst this
      simp only [if_true]
      have : (fun t : Tablet => if touchesRemoved [] t = true then none else some t) = some := by
        funext t; simp [touchesRemoved_nil]
      rw [this, List.filterMap_some]
  -- pass 3
  have e3 : ∀ l : List Tablet, (if rc.isEmpty = true then l else l.map (updateStale rc)) = l.map (updateStale rc) := by
    intro l
    cases hr : rc.isEmpty
    · simp
    · have : rc = [] := List.isEmpty_iff.mp hr
      subst this
      have : updateStale [] = id := by funext t; exact updateStale_nil t
      simp [this]
  rw [e1, e2, e3]
  simp only [List.map_filterMap, List.filterMap_filterMap]
  rfl

private theorem reResolve_range {tr : Nat → Option Node} {t u : Tablet} (h : reResolve tr t = some u) :
    (u.first = t.first ∧ u.last = t.last) ∧ u.failed = none ∨ u = t := by
  unfold reResolve at h
  cases hf : t.failed with
  | none =>
    simp only [hf, Option.some.injEq] at h
    right; exact h.symm
  | some raw =>
    simp only [hf, fromRawReplicas] at h
    by_cases hc : (resolveFailed tr raw).isEmpty = true
    · simp only [hc, if_true, Option.some.injEq] at h
      left; rw [← h]; exact ⟨⟨rfl, rfl⟩, rfl⟩
    · simp [hc] at h

private theorem maintTablet_some {rm : List Nat} {ns rc : List (Nat × Node)} {t u : Tablet}
    (h : maintTablet rm ns rc t = some u) :
    ∃ t1, reResolve (fun id => alGet id ns) t = some t1 ∧ touchesRemoved rm t1 = false ∧ u = updateStale rc t1 := by
  unfold maintTablet at h
  simp only [Option.map_eq_some_iff, Option.bind_eq_some_iff] at h
  obtain ⟨t2, ⟨t1, h1, h2⟩, h3⟩ := h
  cases htr : touchesRemoved rm t1
  · simp only [htr, Bool.false_eq_true, if_false, Option.some.injEq] at h2
    exact ⟨t1, h1, htr, by rw [h2, h3]⟩
  · simp [htr] at h2

/-- maintenance keeps or discards a tablet; it never changes its range -/
theorem maintTablet_range {rm : List Nat} {ns rc : List (Nat × Node)} {t u : Tablet}
    (h : maintTablet rm ns rc t = some u) : u.first = t.first ∧ u.last = t.last := by
  obtain ⟨t1, h1, _, rfl⟩ := maintTablet_some h
  have : (updateStale rc t1).first = t1.first ∧ (updateStale rc t1).last = t1.last := ⟨rfl, rfl⟩
  rcases reResolve_range h1 with ⟨⟨a, b⟩, _⟩ | e
  · rw [this.1, this.2, a, b]; exact ⟨rfl, rfl⟩
  · rw [this.1, this.2, e]; exact ⟨rfl, rfl⟩

/-- after maintenance no tablet has unresolved replicas (so clearing the flag is right) -/
theorem maintTablet_resolved {rm : List Nat} {ns rc : List (Nat × Node)} {t u : Tablet}
    (h : maintTablet rm ns rc t = some u) : u.failed = none := by
  obtain ⟨t1, h1, _, rfl⟩ := maintTablet_some h
  have e : (updateStale rc t1).failed = t1.failed := rfl
  rw [e]
  unfold reResolve at h1
  cases hf : t.failed with
  | none =>
    simp only [hf, Option.some.injEq] at h1
    rw [← h1]; exact hf
  | some raw =>
    simp only [hf, fromRawReplicas] at h1
    by_cases hc : (resolveFailed (fun id => alGet id ns) raw).isEmpty = true
    · simp only [hc, if_true, Option.some.injEq] at h1
      rw [← h1]
    · simp [hc] at h1

/-- after maintenance no replica sits on a removed node -/
theorem maintTablet_no_removed {rm : List Nat} {ns rc : List (Nat × Node)} {t u : Tablet}
    (h : maintTablet rm ns rc t = some u) (hrc : ∀ id n, alGet id rc = some n → n.hostId = id) :
    ∀ p ∈ u.replicas.all, p.1.hostId ∉ rm := by
  obtain ⟨t1, _, htr, rfl⟩ := maintTablet_some h
  intro p hp
  simp only [updateStale, List.mem_map] at hp
  obtain ⟨q, hq, rfl⟩ := hp
  have hid : (swapNode rc q).1.hostId = q.1.hostId := by
    unfold swapNode
    split
    · rename_i n hn; exact hrc _ _ hn
    · rfl
  rw [hid]
  intro hmem
  have : touchesRemoved rm t1 = true := by
    simp only [touchesRemoved, List.any_eq_true]
    exact ⟨q, hq, by simpa using hmem⟩
  rw [htr] at this; cases this

private theorem inv_filterMap (f : Tablet → Option Tablet)
    (hf : ∀ t u, f t = some u → u.first = t.first ∧ u.last = t.last) (l : List Tablet) (h : Inv l) :
    Inv (l.filterMap f) := by
  obtain ⟨h1, h2⟩ := h
  constructor
  · intro u hu
    obtain ⟨t, ht, e⟩ := List.mem_filterMap.mp hu
    have := hf t u e
    have := h1 t ht
    omega
  · refine List.Pairwise.filterMap f ?_ h2
    intro a a' hr b hb b' hb'
    have := hf a b hb
    have := hf a' b' hb'
    omega

/-- **`Inv` is preserved by maintenance** (whatever the flag says). -/
theorem inv_maintenance (tbl : Table) (h : Inv tbl.tablets) (rm : List Nat) (ns rc : List (Nat × Node)) :
    Inv (tbl.maintenance rm ns rc).tablets := by
  unfold Table.maintenance
  simp only []
  have s1 : Inv (if tbl.hasUnknown = true then tbl.tablets.filterMap (reResolve (fun id => alGet id ns)) else tbl.tablets) := by
    split
    · apply inv_filterMap _ _ _ h
      intro t u e
      rcases reResolve_range e with ⟨a, _⟩ | e'
      · exact a
      · rw [e']; exact ⟨rfl, rfl⟩
    · exact h
  generalize (if tbl.hasUnknown = true then tbl.tablets.filterMap (reResolve (fun id => alGet id ns)) else tbl.tablets) = l1 at s1
  have s2 : Inv (if rm.isEmpty = true then l1 else l1.filter (fun t => !touchesRemoved rm t)) := by
    split
    · exact s1
    · exact ⟨fun t ht => s1.1 t (List.mem_filter.mp ht).1, s1.2.filter _⟩
  generalize (if rm.isEmpty = true then l1 else l1.filter (fun t => !touchesRemoved rm t)) = l2 at s2
  split
  · exact s2
  · rw [← List.filterMap_eq_map]
    apply inv_filterMap _ _ _ s2
    intro t u e
    simp only [Function.comp, Option.some.injEq] at e
    rw [← e]; exact ⟨rfl, rfl⟩

/-! ### histories: the invariant and the refinement of lookups -/

inductive Op where
  /-- a tablet learnt from the server (`add_tablet`) -/
  | insert (t : Tablet)
  /-- topology maintenance: removed host ids, all current nodes, re-created nodes -/
  | maint (removed : List Nat) (nodes recreated : List (Nat × Node))

def step (tbl : Table) : Op → Table
  | .insert t => (tbl.addTablet t).1
  | .maint rm ns rc => tbl.maintenance rm ns rc

def run (hist : List Op) : Table := hist.foldl step Table.empty

/-- every learnt tablet is a non-empty range (what `from_custom_payload` guarantees: `payload_range`) -/
def ValidHist (hist : List Op) : Prop := ∀ t, Op.insert t ∈ hist → t.first ≤ t.last

/-- **The specification of a lookup, read off the history alone** (newest operation first): the most recently
learnt tablet covering the token — unless a later insert overlapped it or a later maintenance step discarded
it, in which case nothing; maintenance steps the answer passes through transform its replicas. -/
def lookupSpecRev : List Op → Int → Option Tablet
  | [], _ => none
  | .insert t :: older, tok =>
    if covers tok t then some t
    else match lookupSpecRev older tok with
      | some u => if overlaps u t then none else some u
      | none => none
  | .maint rm ns rc :: older, tok => (lookupSpecRev older tok).bind (maintTablet rm ns rc)

def lookupSpec (hist : List Op) (tok : Int) : Option Tablet := lookupSpecRev hist.reverse tok

def Good (tbl : Table) : Prop := Inv tbl.tablets ∧ FlagInv tbl

private theorem opt_ext {α : Type} {a b : Option α} (h : ∀ w, a = some w ↔ b = some w) : a = b := by
  cases a with
  | none =>
    cases b with
    | none => rfl
    | some y => exact ((h y).mpr rfl)
  | some x => exact ((h x).mp rfl).symm

private theorem good_insert (tbl : Table) (hg : Good tbl) (t : Tablet) (ht : t.first ≤ t.last) :
    Good (step tbl (.insert t)) ∧ addTabletList tbl.tablets t = some (step tbl (.insert t)).tablets := by
  obtain ⟨hinv, hflag⟩ := hg
  have heq := addTabletList_eq tbl.tablets t hinv ht
  have hstep : step tbl (.insert t) = ⟨tbl.tablets.filter (fun u => decide (u.last < t.first)) ++
      t :: tbl.tablets.filter (fun u => decide (t.last < u.first)), tbl.hasUnknown || t.failed.isSome⟩ := by
    simp only [step, Table.addTablet, heq]
  rw [hstep]
  refine ⟨⟨inv_addTablet _ t hinv ht _ heq, ?_⟩, heq⟩
  intro hf u hu
  simp only [Bool.or_eq_false_iff] at hf
  rcases (add_keeps_iff _ t hinv ht _ heq u).mp hu with rfl | ⟨hm, _⟩
  · cases h : u.failed with
    | none => rfl
    | some r => rw [h] at hf; simp at hf
  · exact hflag hf.1 u hm

private theorem good_maint (tbl : Table) (hg : Good tbl) (rm : List Nat) (ns rc : List (Nat × Node)) :
    Good (step tbl (.maint rm ns rc)) := by
  obtain ⟨hinv, hflag⟩ := hg
  refine ⟨inv_maintenance tbl hinv rm ns rc, ?_⟩
  intro _ u hu
  simp only [step] at hu
  rw [(maintenance_eq_filterMap tbl hflag rm ns rc).1] at hu
  obtain ⟨t, _, e⟩ := List.mem_filterMap.mp hu
  exact maintTablet_resolved e

private theorem lookup_after_insert (xs ys : List Tablet) (new : Tablet) (h : Inv xs) (hn : new.first ≤ new.last)
    (hy : addTabletList xs new = some ys) (tok : Int) :
    tabletForToken ys tok =
      if covers tok new then some new
      else match tabletForToken xs tok with
        | some u => if overlaps u new then none else some u
        | none => none := by
  have hinvy := inv_addTablet xs new h hn ys hy
  apply opt_ext
  intro w
  rw [lookup_some_iff ys hinvy, add_keeps_iff xs new h hn ys hy]
  by_cases hc : covers tok new = true
  · rw [if_pos hc]
    simp only [Option.some.injEq]
    simp only [covers, Bool.and_eq_true, decide_eq_true_eq] at hc
    constructor
    · rintro ⟨rfl | ⟨_, ho⟩, hw⟩
      · rfl
      · simp only [overlaps, Bool.and_eq_false_iff, decide_eq_false_iff_not] at ho
        omega
    · rintro rfl
      exact ⟨Or.inl rfl, hc⟩
  · rw [if_neg hc]
    simp only [covers, Bool.and_eq_true, decide_eq_true_eq] at hc
    cases hl : tabletForToken xs tok with
    | none =>
      have hnone := (lookup_none_iff xs h tok).mp hl
      simp only [reduceCtorEq, iff_false]
      rintro ⟨rfl | ⟨hm, _⟩, hw⟩
      · exact hc hw
      · exact hnone w hm hw
    | some u =>
      obtain ⟨hum, huc⟩ := (lookup_some_iff xs h tok u).mp hl
      have uniq : ∀ w, w ∈ xs → (w.first ≤ tok ∧ tok ≤ w.last) → w = u := by
        intro w hm hw
        have := (lookup_some_iff xs h tok w).mpr ⟨hm, hw⟩
        rw [hl] at this
        exact (Option.some.inj this).symm
      cases ho : overlaps u new
      · simp only [ho, Bool.false_eq_true, if_false, Option.some.injEq]
        constructor
        · rintro ⟨rfl | ⟨hm, _⟩, hw⟩
          · exact absurd hw hc
          · exact (uniq w hm hw).symm
        · rintro rfl
          exact ⟨Or.inr ⟨hum, ho⟩, huc⟩
      · simp only [ho, if_true, reduceCtorEq, iff_false]
        rintro ⟨rfl | ⟨hm, hno⟩, hw⟩
        · exact hc hw
        · rw [uniq w hm hw, ho] at hno
          cases hno

private theorem lookup_after_filterMap (xs : List Tablet) (h : Inv xs) (f : Tablet → Option Tablet)
    (hf : ∀ t u, f t = some u → u.first = t.first ∧ u.last = t.last) (tok : Int) :
    tabletForToken (xs.filterMap f) tok = (tabletForToken xs tok).bind f := by
  apply opt_ext
  intro w
  rw [lookup_some_iff _ (inv_filterMap f hf xs h), Option.bind_eq_some_iff]
  constructor
  · rintro ⟨hm, hw⟩
    obtain ⟨t, ht, e⟩ := List.mem_filterMap.mp hm
    have := hf t w e
    exact ⟨t, (lookup_some_iff xs h tok t).mpr ⟨ht, by omega⟩, e⟩
  · rintro ⟨t, hl, e⟩
    obtain ⟨ht, hc⟩ := (lookup_some_iff xs h tok t).mp hl
    have := hf t w e
    exact ⟨List.mem_filterMap.mpr ⟨t, ht, e⟩, by omega⟩

private theorem run_snoc (hist : List Op) (op : Op) : run (hist ++ [op]) = step (run hist) op := by
  simp [run, List.foldl_append]

private theorem main_induction (rh : List Op) (hv : ValidHist rh.reverse) :
    Good (run rh.reverse) ∧ ∀ tok, tabletForToken (run rh.reverse).tablets tok = lookupSpecRev rh tok := by
  induction rh with
  | nil =>
    refine ⟨⟨⟨?_, List.Pairwise.nil⟩, ?_⟩, ?_⟩
    · intro t ht; simp [run, Table.empty] at ht
    · intro _ t ht; simp [run, Table.empty] at ht
    · intro tok; rfl
  | cons op rh ih =>
    have hv' : ValidHist rh.reverse := by
      intro t ht
      apply hv t
      simp only [List.reverse_cons, List.mem_append]
      exact Or.inl ht
    obtain ⟨hg, hl⟩ := ih hv'
    simp only [List.reverse_cons, run_snoc]
    cases op with
    | insert t =>
      have ht : t.first ≤ t.last := by
        apply hv t
        simp [List.reverse_cons]
      obtain ⟨hg', hy⟩ := good_insert _ hg t ht
      refine ⟨hg', ?_⟩
      intro tok
      rw [lookup_after_insert _ _ t hg.1 ht hy tok, hl tok]
      rfl
    | maint rm ns rc =>
      refine ⟨good_maint _ hg rm ns rc, ?_⟩
      intro tok
      simp only [step]
      rw [(maintenance_eq_filterMap _ hg.2 rm ns rc).1,
        lookup_after_filterMap _ hg.1 _ (fun t u e => maintTablet_range e) tok, hl tok]
      rfl

/-- **The invariant holds after every history** of inserts and maintenance steps, of any length. -/
theorem inv_run (hist : List Op) (hv : ValidHist hist) : Inv (run hist).tablets := by
  have := (main_induction hist.reverse (by rwa [List.reverse_reverse])).1.1
  rwa [List.reverse_reverse] at this

/-- the flag is never falsely false, after every history -/
theorem flag_run (hist : List Op) (hv : ValidHist hist) : FlagInv (run hist) := by
  have := (main_induction hist.reverse (by rwa [List.reverse_reverse])).1.2
  rwa [List.reverse_reverse] at this

/-- no insert of a valid history panics -/
theorem run_no_panic (hist : List Op) (t : Tablet) (hv : ValidHist (hist ++ [.insert t])) :
    ((run hist).addTablet t).2 = true := by
  have hinv := inv_run hist (fun u hu => hv u (List.mem_append_left _ hu))
  have ht := hv t (by simp)
  simp only [Table.addTablet, addTabletList_eq _ t hinv ht]

/-- **Lookups refine the history specification**: after every history, `tablet_for_token` (binary search on
the maintained list) answers exactly the latest insert covering the token unless a later insert overlapped it or
maintenance discarded it — then nothing; never a stale tablet. -/
theorem lookup_refines (hist : List Op) (hv : ValidHist hist) (tok : Int) :
    tabletForToken (run hist).tablets tok = lookupSpec hist tok := by
  have := (main_induction hist.reverse (by rwa [List.reverse_reverse])).2 tok
  rwa [List.reverse_reverse] at this

/-- A weak, range-only consequence (kept for its users): whatever is answered covers the token and some insert of
the history has the same range.  It does NOT by itself exclude a stale replica list (a range re-learnt with other
replicas); exactness is `lookup_refines`, and in flat form `lookup_answer_is_latest` below: the answer IS the
latest covering insert, as maintained — replicas included. -/
theorem lookup_never_stale (hist : List Op) (hv : ValidHist hist) (tok : Int) (u : Tablet)
    (h : tabletForToken (run hist).tablets tok = some u) :
    u.first ≤ tok ∧ tok ≤ u.last ∧ ∃ t, Op.insert t ∈ hist ∧ t.first = u.first ∧ t.last = u.last := by
  have hc := ((lookup_some_iff _ (inv_run hist hv) tok u).mp h).2
  refine ⟨hc.1, hc.2, ?_⟩
  rw [lookup_refines hist hv] at h
  unfold lookupSpec at h
  have key : ∀ rh u, lookupSpecRev rh tok = some u → ∃ t, Op.insert t ∈ rh ∧ t.first = u.first ∧ t.last = u.last := by
    intro rh
    induction rh with
    | nil => intro u h; cases h
    | cons op rh ih =>
      intro u h
      cases op with
      | insert t =>
        simp only [lookupSpecRev] at h
        split at h
        · cases h; exact ⟨u, List.mem_cons_self, rfl, rfl⟩
        · split at h
          · split at h
            · cases h
            · cases h
              rename_i v hv' _
              obtain ⟨t', hm, e⟩ := ih u hv'
              exact ⟨t', List.mem_cons_of_mem _ hm, e⟩
          · cases h
      | maint rm ns rc =>
        simp only [lookupSpecRev, Option.bind_eq_some_iff] at h
        obtain ⟨v, hv', e⟩ := h
        obtain ⟨t', hm, e1, e2⟩ := ih v hv'
        have := maintTablet_range e
        exact ⟨t', List.mem_cons_of_mem _ hm, by omega, by omega⟩
  obtain ⟨t, hm, e⟩ := key hist.reverse u h
  exact ⟨t, List.mem_reverse.mp hm, e⟩

-- non-vacuity: a history with an overlap, a touching insert and a maintenance step that discards a tablet
private def nd (id : Nat) : Node := ⟨id, some "dc1", id⟩
private def tr (f l : Int) (ids : List Nat) : Tablet := ⟨f, l, ⟨ids.map fun i => (nd i, 0), []⟩, none⟩
private def hist1 : List Op :=
  [.insert (tr 1 5 [1]), .insert (tr 6 9 [2]), .insert (tr 4 6 [1]), .insert (tr 7 8 [2]), .maint [2] [(1, nd 1)] []]
example : ValidHist hist1 := by
  intro t ht
  simp only [hist1, List.mem_cons, Op.insert.injEq, List.not_mem_nil, or_false, reduceCtorEq] at ht
  rcases ht with rfl | rfl | rfl | rfl <;> decide
example : (run hist1).tablets = [tr 4 6 [1]] ∧ lookupSpec hist1 5 = some (tr 4 6 [1]) ∧
    lookupSpec hist1 2 = none ∧ lookupSpec hist1 7 = none := by decide

/-! ### replicas restricted to a datacenter -/

/-- the per-datacenter view of a tablet is the order-preserving restriction of its full replica list -/
def DcOk (t : Tablet) : Prop :=
  ∀ dc : String, dcReplicas t dc = t.replicas.all.filter (fun p => decide (p.1.dc = some dc))

private theorem group_foldl (xs : List Rep) :
    ∀ (m : List (String × List Rep)) (l : List Rep),
      (∀ dc, (alGet dc m).getD [] = l.filter (fun p => decide (p.1.dc = some dc))) →
      ∀ dc, (alGet dc (xs.foldl dcPush m)).getD [] = (l ++ xs).filter (fun p => decide (p.1.dc = some dc)) := by
  induction xs with
  | nil => intro m l h dc; simpa using h dc
  | cons p xs ih =>
    intro m l h dc
    have step : ∀ dc, (alGet dc (dcPush m p)).getD [] = (l ++ [p]).filter (fun p => decide (p.1.dc = some dc)) := by
      intro dc
      unfold dcPush
      cases hd : p.1.dc with
      | none =>
        simp only [List.filter_append, List.filter_cons, hd, reduceCtorEq, decide_false, Bool.false_eq_true, if_false,
          List.filter_nil, List.append_nil]
        exact h dc
      | some d =>
        simp only [alGet_alPush]
        by_cases e : dc = d
        · subst e
          simp only [if_true, Option.getD_some, List.filter_append, List.filter_cons, hd, decide_true,
            List.filter_nil]
          rw [h dc]
        · have e' : ¬ (d = dc) := fun x => e x.symm
          simp only [e, if_false, List.filter_append, List.filter_cons, hd, Option.some.injEq, e', decide_false,
            Bool.false_eq_true, List.filter_nil, List.append_nil]
          exact h dc
    have := ih (dcPush m p) (l ++ [p]) step dc
    simpa [List.foldl_cons, List.append_assoc] using this

/-- **The grouping loop of `from_raw_replicas` computes the filter**, for every datacenter, order preserved
(a datacenter without replicas has no entry: the empty slice). -/
theorem groupByDc_eq_filter (all : List Rep) (dc : String) :
    (alGet dc (groupByDc all)).getD [] = all.filter (fun p => decide (p.1.dc = some dc)) := by
  have := group_foldl all [] [] (fun dc => by simp [alGet]) dc
  simpa [groupByDc] using this

/-- tablets built from a payload (`from_raw_tablet`, resolved or not) satisfy `dc_restrict` -/
theorem dc_restrict_fromRaw (first last : Int) (raw : List (Nat × Nat)) (tr : Nat → Option Node) :
    DcOk (Tablet.fromRaw first last raw tr) := by
  intro dc
  simp only [Tablet.fromRaw, fromRawReplicas, dcReplicas]
  exact groupByDc_eq_filter _ dc

private theorem dcOk_reResolve {tr : Nat → Option Node} {t u : Tablet} (h : DcOk t) (e : reResolve tr t = some u) :
    DcOk u := by
  unfold reResolve at e
  cases hf : t.failed with
  | none =>
    simp only [hf, Option.some.injEq] at e
    rw [← e]; exact h
  | some raw =>
    simp only [hf, fromRawReplicas] at e
    by_cases hc : (resolveFailed tr raw).isEmpty = true
    · simp only [hc, if_true, Option.some.injEq] at e
      rw [← e]
      intro dc
      simp only [dcReplicas]
      exact groupByDc_eq_filter _ dc
    · simp [hc] at e

private theorem dcOk_updateStale (rc : List (Nat × Node)) {t : Tablet} (h : DcOk t) : DcOk (updateStale rc t) := by
  intro dc
  cases hany : t.replicas.all.any (isStaleRep rc)
  · have hall : t.replicas.all.map (swapNode rc) = t.replicas.all := by
      have : ∀ p ∈ t.replicas.all, swapNode rc p = p := by
        intro p hp
        have hp' : isStaleRep rc p = false := by
          cases hx : isStaleRep rc p
          · rfl
          · have : t.replicas.all.any (isStaleRep rc) = true := List.any_eq_true.mpr ⟨p, hp, hx⟩
            rw [hany] at this; cases this
        unfold isStaleRep at hp'
        unfold swapNode
        cases hg : alGet p.1.hostId rc with
        | none => rfl
        | some n =>
          simp only [hg] at hp'
          have : n = p.1 := by simpa using hp'
          simp only [this]
      calc t.replicas.all.map (swapNode rc) = t.replicas.all.map id := List.map_congr_left this
        _ = t.replicas.all := List.map_id _
    simp only [updateStale, dcReplicas, hany, hall, Bool.false_eq_true, if_false]
    exact h dc
  · simp only [updateStale, dcReplicas, hany, if_true]
    exact groupByDc_eq_filter _ dc

/-- maintenance (re-resolution, re-created nodes — also in another datacenter) preserves `dc_restrict` -/
theorem dc_restrict_maint {rm : List Nat} {ns rc : List (Nat × Node)} {t u : Tablet} (h : DcOk t)
    (e : maintTablet rm ns rc t = some u) : DcOk u := by
  obtain ⟨t1, h1, _, rfl⟩ := maintTablet_some e
  exact dcOk_updateStale rc (dcOk_reResolve h h1)

/-- **dc_restrict after every history**: if every learnt tablet was built by `from_raw_tablet` (or just satisfies
`DcOk`), then for every token and datacenter the dc-restricted answer is the full answer filtered by the
replica's datacenter, in the same order. -/
theorem dc_restrict (hist : List Op) (hv : ValidHist hist) (hdc : ∀ t, Op.insert t ∈ hist → DcOk t)
    (tok : Int) (dc : String) :
    dcReplicasForToken (run hist).tablets tok dc =
      (replicasForToken (run hist).tablets tok).map (fun all => all.filter (fun p => decide (p.1.dc = some dc))) := by
  have key : ∀ rh : List Op, (∀ t, Op.insert t ∈ rh → DcOk t) → ∀ u, lookupSpecRev rh tok = some u → DcOk u := by
    intro rh
    induction rh with
    | nil => intro _ u h; cases h
    | cons op rh ih =>
      intro hd u h
      have ih' := ih (fun t ht => hd t (List.mem_cons_of_mem _ ht))
      cases op with
      | insert t =>
        simp only [lookupSpecRev] at h
        split at h
        · cases h; exact hd u List.mem_cons_self
        · split at h
          · split at h
            · cases h
            · cases h
              rename_i v hv' _
              exact ih' u hv'
          · cases h
      | maint rm ns rc =>
        simp only [lookupSpecRev, Option.bind_eq_some_iff] at h
        obtain ⟨v, hv', e⟩ := h
        exact dc_restrict_maint (ih' v hv') e
  unfold dcReplicasForToken replicasForToken
  cases hl : tabletForToken (run hist).tablets tok with
  | none => rfl
  | some u =>
    rw [lookup_refines hist hv] at hl
    have := key hist.reverse (fun t ht => hdc t (List.mem_reverse.mp ht)) u hl
    simp only [Option.map_some]
    rw [this dc]

-- non-vacuity: three replicas in two datacenters and one without datacenter; a node re-created in another datacenter
private def nA : Node := ⟨1, some "dc1", 0⟩
private def nB : Node := ⟨2, some "dc2", 1⟩
private def nC : Node := ⟨3, none, 2⟩
private def nA' : Node := ⟨1, some "dc2", 3⟩
private def trn (id : Nat) : Option Node := alGet id [(1, nA), (2, nB), (3, nC)]
example : dcReplicas (Tablet.fromRaw 1 5 [(1, 0), (2, 1), (9, 0), (3, 2), (1, 7)] trn) "dc1" = [(nA, 0), (nA, 7)] ∧
    dcReplicas (Tablet.fromRaw 1 5 [(1, 0), (2, 1), (9, 0), (3, 2), (1, 7)] trn) "dc3" = [] := by decide
example : dcReplicas (updateStale [(1, nA')] (Tablet.fromRaw 1 5 [(1, 0), (2, 1), (3, 2)] trn)) "dc2" = [(nA', 0), (nB, 1)] ∧
    dcReplicas (updateStale [(1, nA')] (Tablet.fromRaw 1 5 [(1, 0), (2, 1), (3, 2)] trn)) "dc1" = [] := by decide

/-! ### payload validation -/

private theorem collectReplicas_not_wrongrange (reps : List (Option (Nat × Int))) :
    collectReplicas reps ≠ .error .wrongrange := by
  induction reps with
  | nil => simp [collectReplicas]
  | cons x xs ih =>
    cases x with
    | none => simp [collectReplicas]
    | some p =>
      obtain ⟨id, shard⟩ := p
      simp only [collectReplicas]
      split
      · simp
      · cases hc : collectReplicas xs with
        | ok l => simp
        | error e =>
          simp only [ne_eq, Except.error.injEq]
          intro he; subst he; exact ih hc

/-- **payload_range**: an accepted payload `(a, b]` has `a < b` and becomes the tablet `[a+1, b]`; with `i64`
bounds the `+ 1` does not overflow, neither end is `i64::MIN` (so `Token::new` changes nothing) and the tablet is
a non-empty range — exactly the hypothesis `ValidHist` of the history theorems. -/
theorem payload_range (a b : Int) (reps : List (Option (Nat × Int))) (f l : Int) (r : List (Nat × Nat))
    (ha : i64Min ≤ a ∧ a ≤ i64Max) (hb : i64Min ≤ b ∧ b ≤ i64Max)
    (h : rawTabletCheck a b reps = .ok (f, l, r)) :
    a < b ∧ f = a + 1 ∧ l = b ∧ f ≤ l ∧ i64Min < f ∧ l ≤ i64Max ∧ a + 1 ≤ i64Max := by
  unfold rawTabletCheck at h
  by_cases hba : b ≤ a
  · simp [hba] at h
  · simp only [hba, if_false] at h
    cases hc : collectReplicas reps with
    | error e => simp [hc] at h
    | ok rl =>
      simp only [hc, Except.ok.injEq, Prod.mk.injEq] at h
      obtain ⟨h1, h2, _⟩ := h
      unfold tokenNew at h1 h2
      unfold i64Min i64Max at *
      split at h1 <;> split at h2 <;> omega

/-- rejected as a wrong range iff `b ≤ a` (checked before the replicas are looked at) -/
theorem payload_wrongrange_iff (a b : Int) (reps : List (Option (Nat × Int))) :
    rawTabletCheck a b reps = .error .wrongrange ↔ b ≤ a := by
  unfold rawTabletCheck
  by_cases hba : b ≤ a
  · simp [hba]
  · simp only [hba, if_false, iff_false]
    cases hc : collectReplicas reps with
    | error e =>
      simp only [Except.error.injEq]
      intro he; subst he; exact collectReplicas_not_wrongrange reps hc
    | ok rl => simp

/-- accepted iff the range is non-empty and every replica deserialises with a non-negative shard;
the replicas are then kept in order -/
theorem payload_accept_iff (a b : Int) (reps : List (Option (Nat × Int))) :
    (∃ v, rawTabletCheck a b reps = .ok v) ↔
      a < b ∧ ∀ x ∈ reps, ∃ id shard, x = some (id, shard) ∧ 0 ≤ shard := by
  have key : ∀ reps : List (Option (Nat × Int)), (∃ l, collectReplicas reps = .ok l) ↔
      ∀ x ∈ reps, ∃ id shard, x = some (id, shard) ∧ 0 ≤ shard := by
    intro reps
    induction reps with
    | nil => simp [collectReplicas]
    | cons x xs ih =>
      cases x with
      | none => simp [collectReplicas]
      | some p =>
        obtain ⟨id, shard⟩ := p
        simp only [collectReplicas, List.mem_cons, forall_eq_or_imp, Option.some.injEq, Prod.mk.injEq]
        by_cases hs : shard < 0
        · simp only [hs, if_true, reduceCtorEq, exists_false, false_iff, not_and]
          intro ⟨i, s, ⟨_, e⟩, h0⟩
          omega
        · simp only [hs, if_false]
          rw [← ih]
          constructor
          · rintro ⟨l, hl⟩
            refine ⟨⟨id, shard, ⟨rfl, rfl⟩, by omega⟩, ?_⟩
            cases hc : collectReplicas xs with
            | ok l' => exact ⟨l', rfl⟩
            | error e => simp [hc] at hl
          · rintro ⟨_, l, hl⟩
            exact ⟨(id, shard.toNat) :: l, by simp [hl]⟩
  unfold rawTabletCheck
  by_cases hba : b ≤ a
  · simp only [hba, if_true, reduceCtorEq, exists_false, false_iff, not_and]
    intro h; omega
  · simp only [hba, if_false]
    rw [← key]
    constructor
    · rintro ⟨v, hv⟩
      refine ⟨by omega, ?_⟩
      cases hc : collectReplicas reps with
      | ok l => exact ⟨l, rfl⟩
      | error e => simp [hc] at hv
    · rintro ⟨_, l, hl⟩
      exact ⟨(tokenNew (a + 1), tokenNew b, l), by simp [hl]⟩

example : rawTabletCheck (i64Max - 1) i64Max [some (7, 3), some (8, 0)] = .ok (i64Max, i64Max, [(7, 3), (8, 0)]) ∧
    rawTabletCheck i64Min (i64Min + 1) [] = .ok (i64Min + 1, i64Min + 1, []) ∧
    rawTabletCheck 5 5 [] = .error .wrongrange ∧ rawTabletCheck 6 5 [some (1, -1)] = .error .wrongrange ∧
    rawTabletCheck 1 5 [some (1, -1)] = .error .shardnum ∧ rawTabletCheck 1 5 [some (1, 0), none] = .error .deserialization :=
  ⟨rfl, rfl, rfl, rfl, rfl, rfl⟩

/-! ### `TabletsInfo`: every table keeps the invariant -/

def InfoInv (inf : Info) : Prop := ∀ e ∈ inf.tables, Inv e.2.tablets

inductive InfoOp where
  | insert (ks table : String) (t : Tablet)
  | maint (keyspaces : List (String × Bool × List String)) (removed : List Nat) (nodes recreated : List (Nat × Node))

def infoStep (inf : Info) : InfoOp → Info
  | .insert ks tb t => (inf.addTablet (ks, tb) t).1
  | .maint kss rm ns rc => inf.maintenance kss rm ns rc

private theorem mem_alSet {κ β : Type} [DecidableEq κ] (k : κ) (v : β) (m : List (κ × β)) :
    ∀ e ∈ alSet k v m, e = (k, v) ∨ e ∈ m := by
  induction m with
  | nil => intro e he; simp [alSet] at he; exact Or.inl he
  | cons x m ih =>
    obtain ⟨k', v'⟩ := x
    intro e he
    simp only [alSet] at he
    split at he
    · rcases List.mem_cons.mp he with rfl | h
      · exact Or.inl rfl
      · exact Or.inr (List.mem_cons_of_mem _ h)
    · rcases List.mem_cons.mp he with rfl | h
      · exact Or.inr List.mem_cons_self
      · rcases ih e h with r | r
        · exact Or.inl r
        · exact Or.inr (List.mem_cons_of_mem _ r)

private theorem alGet_mem {κ β : Type} [DecidableEq κ] (k : κ) (v : β) (m : List (κ × β)) (h : alGet k m = some v) :
    (k, v) ∈ m := by
  induction m with
  | nil => simp [alGet] at h
  | cons x m ih =>
    obtain ⟨k', v'⟩ := x
    simp only [alGet] at h
    split at h
    · rename_i hk
      cases h; subst hk; exact List.mem_cons_self
    · exact List.mem_cons_of_mem _ (ih h)

private theorem inv_empty : Inv Table.empty.tablets := by
  refine ⟨?_, List.Pairwise.nil⟩
  intro t ht
  simp [Table.empty] at ht

theorem info_inv_add (inf : Info) (h : InfoInv inf) (ks tb : String) (t : Tablet) (ht : t.first ≤ t.last) :
    InfoInv (inf.addTablet (ks, tb) t).1 ∧ (inf.addTablet (ks, tb) t).2 = true := by
  have hcur : Inv ((alGet (ks, tb) inf.tables).getD Table.empty).tablets := by
    cases hg : alGet (ks, tb) inf.tables with
    | none => exact inv_empty
    | some c => exact h _ (alGet_mem _ _ _ hg)
  have heq := addTabletList_eq _ t hcur ht
  constructor
  · intro e he
    simp only [Info.addTablet, Table.addTablet, heq] at he
    rcases mem_alSet _ _ _ e he with rfl | hm
    · exact inv_addTablet _ t hcur ht _ heq
    · exact h e hm
  · simp only [Info.addTablet, Table.addTablet, heq]

theorem info_inv_maint (inf : Info) (h : InfoInv inf) (kss : List (String × Bool × List String)) (rm : List Nat)
    (ns rc : List (Nat × Node)) : InfoInv (inf.maintenance kss rm ns rc) := by
  unfold Info.maintenance
  simp only []
  -- dropping tables keeps the others as they are
  have h1 : ∀ e ∈ inf.tables.filter (fun e =>
      match alGet e.1.1 kss with
      | none => false
      | some (tabletBased, tables) => tabletBased && tables.contains e.1.2), Inv e.2.tablets :=
    fun e he => h e (List.mem_filter.mp he).1
  generalize inf.tables.filter _ = kept at h1
  -- added entries are empty
  have inner : ∀ (ksn : String) (tbs : List String) (acc : List ((String × String) × Table)),
      (∀ e ∈ acc, Inv e.2.tablets) →
      ∀ e ∈ tbs.foldl (fun acc tb =>
        match alGet (ksn, tb) acc with
        | some _ => acc
        | none => acc ++ [((ksn, tb), Table.empty)]) acc, Inv e.2.tablets := by
    intro ksn tbs
    induction tbs with
    | nil => intro acc ha; exact ha
    | cons tb tbs ih =>
      intro acc ha
      simp only [List.foldl_cons]
      apply ih
      split
      · exact ha
      · intro e he
        rcases List.mem_append.mp he with hm | hm
        · exact ha e hm
        · simp only [List.mem_singleton] at hm
          subst hm; exact inv_empty
  have outer : ∀ (kl : List (String × Bool × List String)) (acc : List ((String × String) × Table)),
      (∀ e ∈ acc, Inv e.2.tablets) →
      ∀ e ∈ kl.foldl (fun acc ks =>
        if ks.2.1 then ks.2.2.foldl (fun acc tb =>
          match alGet (ks.1, tb) acc with
          | some _ => acc
          | none => acc ++ [((ks.1, tb), Table.empty)]) acc
        else acc) acc, Inv e.2.tablets := by
    intro kl
    induction kl with
    | nil => intro acc ha; exact ha
    | cons ks kl ih =>
      intro acc ha
      simp only [List.foldl_cons]
      apply ih
      split
      · exact inner ks.1 ks.2.2 acc ha
      · exact ha
  have h2 := outer kss kept h1
  generalize kss.foldl _ kept = withEmpty at h2
  split
  · intro e he
    obtain ⟨x, hx, rfl⟩ := List.mem_map.mp he
    exact inv_maintenance x.2 (h2 x hx) rm ns rc
  · exact h2

/-- **Every table of the `TabletsInfo` satisfies the invariant after every sequence** of learnt tablets and
maintenance steps (keyspaces dropped, re-created, switched away from tablets, …), and no insert panics. -/
theorem info_inv_run (ops : List InfoOp) (hv : ∀ ks tb t, InfoOp.insert ks tb t ∈ ops → t.first ≤ t.last) :
    InfoInv (ops.foldl infoStep Info.empty) := by
  have key : ∀ (rops : List InfoOp), (∀ ks tb t, InfoOp.insert ks tb t ∈ rops → t.first ≤ t.last) →
      InfoInv (rops.reverse.foldl infoStep Info.empty) := by
    intro rops
    induction rops with
    | nil => intro _ e he; cases he
    | cons op rops ih =>
      intro hv
      have ih' := ih (fun ks tb t hm => hv ks tb t (List.mem_cons_of_mem _ hm))
      simp only [List.reverse_cons, List.foldl_append, List.foldl_cons, List.foldl_nil]
      cases op with
      | insert ks tb t => exact (info_inv_add _ ih' ks tb t (hv ks tb t List.mem_cons_self)).1
      | maint kss rm ns rc => exact info_inv_maint _ ih' kss rm ns rc
  have := key ops.reverse (fun ks tb t hm => hv ks tb t (List.mem_reverse.mp hm))
  rwa [List.reverse_reverse] at this

example : ((Info.empty.addTablet ("ks", "t") (tb 1 5)).1.maintenance [("ks", true, ["t", "u"])] [] [] []).tables
    = [(("ks", "t"), ⟨[tb 1 5], false⟩), (("ks", "u"), Table.empty)] ∧
    ((Info.empty.addTablet ("ks", "t") (tb 1 5)).1.maintenance [("ks", false, ["t"])] [] [] []).tables = [] := by decide

/-! ### the payload bytes -/

private theorem beNat_foldl_lt (bs : List UInt8) : ∀ acc : Nat,
    bs.foldl (fun acc b => acc * 256 + b.toNat) acc < (acc + 1) * 256 ^ bs.length := by
  induction bs with
  | nil => intro acc; simp
  | cons b bs ih =>
    intro acc
    simp only [List.foldl_cons, List.length_cons]
    have hb : b.toNat < 256 := b.toNat_lt
    calc _ < (acc * 256 + b.toNat + 1) * 256 ^ bs.length := ih _
      _ ≤ ((acc + 1) * 256) * 256 ^ bs.length := Nat.mul_le_mul_right _ (by omega)
      _ = (acc + 1) * 256 ^ (bs.length + 1) := by rw [Nat.mul_assoc, Nat.pow_succ, Nat.mul_comm 256]

private theorem beInt_i64 (bs : List UInt8) (h : bs.length = 8) : i64Min ≤ beInt bs ∧ beInt bs ≤ i64Max := by
  have hlt : beNat bs < 256 ^ 8 := by
    have := beNat_foldl_lt bs 0
    simpa [beNat, h] using this
  unfold beInt i64Min i64Max
  simp only [h]
  have e1 : (2 : Nat) ^ (8 * 8 - 1) = 9223372036854775808 := by decide
  have e2 : (2 : Int) ^ (8 * 8) = 18446744073709551616 := by decide
  have e3 : (256 : Nat) ^ 8 = 18446744073709551616 := by decide
  rw [e1, e2]
  rw [e3] at hlt
  split <;> omega

private theorem fixedField_len {n : Nat} {c : Option (List UInt8)} {b : List UInt8} (h : fixedField n c = some b) :
    b.length = n := by
  unfold fixedField at h
  split at h
  · cases h
  · split at h
    · cases h; assumption
    · cases h

/-- **Everything `from_custom_payload` accepts is a non-empty range inside `(i64::MIN, i64::MAX]`** — the
hypothesis `ValidHist` of the history theorems holds for every tablet that can reach `add_tablet`. -/
theorem payload_bytes_valid (bs : List UInt8) (f l : Int) (r : List (Nat × Nat))
    (h : parsePayload bs = .ok (f, l, r)) : i64Min < f ∧ f ≤ l ∧ l ≤ i64Max := by
  unfold parsePayload at h
  split at h
  · cases h
  · split at h
    · cases h
    · rename_i a ha
      split at h
      · cases h
      · split at h
        · cases h
        · rename_i b hb
          have ba := beInt_i64 a (fixedField_len ha)
          have bb := beInt_i64 b (fixedField_len hb)
          split at h
          · cases h
          · have := payload_range _ _ _ f l r ba bb h
            omega
          · split at h
            · cases h
            · split at h
              · cases h
              · have := payload_range _ _ _ f l r ba bb h
                omega

-- non-vacuity: the cell `(1, 2, [(36857b24-…, 255)])` is accepted as the tablet `[2, 2]`; cut short it is rejected
example : (parsePayload [0, 0, 0, 8, 0, 0, 0, 0, 0, 0, 0, 1, 0, 0, 0, 8, 0, 0, 0, 0, 0, 0, 0, 2, 0, 0, 0, 36, 0, 0, 0, 1, 0, 0, 0, 28, 0, 0, 0, 16, 54, 133, 123, 36, 90, 117, 64, 51, 152, 235, 56, 8, 189, 92, 127, 106, 0, 0, 0, 4, 0, 0, 0, 255]).toOption
    = some (2, 2, [(72471384871161087268452217885046898538, 255)]) := by decide
example : (match parsePayload [0, 0, 0, 8, 0, 0, 0, 0, 0, 0, 0, 1, 0, 0, 0, 8, 0, 0, 0, 0, 0, 0, 0, 2, 0, 0, 0, 36, 0, 0, 0, 1, 0, 0, 0, 28, 0, 0, 0, 16, 54, 133, 123, 36, 90, 117, 64, 51, 152, 235, 56, 8, 189, 92, 127, 106, 0, 0, 0, 4, 0] with
    | .error .deserialization => true
    | _ => false) = true := by decide

/-! ### metadata refresh: `ClusterState::perform_tablets_maintenance` (`cluster/state.rs`) -/

section Refresh
open ScyllaVerif.TabletsRefresh

/-- every replica of the tablet is a host of the node map and *is* the `Node` object registered there -/
def Current (ns : List (Nat × Node)) (t : Tablet) : Prop :=
  ∀ p ∈ t.replicas.all, alGet p.1.hostId ns = some p.1

/-- the node map is keyed by the nodes' own host ids -/
def KeyOk (ns : List (Nat × Node)) : Prop := ∀ id n, alGet id ns = some n → n.hostId = id

private theorem alGet_nodesOf (k : Known) (id : Nat) : alGet id (nodesOf k) = (alGet id k).map (·.node) := by
  induction k with
  | nil => rfl
  | cons e k ih =>
    obtain ⟨k0, v⟩ := e
    simp only [nodesOf, List.map_cons, alGet] at ih ⊢
    split
    · rfl
    · exact ih

private theorem alGet_alSet {κ β : Type} [DecidableEq κ] (k k' : κ) (v : β) (m : List (κ × β)) :
    alGet k' (alSet k v m) = if k' = k then some v else alGet k' m := by
  induction m with
  | nil =>
    by_cases h : k' = k
    · subst h; simp [alSet, alGet]
    · have h' : ¬ k = k' := fun e => h e.symm
      simp [alSet, alGet, h, h']
  | cons e m ih =>
    obtain ⟨k0, v0⟩ := e
    by_cases h0 : k0 = k
    · subst h0
      by_cases h : k' = k0
      · subst h; simp [alSet, alGet]
      · have h' : ¬ k0 = k' := fun e => h e.symm
        simp [alSet, alGet, h, h']
    · by_cases h : k' = k
      · subst h
        simp only [alSet, h0, if_false, alGet, if_true]
        rw [ih]; simp
      · simp only [alSet, h0, if_false, alGet, h]
        rw [ih]; simp [h]

private theorem mem_resolveAll {tr : Nat → Option Node} {raw : List (Nat × Nat)} {p : Rep}
    (h : p ∈ resolveAll tr raw) : ∃ id, tr id = some p.1 := by
  simp only [resolveAll, List.mem_filterMap, Option.map_eq_some_iff] at h
  obtain ⟨r, _, n, hn, rfl⟩ := h
  exact ⟨r.1, hn⟩

private theorem resolveAll_current (ns : List (Nat × Node)) (hk : KeyOk ns) (raw : List (Nat × Nat)) :
    ∀ p ∈ resolveAll (fun id => alGet id ns) raw, alGet p.1.hostId ns = some p.1 := by
  intro p hp
  obtain ⟨id, hid⟩ := mem_resolveAll hp
  have := hk id p.1 hid
  rw [this]; exact hid

private theorem updateStale_eq_self (rc : List (Nat × Node)) (t : Tablet)
    (h : ∀ p ∈ t.replicas.all, ∀ n, alGet p.1.hostId rc = some n → n = p.1) : updateStale rc t = t := by
  have hany : t.replicas.all.any (isStaleRep rc) = false := by
    cases hx : t.replicas.all.any (isStaleRep rc)
    · rfl
    · obtain ⟨p, hp, hs⟩ := List.any_eq_true.mp hx
      unfold isStaleRep at hs
      cases hg : alGet p.1.hostId rc with
      | none => simp [hg] at hs
      | some n => have := h p hp n hg; simp [hg, this] at hs
  have hall : t.replicas.all.map (swapNode rc) = t.replicas.all := by
    have : ∀ p ∈ t.replicas.all, swapNode rc p = p := by
      intro p hp
      unfold swapNode
      cases hg : alGet p.1.hostId rc with
      | none => rfl
      | some n => have := h p hp n hg; simp only [this]
    calc t.replicas.all.map (swapNode rc) = t.replicas.all.map id := List.map_congr_left this
      _ = t.replicas.all := List.map_id _
  obtain ⟨f, l, ⟨all, perDc⟩, fl⟩ := t
  simp only [updateStale, hany, hall, Bool.false_eq_true, if_false] at *

/-- what `perform_tablets_maintenance` hands to `TabletsInfo::perform_maintenance`, as three facts -/
private structure Handed (old new rc : List (Nat × Node)) (rm : List Nat) : Prop where
  keyOk : KeyOk new
  notRemoved : ∀ id, (alGet id old).isSome → id ∉ rm → (alGet id new).isSome
  sameOrRecreated : ∀ id o n, alGet id old = some o → alGet id new = some n → n = o ∨ alGet id rc = some n
  recreatedIsNew : ∀ id n, alGet id rc = some n → alGet id new = some n

private theorem current_after_swap {old new rc : List (Nat × Node)} {rm : List Nat} (H : Handed old new rc rm)
    (t : Tablet) (hm : ∀ p ∈ t.replicas.all, alGet p.1.hostId new = some p.1 ∨ alGet p.1.hostId old = some p.1)
    (htr : touchesRemoved rm t = false) : Current new (updateStale rc t) := by
  intro q hq
  simp only [updateStale, List.mem_map] at hq
  obtain ⟨p, hp, rfl⟩ := hq
  unfold swapNode
  cases hg : alGet p.1.hostId rc with
  | some n =>
    have h1 := H.recreatedIsNew _ _ hg
    have h2 := H.keyOk _ _ h1
    simp only []
    rw [h2]; exact h1
  | none =>
    simp only []
    rcases hm p hp with h | h
    · exact h
    · have hnot : p.1.hostId ∉ rm := by
        intro hmem
        have : touchesRemoved rm t = true := by
          simp only [touchesRemoved, List.any_eq_true]
          exact ⟨p, hp, by simpa using hmem⟩
        rw [htr] at this; cases this
      have hsome := H.notRemoved _ (by rw [h]; rfl) hnot
      cases hn : alGet p.1.hostId new with
      | none => rw [hn] at hsome; cases hsome
      | some n =>
        rcases H.sameOrRecreated _ _ _ h hn with e | e
        · rw [e]
        · rw [hg] at e; cases e

private theorem table_maint_current {old new rc : List (Nat × Node)} {rm : List Nat} (H : Handed old new rc rm)
    (tbl : Table) (h : ∀ t ∈ tbl.tablets, Current old t) :
    ∀ u ∈ (tbl.maintenance rm new rc).tablets, Current new u := by
  unfold Table.maintenance
  simp only []
  have s1 : ∀ t ∈ (if tbl.hasUnknown = true then tbl.tablets.filterMap (reResolve (fun id => alGet id new)) else tbl.tablets),
      ∀ p ∈ t.replicas.all, alGet p.1.hostId new = some p.1 ∨ alGet p.1.hostId old = some p.1 := by
    split
    · intro t1 ht1 p hp
      obtain ⟨t, ht, e⟩ := List.mem_filterMap.mp ht1
      unfold reResolve at e
      cases hf : t.failed with
      | none =>
        simp only [hf, Option.some.injEq] at e
        subst e; exact Or.inr (h t ht p hp)
      | some raw =>
        simp only [hf, fromRawReplicas] at e
        by_cases hc : (resolveFailed (fun id => alGet id new) raw).isEmpty = true
        · simp only [hc, if_true, Option.some.injEq] at e
          subst e
          exact Or.inl (resolveAll_current new H.keyOk raw p hp)
        · simp [hc] at e
    · intro t ht p hp; exact Or.inr (h t ht p hp)
  generalize (if tbl.hasUnknown = true then tbl.tablets.filterMap (reResolve (fun id => alGet id new)) else tbl.tablets) = l1 at s1
  have s2 : ∀ t ∈ (if rm.isEmpty = true then l1 else l1.filter (fun t => !touchesRemoved rm t)),
      t ∈ l1 ∧ touchesRemoved rm t = false := by
    split
    · rename_i hr
      have : rm = [] := List.isEmpty_iff.mp hr
      subst this
      intro t ht; exact ⟨ht, touchesRemoved_nil t⟩
    · intro t ht
      obtain ⟨a, b⟩ := List.mem_filter.mp ht
      exact ⟨a, by simpa using b⟩
  generalize (if rm.isEmpty = true then l1 else l1.filter (fun t => !touchesRemoved rm t)) = l2 at s2
  split
  · rename_i hr
    have : rc = [] := List.isEmpty_iff.mp hr
    subst this
    intro u hu
    obtain ⟨a, b⟩ := s2 u hu
    have := current_after_swap H u (s1 u a) b
    rwa [updateStale_nil] at this
  · intro u hu
    obtain ⟨t2, ht2, rfl⟩ := List.mem_map.mp hu
    obtain ⟨a, b⟩ := s2 t2 ht2
    exact current_after_swap H t2 (s1 t2 a) b

private theorem table_maint_dcOk (rm : List Nat) (ns rc : List (Nat × Node)) (tbl : Table)
    (h : ∀ t ∈ tbl.tablets, DcOk t) : ∀ u ∈ (tbl.maintenance rm ns rc).tablets, DcOk u := by
  unfold Table.maintenance
  simp only []
  have s1 : ∀ t ∈ (if tbl.hasUnknown = true then tbl.tablets.filterMap (reResolve (fun id => alGet id ns)) else tbl.tablets), DcOk t := by
    split
    · intro t1 ht1
      obtain ⟨t, ht, e⟩ := List.mem_filterMap.mp ht1
      exact dcOk_reResolve (h t ht) e
    · exact h
  generalize (if tbl.hasUnknown = true then tbl.tablets.filterMap (reResolve (fun id => alGet id ns)) else tbl.tablets) = l1 at s1
  have s2 : ∀ t ∈ (if rm.isEmpty = true then l1 else l1.filter (fun t => !touchesRemoved rm t)), DcOk t := by
    split
    · exact s1
    · intro t ht; exact s1 t (List.mem_filter.mp ht).1
  generalize (if rm.isEmpty = true then l1 else l1.filter (fun t => !touchesRemoved rm t)) = l2 at s2
  split
  · exact s2
  · intro u hu
    obtain ⟨t2, ht2, rfl⟩ := List.mem_map.mp hu
    exact dcOk_updateStale rc (s2 t2 ht2)

/-- lifting a per-table fact through `TabletsInfo::perform_maintenance` (tables dropped, empty entries added,
per-table maintenance run or skipped) -/
private theorem info_maint_lift (Pold Pnew : Table → Prop) (rm : List Nat) (ns rc : List (Nat × Node))
    (hempty : Pold Table.empty) (hm : ∀ tbl, Pold tbl → Pnew (tbl.maintenance rm ns rc))
    (inf : Info) (hskip : rm = [] → rc = [] → inf.hasUnknown = false → ∀ tbl, Pold tbl → Pnew tbl)
    (h : ∀ e ∈ inf.tables, Pold e.2) (kss : List (String × Bool × List String)) :
    ∀ e ∈ (inf.maintenance kss rm ns rc).tables, Pnew e.2 := by
  have inner : ∀ (ksn : String) (tbs : List String) (acc : List ((String × String) × Table)),
      (∀ e ∈ acc, Pold e.2) →
      ∀ e ∈ tbs.foldl (fun acc tb =>
        match alGet (ksn, tb) acc with
        | some _ => acc
        | none => acc ++ [((ksn, tb), Table.empty)]) acc, Pold e.2 := by
    intro ksn tbs
    induction tbs with
    | nil => intro acc ha; exact ha
    | cons tb tbs ih =>
      intro acc ha
      simp only [List.foldl_cons]
      apply ih
      split
      · exact ha
      · intro e he
        rcases List.mem_append.mp he with hm' | hm'
        · exact ha e hm'
        · simp only [List.mem_singleton] at hm'
          subst hm'; exact hempty
  have outer : ∀ (kl : List (String × Bool × List String)) (acc : List ((String × String) × Table)),
      (∀ e ∈ acc, Pold e.2) →
      ∀ e ∈ kl.foldl (fun acc ks =>
        if ks.2.1 then ks.2.2.foldl (fun acc tb =>
          match alGet (ks.1, tb) acc with
          | some _ => acc
          | none => acc ++ [((ks.1, tb), Table.empty)]) acc
        else acc) acc, Pold e.2 := by
    intro kl
    induction kl with
    | nil => intro acc ha; exact ha
    | cons ks kl ih =>
      intro acc ha
      simp only [List.foldl_cons]
      apply ih
      split
      · exact inner ks.1 ks.2.2 acc ha
      · exact ha
  have h2 := outer kss (inf.tables.filter (fun e =>
      match alGet e.1.1 kss with
      | none => false
      | some (tabletBased, tables) => tabletBased && tables.contains e.1.2))
    (fun e he => h e (List.mem_filter.mp he).1)
  unfold Info.maintenance
  simp only []
  split
  · intro e he
    obtain ⟨x, hx, rfl⟩ := List.mem_map.mp he
    exact hm x.2 (h2 x hx)
  · rename_i hcond
    simp only [Bool.or_eq_true, Bool.not_eq_true', not_or, Bool.not_eq_false] at hcond
    have hr : rm = [] := List.isEmpty_iff.mp (by simpa using hcond.1.1)
    have hc : rc = [] := List.isEmpty_iff.mp (by simpa using hcond.1.2)
    have hu : inf.hasUnknown = false := by simpa using hcond.2
    intro e he
    exact hskip hr hc hu e.2 (h2 e he)

private theorem recreated_cons (k0 : Nat) (v : KNode) (old new : Known) :
    recreatedNodes ((k0, v) :: old) new =
      match alGet k0 new with
      | some n => if (n.node != v.node) = true then (k0, n.node) :: recreatedNodes old new else recreatedNodes old new
      | none => recreatedNodes old new := by
  simp only [recreatedNodes, List.filterMap_cons]
  cases alGet k0 new with
  | none => rfl
  | some n => by_cases h : (n.node != v.node) = true <;> simp [h]

private theorem handed (old new : Known) (hk : KeyOk (nodesOf new)) :
    Handed (nodesOf old) (nodesOf new) (recreatedNodes old new) (removedNodes old new) := by
  refine ⟨hk, ?_, ?_, ?_⟩
  · intro id hs hnot
    rw [alGet_nodesOf] at hs ⊢
    cases hn : alGet id new with
    | some n => rfl
    | none =>
      exfalso
      apply hnot
      simp only [removedNodes, List.mem_filter, List.mem_map]
      cases ho : alGet id old with
      | none => rw [ho] at hs; cases hs
      | some o => exact ⟨⟨(id, o), alGet_mem _ _ _ ho, rfl⟩, by simp [hn]⟩
  · intro id o n ho hn
    rw [alGet_nodesOf] at ho hn
    induction old with
    | nil => simp [alGet] at ho
    | cons e old ih =>
      obtain ⟨k0, v⟩ := e
      simp only [alGet] at ho
      rw [recreated_cons]
      by_cases hk0 : k0 = id
      · subst hk0
        simp only [if_true, Option.map_some, Option.some.injEq] at ho
        cases hnn : alGet k0 new with
        | none => rw [hnn] at hn; cases hn
        | some kn =>
          rw [hnn] at hn
          simp only [Option.map_some, Option.some.injEq] at hn
          by_cases hne : kn.node = v.node
          · left; rw [← hn, hne, ho]
          · right
            have hb : (n != v.node) = true := by rw [← hn]; simpa using hne
            simp only [hn, hb, if_true, alGet]
      · simp only [hk0, if_false] at ho
        rcases ih ho with r | r
        · exact Or.inl r
        · right
          cases hnn : alGet k0 new with
          | none => exact r
          | some kn =>
            by_cases hb : (kn.node != v.node) = true
            · simp only [hb, if_true, alGet, hk0, if_false]; exact r
            · simp only [hb]; exact r
  · intro id n hg
    rw [alGet_nodesOf]
    have hm := alGet_mem _ _ _ hg
    simp only [recreatedNodes, List.mem_filterMap] at hm
    obtain ⟨e, _, he⟩ := hm
    split at he
    · rename_i kn hkn
      split at he
      · cases he; rw [hkn]; rfl
      · cases he
    · cases he

private theorem keyOk_newTopology (old : Known) (gen : Nat) (peers : List Peer) (hk : KeyOk (nodesOf old)) :
    KeyOk (nodesOf (newTopology old gen peers).1) := by
  unfold newTopology
  have key : ∀ (ps : List Peer) (acc : Known × Nat), KeyOk (nodesOf acc.1) →
      KeyOk (nodesOf (ps.foldl (fun (acc : Known × Nat) p =>
        let r := nodeFor old acc.2 p
        (alSet p.hostId r.1 acc.1, r.2)) acc).1) := by
    intro ps
    induction ps with
    | nil => intro acc h; exact h
    | cons p ps ih =>
      intro acc h
      simp only [List.foldl_cons]
      apply ih
      intro id n hn
      rw [alGet_nodesOf, alGet_alSet] at hn
      by_cases hid : id = p.hostId
      · simp only [hid, if_true, Option.map_some, Option.some.injEq] at hn
        rw [hid, ← hn]
        have hold : ∀ kn, alGet p.hostId old = some kn → kn.node.hostId = p.hostId := by
          intro kn hkn
          apply hk p.hostId kn.node
          rw [alGet_nodesOf, hkn]; rfl
        unfold nodeFor
        simp only []
        split
        · rename_i kn hkn _
          split
          · exact hold kn (by assumption)
          · rfl
        · rename_i kn hkn _
          split
          · split
            · exact hold kn (by assumption)
            · rfl
          · rfl
        · rfl
      · simp only [hid, if_false] at hn
        apply h id n
        rw [alGet_nodesOf]; exact hn
  exact key peers ([], gen) (by intro id n hn; simp [nodesOf, alGet] at hn)

/-- the state invariant of the cluster state's tablet bookkeeping -/
def StateOk (cs : CState) : Prop :=
  KeyOk (nodesOf cs.known) ∧
  ∀ e ∈ cs.info.tables, ∀ t ∈ e.2.tablets, Current (nodesOf cs.known) t ∧ DcOk t

theorem stateOk_init : StateOk CState.init := by
  refine ⟨?_, ?_⟩
  · intro id n hn; simp [CState.init, nodesOf, alGet] at hn
  · intro e he; simp [CState.init, Info.empty] at he

/-- **After any metadata refresh** — old peers → new peers with arbitrary overlap: hosts removed, added, replaced
in one refresh (however the size of the node map changes), `Node` objects re-created because address,
datacenter or rack changed — **every replica of every tablet of every table is a host of the new
`known_nodes` and is the `Node` object registered there** (and the per-datacenter views stay restrictions). -/
theorem stateOk_refresh (cs : CState) (h : StateOk cs) (peers : List Peer) (kss : List (String × Bool × List String)) :
    StateOk (refresh cs peers kss) := by
  obtain ⟨hk, ht⟩ := h
  have hk' := keyOk_newTopology cs.known cs.gen peers hk
  refine ⟨hk', ?_⟩
  have H := handed cs.known (newTopology cs.known cs.gen peers).1 hk'
  intro e he t htm
  simp only [refresh, performTabletsMaintenance] at he
  constructor
  · have := info_maint_lift (fun tbl => ∀ t ∈ tbl.tablets, Current (nodesOf cs.known) t)
      (fun tbl => ∀ t ∈ tbl.tablets, Current (nodesOf (newTopology cs.known cs.gen peers).1) t)
      _ _ _ (by intro t ht'; simp [Table.empty] at ht')
      (fun tbl hp => table_maint_current H tbl hp)
      cs.info
      (by
        intro hr hc _ tbl hp u hu
        have hs := current_after_swap H u (fun p hpp => Or.inr (hp u hu p hpp)) (by rw [hr]; exact touchesRemoved_nil u)
        rw [hc, updateStale_nil] at hs
        exact hs)
      (fun e he t ht' => (ht e he t ht').1) kss e he
    exact this t htm
  · have := info_maint_lift (fun tbl => ∀ t ∈ tbl.tablets, DcOk t) (fun tbl => ∀ t ∈ tbl.tablets, DcOk t)
      (removedNodes cs.known (newTopology cs.known cs.gen peers).1) (nodesOf (newTopology cs.known cs.gen peers).1)
      (recreatedNodes cs.known (newTopology cs.known cs.gen peers).1)
      (by intro t ht'; simp [Table.empty] at ht')
      (fun tbl hp => table_maint_dcOk _ _ _ tbl hp)
      cs.info
      (fun _ _ _ tbl hp => hp)
      (fun e he t ht' => (ht e he t ht').2) kss e he
    exact this t htm

/-- learning a tablet (`update_tablets`) keeps the state invariant -/
theorem stateOk_learn (cs : CState) (h : StateOk cs) (spec : String × String) (first last : Int)
    (raw : List (Nat × Nat)) : StateOk (learn cs spec first last raw).1 := by
  obtain ⟨hk, ht⟩ := h
  refine ⟨hk, ?_⟩
  have hnew : Current (nodesOf cs.known) (Tablet.fromRaw first last raw (translator cs.known)) ∧
      DcOk (Tablet.fromRaw first last raw (translator cs.known)) := by
    refine ⟨?_, dc_restrict_fromRaw _ _ _ _⟩
    have : translator cs.known = fun id => alGet id (nodesOf cs.known) := by
      funext id; simp [translator, alGet_nodesOf]
    rw [this]
    intro p hp
    simp only [Tablet.fromRaw, fromRawReplicas] at hp
    exact resolveAll_current _ hk raw p hp
  intro e he t htm
  simp only [learn, Info.addTablet, Table.addTablet] at he
  have hcur : ∀ u ∈ ((alGet spec cs.info.tables).getD Table.empty).tablets,
      Current (nodesOf cs.known) u ∧ DcOk u := by
    cases hg : alGet spec cs.info.tables with
    | none => intro u hu; simp [Table.empty] at hu
    | some c => intro u hu; exact ht _ (alGet_mem _ _ _ hg) u hu
  split at he
  · rename_i l hl
    rcases mem_alSet _ _ _ e he with rfl | hm
    · simp only [addTabletList] at hl
      split at hl
      · cases hl
        rcases List.mem_append.mp htm with hx | hx
        · exact hcur t (List.mem_of_mem_take hx)
        · rcases List.mem_cons.mp hx with rfl | hx
          · exact hnew
          · exact hcur t (List.mem_of_mem_drop hx)
      · cases hl
    · exact ht e hm t htm
  · rcases mem_alSet _ _ _ e he with rfl | hm
    · exact hcur t htm
    · exact ht e hm t htm

inductive COp where
  | learn (ks table : String) (first last : Int) (raw : List (Nat × Nat))
  | refresh (peers : List Peer) (keyspaces : List (String × Bool × List String))

def cstep (cs : CState) : COp → CState
  | .learn ks tb f l raw => (learn cs (ks, tb) f l raw).1
  | .refresh peers kss => refresh cs peers kss

def crun (ops : List COp) : CState := ops.foldl cstep CState.init

theorem stateOk_run (ops : List COp) : StateOk (crun ops) := by
  have key : ∀ (ops : List COp) (cs : CState), StateOk cs → StateOk (ops.foldl cstep cs) := by
    intro ops
    induction ops with
    | nil => intro cs h; exact h
    | cons op ops ih =>
      intro cs h
      simp only [List.foldl_cons]
      apply ih
      cases op with
      | learn ks tb f l raw => exact stateOk_learn cs h (ks, tb) f l raw
      | refresh peers kss => exact stateOk_refresh cs h peers kss
  exact key ops _ stateOk_init

private theorem lookup_mem {xs : List Tablet} {tok : Int} {t : Tablet} (h : tabletForToken xs tok = some t) : t ∈ xs := by
  unfold tabletForToken at h
  simp only [] at h
  split at h
  · rename_i u hu
    split at h
    · cases h; exact List.mem_of_getElem? hu
    · cases h
  · cases h

/-- **No stale node is ever served**: after every history of learnt tablets and metadata refreshes, every
replica answered for any token of any table — in full or restricted to a datacenter — is a member of the current
`known_nodes` and the very `Node` object registered there. -/
theorem refresh_lookups_current (ops : List COp) (spec : String × String) (tbl : Table)
    (hm : (spec, tbl) ∈ (crun ops).info.tables) (tok : Int) :
    (∀ reps, replicasForToken tbl.tablets tok = some reps →
      ∀ p ∈ reps, alGet p.1.hostId (nodesOf (crun ops).known) = some p.1) ∧
    (∀ dc reps, dcReplicasForToken tbl.tablets tok dc = some reps →
      ∀ p ∈ reps, alGet p.1.hostId (nodesOf (crun ops).known) = some p.1 ∧ p.1.dc = some dc) := by
  have hs := (stateOk_run ops).2 (spec, tbl) hm
  constructor
  · intro reps hr p hp
    simp only [replicasForToken, Option.map_eq_some_iff] at hr
    obtain ⟨t, hl, rfl⟩ := hr
    exact (hs t (lookup_mem hl)).1 p hp
  · intro dc reps hr p hp
    simp only [dcReplicasForToken, Option.map_eq_some_iff] at hr
    obtain ⟨t, hl, rfl⟩ := hr
    obtain ⟨hc, hd⟩ := hs t (lookup_mem hl)
    rw [hd dc] at hp
    obtain ⟨a, b⟩ := List.mem_filter.mp hp
    exact ⟨hc p a, by simpa using b⟩

private theorem mem_foldl_empties (kss : List (String × Bool × List String)) :
    ∀ (acc : List ((String × String) × Table)) (e : (String × String) × Table), e ∈ acc →
      e ∈ kss.foldl (fun acc ks =>
        if ks.2.1 then ks.2.2.foldl (fun acc tb =>
          match alGet (ks.1, tb) acc with
          | some _ => acc
          | none => acc ++ [((ks.1, tb), Table.empty)]) acc
        else acc) acc := by
  induction kss with
  | nil => intro acc e he; exact he
  | cons ks kss ih =>
    intro acc e he
    simp only [List.foldl_cons]
    apply ih
    split
    · have inner : ∀ (tbs : List String) (acc : List ((String × String) × Table)), e ∈ acc →
          e ∈ tbs.foldl (fun acc tb =>
            match alGet (ks.1, tb) acc with
            | some _ => acc
            | none => acc ++ [((ks.1, tb), Table.empty)]) acc := by
        intro tbs
        induction tbs with
        | nil => intro acc h; exact h
        | cons tb tbs ih2 =>
          intro acc h
          simp only [List.foldl_cons]
          apply ih2
          split
          · exact h
          · exact List.mem_append_left _ h
      exact inner _ acc he
    · exact he

/-- **Tablets untouched by the refresh are preserved**: a fully resolved tablet all of whose replicas are still
hosts of the new `known_nodes` with the same `Node` object (none removed, none re-created), in a table that is
still a table of a tablet keyspace, is still in that table after the refresh. -/
theorem refresh_preserves_untouched (cs : CState) (peers : List Peer) (kss : List (String × Bool × List String))
    (ks tb : String) (tbl : Table) (t : Tablet)
    (hmem : ((ks, tb), tbl) ∈ cs.info.tables) (ht : t ∈ tbl.tablets)
    (hks : ∃ tables, alGet ks kss = some (true, tables) ∧ tables.contains tb = true)
    (hres : t.failed = none)
    (hun : ∀ p ∈ t.replicas.all, alGet p.1.hostId (nodesOf (refresh cs peers kss).known) = some p.1) :
    ∃ tbl', ((ks, tb), tbl') ∈ (refresh cs peers kss).info.tables ∧ t ∈ tbl'.tablets := by
  obtain ⟨tables, hk1, hk2⟩ := hks
  -- the table-level fact
  have htab : t ∈ (tbl.maintenance (removedNodes cs.known (newTopology cs.known cs.gen peers).1)
      (nodesOf (newTopology cs.known cs.gen peers).1) (recreatedNodes cs.known (newTopology cs.known cs.gen peers).1)).tablets := by
    have hun' : ∀ p ∈ t.replicas.all, alGet p.1.hostId (nodesOf (newTopology cs.known cs.gen peers).1) = some p.1 := hun
    generalize (newTopology cs.known cs.gen peers).1 = new at hun'
    unfold Table.maintenance
    simp only []
    have s1 : t ∈ (if tbl.hasUnknown = true then tbl.tablets.filterMap (reResolve (fun id => alGet id (nodesOf new))) else tbl.tablets) := by
      split
      · exact List.mem_filterMap.mpr ⟨t, ht, by simp [reResolve, hres]⟩
      · exact ht
    generalize (if tbl.hasUnknown = true then tbl.tablets.filterMap (reResolve (fun id => alGet id (nodesOf new))) else tbl.tablets) = l1 at s1
    have s2 : t ∈ (if (removedNodes cs.known new).isEmpty = true then l1 else l1.filter (fun t => !touchesRemoved (removedNodes cs.known new) t)) := by
      split
      · exact s1
      · refine List.mem_filter.mpr ⟨s1, ?_⟩
        cases htr : touchesRemoved (removedNodes cs.known new) t
        · rfl
        · exfalso
          simp only [touchesRemoved, List.any_eq_true] at htr
          obtain ⟨p, hp, hc⟩ := htr
          have hrm : p.1.hostId ∈ removedNodes cs.known new := by simpa using hc
          simp only [removedNodes, List.mem_filter] at hrm
          have := hun' p hp
          rw [alGet_nodesOf] at this
          cases hn : alGet p.1.hostId new with
          | none => rw [hn] at this; cases this
          | some n => rw [hn] at hrm; simp at hrm
    generalize (if (removedNodes cs.known new).isEmpty = true then l1 else l1.filter (fun t => !touchesRemoved (removedNodes cs.known new) t)) = l2 at s2
    split
    · exact s2
    · refine List.mem_map.mpr ⟨t, s2, ?_⟩
      apply updateStale_eq_self
      intro p hp n hg
      have hm := alGet_mem _ _ _ hg
      simp only [recreatedNodes, List.mem_filterMap] at hm
      obtain ⟨e, _, he⟩ := hm
      have hcur := hun' p hp
      rw [alGet_nodesOf] at hcur
      split at he
      · rename_i kn hkn
        split at he
        · simp only [Option.some.injEq, Prod.mk.injEq] at he
          obtain ⟨h1, h2⟩ := he
          rw [h1] at hkn
          rw [hkn] at hcur
          simp only [Option.map_some, Option.some.injEq] at hcur
          rw [← h2, hcur]
        · cases he
      · cases he
  simp only [refresh, performTabletsMaintenance, Info.maintenance]
  have hkept : ((ks, tb), tbl) ∈ cs.info.tables.filter (fun e =>
      match alGet e.1.1 kss with
      | none => false
      | some (tabletBased, tables) => tabletBased && tables.contains e.1.2) := by
    refine List.mem_filter.mpr ⟨hmem, ?_⟩
    simp only [hk1, hk2, Bool.and_self]
  have hwith := mem_foldl_empties kss _ _ hkept
  split
  · exact ⟨_, List.mem_map.mpr ⟨((ks, tb), tbl), hwith, rfl⟩, htab⟩
  · exact ⟨tbl, hwith, ht⟩

-- non-vacuity: host 2 is REPLACED by host 4 in one refresh (the node map keeps its size), host 3 changes its address
private def pr (id : Nat) (dc : String) (addr : Nat) : Peer := ⟨id, some dc, none, addr, false⟩
private def cs0 : CState := crun [.refresh [pr 1 "dc1" 0, pr 2 "dc1" 1, pr 3 "dc2" 2] [("k0", true, ["t0"])],
  .learn "k0" "t0" 0 5 [(1, 0), (3, 1)], .learn "k0" "t0" 6 9 [(2, 0), (3, 0)]]
private def cs1 : CState := refresh cs0 [pr 1 "dc1" 0, pr 4 "dc1" 1, pr 3 "dc2" 7] [("k0", true, ["t0"])]
example : (cs0.info.tables.map fun e => e.2.tablets.map fun t => (t.first, t.last, t.replicas.all.map fun p => (p.1.hostId, p.1.gen)))
    = [[(0, 5, [(1, 0), (3, 2)]), (6, 9, [(2, 1), (3, 2)])]] := by decide
example : removedNodes cs0.known cs1.known = [2] ∧ (recreatedNodes cs0.known cs1.known).map (·.1) = [3] ∧
    (cs1.info.tables.map fun e => e.2.tablets.map fun t => (t.first, t.last, t.replicas.all.map fun p => (p.1.hostId, p.1.gen)))
      = [[(0, 5, [(1, 0), (3, 4)])]] := by decide

end Refresh

/-! ### every table of the `TabletsInfo` is the run of its own sub-history (the table-level theorems lifted) -/

section Lift
open ScyllaVerif.TabletsRefresh

/-- No tablet of the table still waits for an unknown replica. -/
def AllResolved (tbl : Table) : Prop := ∀ t ∈ tbl.tablets, t.failed = none

/-- The flags of the tablet map are honest: a cleared `has_unknown_replicas` (of the whole map, of a table) means
that no tablet (of the map, of the table) has an unresolved replica.  This is what lets `perform_maintenance`
skip the per-table pass. -/
structure FlagsHonest (inf : Info) : Prop where
  tables : ∀ e ∈ inf.tables, FlagInv e.2
  whole : inf.hasUnknown = false → ∀ e ∈ inf.tables, AllResolved e.2

theorem flags_honest_empty : FlagsHonest Info.empty :=
  ⟨by intro e he; simp [Info.empty] at he, by intro _ e he; simp [Info.empty] at he⟩

private theorem addTablet_mem (tbl : Table) (new : Tablet) :
    ∀ t ∈ (tbl.addTablet new).1.tablets, t = new ∨ t ∈ tbl.tablets := by
  intro t ht
  unfold Table.addTablet at ht
  cases h : addTabletList tbl.tablets new with
  | none => rw [h] at ht; exact Or.inr ht
  | some l =>
    rw [h] at ht
    simp only [] at ht
    unfold addTabletList at h
    simp only [] at h
    split at h
    · cases h
      rcases List.mem_append.mp ht with hm | hm
      · exact Or.inr (List.mem_of_mem_take hm)
      · rcases List.mem_cons.mp hm with rfl | hm
        · exact Or.inl rfl
        · exact Or.inr (List.mem_of_mem_drop hm)
    · cases h

private theorem addTablet_flag (tbl : Table) (new : Tablet) :
    (tbl.addTablet new).1.hasUnknown = (tbl.hasUnknown || new.failed.isSome) := by
  unfold Table.addTablet
  cases addTabletList tbl.tablets new <;> rfl

private theorem flagInv_addTablet {tbl : Table} (h : FlagInv tbl) (new : Tablet) : FlagInv (tbl.addTablet new).1 := by
  intro hf t ht
  rw [addTablet_flag] at hf
  simp only [Bool.or_eq_false_iff] at hf
  rcases addTablet_mem tbl new t ht with rfl | hm
  · cases hn : t.failed with
    | none => rfl
    | some r => rw [hn] at hf; simp at hf
  · exact h hf.1 t hm

private theorem flagInv_empty : FlagInv Table.empty := by
  intro _ t ht; simp [Table.empty] at ht

/-- **Learning a tablet keeps the flags honest** (a tablet with an unknown replica raises both flags). -/
theorem learn_keeps_flags_honest {inf : Info} (h : FlagsHonest inf) (spec : String × String) (t : Tablet) :
    FlagsHonest (inf.addTablet spec t).1 := by
  have hcur : FlagInv ((alGet spec inf.tables).getD Table.empty) := by
    cases hg : alGet spec inf.tables with
    | none => exact flagInv_empty
    | some c => exact h.tables _ (alGet_mem _ _ _ hg)
  have hshape : (inf.addTablet spec t).1 =
      ⟨alSet spec (((alGet spec inf.tables).getD Table.empty).addTablet t).1 inf.tables,
        inf.hasUnknown || t.failed.isSome⟩ := rfl
  rw [hshape]
  refine ⟨?_, ?_⟩
  · intro e he
    rcases mem_alSet _ _ _ e he with rfl | hm
    · exact flagInv_addTablet hcur t
    · exact h.tables e hm
  · intro hf e he
    simp only [Bool.or_eq_false_iff] at hf
    rcases mem_alSet _ _ _ e he with rfl | hm
    · intro u hu
      rcases addTablet_mem _ t u hu with rfl | hm
      · cases hn : u.failed with
        | none => rfl
        | some r => rw [hn] at hf; simp at hf
      · cases hg : alGet spec inf.tables with
        | none => rw [hg] at hm; simp [Table.empty] at hm
        | some c =>
          rw [hg] at hm
          exact h.whole hf.1 _ (alGet_mem _ _ _ hg) u hm
    · exact h.whole hf.1 e hm

/-- **After `TabletsInfo::perform_maintenance` no tablet has a truncated replica list** and both flags are
cleared honestly — also when nothing was removed or re-created, because then `has_unknown_replicas` alone opens
the gate. -/
theorem refresh_resolves_all {inf : Info} (h : FlagsHonest inf) (kss : List (String × Bool × List String))
    (rm : List Nat) (ns rc : List (Nat × Node)) :
    (∀ e ∈ (inf.maintenance kss rm ns rc).tables, AllResolved e.2) ∧ FlagsHonest (inf.maintenance kss rm ns rc) := by
  have key : ∀ e ∈ (inf.maintenance kss rm ns rc).tables, AllResolved e.2 :=
    info_maint_lift (fun tbl => FlagInv tbl ∧ (inf.hasUnknown = false → AllResolved tbl)) AllResolved rm ns rc
      ⟨flagInv_empty, fun _ t ht => by simp [Table.empty] at ht⟩
      (by
        intro tbl hp t ht
        rw [(maintenance_eq_filterMap tbl hp.1 rm ns rc).1] at ht
        obtain ⟨u, _, hu⟩ := List.mem_filterMap.mp ht
        exact maintTablet_resolved hu)
      inf (fun _ _ hu tbl hp => hp.2 hu)
      (fun e he => ⟨h.tables e he, fun hu => h.whole hu e he⟩) kss
  exact ⟨key, ⟨fun e he _ => key e he, fun _ => key⟩⟩

/-- **Gate closed ⇒ nothing to do**: with nothing removed, nothing re-created and every tablet resolved (what an
honest, cleared flag says), the per-table pass that `perform_maintenance` skips would not have changed the tablets. -/
theorem table_pass_noop (tbl : Table) (h : AllResolved tbl) (ns : List (Nat × Node)) :
    (tbl.maintenance [] ns []).tablets = tbl.tablets := by
  have hflag : FlagInv tbl := fun _ => h
  rw [(maintenance_eq_filterMap tbl hflag [] ns []).1]
  have : tbl.tablets.filterMap (maintTablet [] ns []) = tbl.tablets.filterMap some := by
    apply filterMap_congr'
    intro t ht
    simp [maintTablet, reResolve, h t ht, touchesRemoved_nil, updateStale_nil]
  rw [this, List.filterMap_some]

/-! the three things `perform_maintenance` does to the table list, by key -/

private theorem alGet_append_single {κ β : Type} [DecidableEq κ] (k k' : κ) (v : β) (l : List (κ × β)) :
    alGet k (l ++ [(k', v)]) = match alGet k l with
      | some x => some x
      | none => if k' = k then some v else none := by
  induction l with
  | nil => simp [alGet]
  | cons e l ih =>
    obtain ⟨k0, v0⟩ := e
    simp only [List.cons_append, alGet]
    by_cases h : k0 = k
    · simp [h]
    · simp only [h, if_false]; exact ih

private theorem alGet_filter_key {κ β : Type} [DecidableEq κ] (q : κ → Bool) (k : κ) (l : List (κ × β)) :
    alGet k (l.filter (fun e => q e.1)) = if q k then alGet k l else none := by
  induction l with
  | nil => simp [alGet]
  | cons e l ih =>
    obtain ⟨k0, v0⟩ := e
    by_cases h : k0 = k
    · subst h
      cases hq : q k0 <;> simp [alGet, hq, ih]
    · cases hq : q k0 <;> simp [alGet, hq, h, ih]

private theorem alGet_map_val {κ β γ : Type} [DecidableEq κ] (f : β → γ) (k : κ) (l : List (κ × β)) :
    alGet k (l.map (fun e => (e.1, f e.2))) = (alGet k l).map f := by
  induction l with
  | nil => rfl
  | cons e l ih =>
    obtain ⟨k0, v0⟩ := e
    simp only [List.map_cons, alGet]
    split
    · rfl
    · exact ih

/-- is the table still a table of a tablet keyspace? -/
def keptBy (kss : List (String × Bool × List String)) (spec : String × String) : Bool :=
  match alGet spec.1 kss with
  | none => false
  | some (tabletBased, tables) => tabletBased && tables.contains spec.2

def addEntry (ksn : String) (acc : List ((String × String) × Table)) (tb : String) : List ((String × String) × Table) :=
  match alGet (ksn, tb) acc with
  | some _ => acc
  | none => acc ++ [((ksn, tb), Table.empty)]

def addKs (acc : List ((String × String) × Table)) (ks : String × Bool × List String) : List ((String × String) × Table) :=
  if ks.2.1 then ks.2.2.foldl (addEntry ks.1) acc else acc

/-- `TabletsInfo::perform_maintenance`, with its three phases named -/
theorem maintenance_unfold (inf : Info) (kss : List (String × Bool × List String)) (rm : List Nat)
    (ns rc : List (Nat × Node)) :
    inf.maintenance kss rm ns rc =
      ⟨if !rm.isEmpty || !rc.isEmpty || inf.hasUnknown then
          (kss.foldl addKs (inf.tables.filter (fun e => keptBy kss e.1))).map (fun e => (e.1, e.2.maintenance rm ns rc))
        else kss.foldl addKs (inf.tables.filter (fun e => keptBy kss e.1)), false⟩ := rfl

private theorem alGet_addEntry_some (spec : String × String) (ksn : String) (acc : List ((String × String) × Table))
    (tb : String) (x : Table) (h : alGet spec acc = some x) : alGet spec (addEntry ksn acc tb) = some x := by
  unfold addEntry
  split
  · exact h
  · rw [alGet_append_single, h]

private theorem alGet_addEntry_none (spec : String × String) (ksn : String) (acc : List ((String × String) × Table))
    (tb : String) (h : alGet spec acc = none) :
    alGet spec (addEntry ksn acc tb) = if (ksn, tb) = spec then some Table.empty else none := by
  unfold addEntry
  split
  · rename_i x hx
    have : ¬ (ksn, tb) = spec := by intro e; rw [e, h] at hx; cases hx
    simp [this, h]
  · rw [alGet_append_single, h]

private theorem alGet_addEntries_some (spec : String × String) (ksn : String) (tbs : List String) :
    ∀ (acc : List ((String × String) × Table)) (x : Table), alGet spec acc = some x →
      alGet spec (tbs.foldl (addEntry ksn) acc) = some x := by
  induction tbs with
  | nil => intro acc x h; exact h
  | cons tb tbs ih => intro acc x h; exact ih _ x (alGet_addEntry_some spec ksn acc tb x h)

private theorem alGet_addEntries_none (spec : String × String) (ksn : String) (tbs : List String) :
    ∀ (acc : List ((String × String) × Table)), alGet spec acc = none →
      alGet spec (tbs.foldl (addEntry ksn) acc) =
        if decide (ksn = spec.1) && tbs.contains spec.2 then some Table.empty else none := by
  induction tbs with
  | nil => intro acc h; simp [h]
  | cons tb tbs ih =>
    intro acc h
    simp only [List.foldl_cons]
    have h1 := alGet_addEntry_none spec ksn acc tb h
    by_cases e : (ksn, tb) = spec
    · rw [if_pos e] at h1
      rw [alGet_addEntries_some spec ksn tbs _ _ h1]
      subst e
      simp
    · rw [if_neg e] at h1
      rw [ih _ h1]
      obtain ⟨s1, s2⟩ := spec
      by_cases e1 : ksn = s1
      · subst e1
        have : ¬ tb = s2 := fun e2 => e (by rw [e2])
        have this' : ¬ s2 = tb := fun e2 => this e2.symm
        simp [this']
      · simp [e1]

private def addedBy (kss : List (String × Bool × List String)) (spec : String × String) : Bool :=
  kss.any (fun ks => ks.2.1 && (decide (ks.1 = spec.1) && ks.2.2.contains spec.2))

private theorem alGet_addKs_some (spec : String × String) (kss : List (String × Bool × List String)) :
    ∀ (acc : List ((String × String) × Table)) (x : Table), alGet spec acc = some x →
      alGet spec (kss.foldl addKs acc) = some x := by
  induction kss with
  | nil => intro acc x h; exact h
  | cons ks kss ih =>
    intro acc x h
    simp only [List.foldl_cons]
    apply ih
    unfold addKs
    split
    · exact alGet_addEntries_some spec ks.1 ks.2.2 acc x h
    · exact h

private theorem addedBy_cons (ks : String × Bool × List String) (kss : List (String × Bool × List String))
    (spec : String × String) :
    addedBy (ks :: kss) spec = ((ks.2.1 && (decide (ks.1 = spec.1) && ks.2.2.contains spec.2)) || addedBy kss spec) := by
  simp [addedBy]

private theorem alGet_addKs_none (spec : String × String) (kss : List (String × Bool × List String)) :
    ∀ (acc : List ((String × String) × Table)), alGet spec acc = none →
      alGet spec (kss.foldl addKs acc) = if addedBy kss spec then some Table.empty else none := by
  induction kss with
  | nil => intro acc h; simp [addedBy, h]
  | cons ks kss ih =>
    intro acc h
    simp only [List.foldl_cons]
    rw [addedBy_cons]
    cases hk : ks.2.1
    · have e1 : addKs acc ks = acc := by simp [addKs, hk]
      rw [e1, ih _ h]
      simp
    · have e1 : addKs acc ks = ks.2.2.foldl (addEntry ks.1) acc := by simp [addKs, hk]
      have h1 := alGet_addEntries_none spec ks.1 ks.2.2 acc h
      rw [e1]
      cases hc : (decide (ks.1 = spec.1) && ks.2.2.contains spec.2)
      · rw [hc] at h1
        simp only [Bool.false_eq_true, if_false] at h1
        rw [ih _ h1]
        simp
      · rw [hc] at h1
        simp only [if_true] at h1
        rw [alGet_addKs_some spec kss _ _ h1]
        simp

private theorem addedBy_eq_keptBy (kss : List (String × Bool × List String)) (hnd : (kss.map (·.1)).Nodup)
    (spec : String × String) : addedBy kss spec = keptBy kss spec := by
  induction kss with
  | nil => simp [addedBy, keptBy, alGet]
  | cons ks kss ih =>
    obtain ⟨kn, kb, kt⟩ := ks
    simp only [List.map_cons, List.nodup_cons] at hnd
    have ih' := ih hnd.2
    by_cases e : kn = spec.1
    · have hrest : addedBy kss spec = false := by
        simp only [addedBy, List.any_eq_false, Bool.and_eq_true, decide_eq_true_eq, not_and]
        intro x hx _ hx1
        exfalso
        apply hnd.1
        rw [e, ← hx1]
        exact List.mem_map.mpr ⟨x, hx, rfl⟩
      rw [addedBy_cons, hrest]
      simp [keptBy, alGet, e]
    · rw [addedBy_cons, ih']
      simp [keptBy, alGet, e]

/-- by key: what `perform_maintenance` leaves under `spec` -/
private theorem alGet_maintenance (inf : Info) (kss : List (String × Bool × List String))
    (hnd : (kss.map (·.1)).Nodup) (rm : List Nat) (ns rc : List (Nat × Node)) (spec : String × String) :
    alGet spec (inf.maintenance kss rm ns rc).tables =
      if keptBy kss spec then
        some (if !rm.isEmpty || !rc.isEmpty || inf.hasUnknown
          then ((alGet spec inf.tables).getD Table.empty).maintenance rm ns rc
          else (alGet spec inf.tables).getD Table.empty)
      else none := by
  rw [maintenance_unfold]
  have hbase : alGet spec (kss.foldl addKs (inf.tables.filter (fun e => keptBy kss e.1))) =
      if keptBy kss spec then some ((alGet spec inf.tables).getD Table.empty) else none := by
    have hf := alGet_filter_key (fun k => keptBy kss k) spec inf.tables
    cases hk : keptBy kss spec
    · rw [hk] at hf
      simp only [Bool.false_eq_true, if_false] at hf ⊢
      rw [alGet_addKs_none spec kss _ hf, addedBy_eq_keptBy kss hnd, hk]
      simp
    · rw [hk] at hf
      simp only [if_true] at hf ⊢
      cases hg : alGet spec inf.tables with
      | some x =>
        rw [hg] at hf
        rw [alGet_addKs_some spec kss _ x hf]; rfl
      | none =>
        rw [hg] at hf
        rw [alGet_addKs_none spec kss _ hf, addedBy_eq_keptBy kss hnd, hk]
        simp
  simp only []
  split
  · have hmv := alGet_map_val (fun t : Table => t.maintenance rm ns rc) spec
      (kss.foldl addKs (inf.tables.filter (fun e => keptBy kss e.1)))
    rw [hmv, hbase]
    cases keptBy kss spec <;> simp
  · rw [hbase]

/-- an operation on the tablet map as the table `spec` sees it: its own inserts, every maintenance step
while it stays a table of a tablet keyspace; a maintenance step that drops the table starts it afresh -/
def projStep (spec : String × String) (hist : List Op) : InfoOp → List Op
  | .insert ks tb t => if (ks, tb) = spec then hist ++ [.insert t] else hist
  | .maint kss rm ns rc => if keptBy kss spec then hist ++ [.maint rm ns rc] else []

def proj (spec : String × String) (ops : List InfoOp) : List Op := ops.foldl (projStep spec) []

def infoRun (ops : List InfoOp) : Info := ops.foldl infoStep Info.empty

/-- learnt tablets are non-empty ranges; the keyspaces of a refresh have distinct names (a `HashMap`) -/
def ValidInfoOps (ops : List InfoOp) : Prop :=
  (∀ ks tb t, InfoOp.insert ks tb t ∈ ops → t.first ≤ t.last) ∧
  (∀ kss rm ns rc, InfoOp.maint kss rm ns rc ∈ ops → (kss.map (·.1)).Nodup)

private theorem addTablet_tablets_congr (a b : Table) (h : a.tablets = b.tablets) (t : Tablet) :
    (a.addTablet t).1.tablets = (b.addTablet t).1.tablets := by
  unfold Table.addTablet
  rw [h]
  cases addTabletList b.tablets t <;> rfl

private theorem proj_valid (spec : String × String) (rops : List InfoOp)
    (hv : ∀ ks tb t, InfoOp.insert ks tb t ∈ rops → t.first ≤ t.last) : ValidHist (proj spec rops.reverse) := by
  induction rops with
  | nil => intro t ht; simp [proj] at ht
  | cons op rops ih =>
    have ih' := ih (fun ks tb t hm => hv ks tb t (List.mem_cons_of_mem _ hm))
    simp only [proj, List.reverse_cons, List.foldl_append, List.foldl_cons, List.foldl_nil]
    cases op with
    | insert ks tb t =>
      simp only [projStep]
      split
      · intro u hu
        rcases List.mem_append.mp hu with h | h
        · exact ih' u h
        · simp only [List.mem_singleton, Op.insert.injEq] at h
          subst h; exact hv ks tb u List.mem_cons_self
      · exact ih'
    | maint kss rm ns rc =>
      simp only [projStep]
      split
      · intro u hu
        rcases List.mem_append.mp hu with h | h
        · exact ih' u h
        · simp at h
      · intro u hu; cases hu

private theorem main_projection (rops : List InfoOp) (hv : ValidInfoOps rops.reverse) :
    FlagsHonest (infoRun rops.reverse) ∧
    ∀ spec : String × String,
      (alGet spec (infoRun rops.reverse).tables = none → proj spec rops.reverse = []) ∧
      (∀ tbl, alGet spec (infoRun rops.reverse).tables = some tbl →
        tbl.tablets = (run (proj spec rops.reverse)).tablets) := by
  induction rops with
  | nil =>
    refine ⟨flags_honest_empty, fun spec => ⟨fun _ => rfl, ?_⟩⟩
    intro tbl h; simp [infoRun, Info.empty, alGet] at h
  | cons op rops ih =>
    have hv' : ValidInfoOps rops.reverse := by
      refine ⟨fun ks tb t hm => hv.1 ks tb t ?_, fun kss rm ns rc hm => hv.2 kss rm ns rc ?_⟩ <;>
        simp only [List.reverse_cons, List.mem_append] <;> exact Or.inl hm
    obtain ⟨hfl, ihs⟩ := ih hv'
    have hrun : infoRun (op :: rops).reverse = infoStep (infoRun rops.reverse) op := by
      simp [infoRun, List.foldl_append]
    have hproj : ∀ spec, proj spec (op :: rops).reverse = projStep spec (proj spec rops.reverse) op := by
      intro spec; simp [proj, List.foldl_append]
    have hvh : ∀ spec, ValidHist (proj spec rops.reverse) := fun spec =>
      proj_valid spec rops (fun ks tb t hm => hv'.1 ks tb t (List.mem_reverse.mpr hm))
    rw [hrun]
    cases op with
    | insert ks tb t =>
      have ht : t.first ≤ t.last := hv.1 ks tb t (by simp)
      refine ⟨learn_keeps_flags_honest hfl (ks, tb) t, fun spec => ?_⟩
      rw [hproj spec]
      have htabs : (infoStep (infoRun rops.reverse) (.insert ks tb t)).tables =
          alSet (ks, tb) (((alGet (ks, tb) (infoRun rops.reverse).tables).getD Table.empty).addTablet t).1
            (infoRun rops.reverse).tables := rfl
      rw [htabs, alGet_alSet]
      by_cases e : spec = (ks, tb)
      · subst e
        simp only [if_true, projStep, reduceCtorEq, false_imp_iff, true_and, Option.some.injEq]
        intro tbl htbl
        subst htbl
        rw [run_snoc]
        simp only [step]
        apply addTablet_tablets_congr
        cases hg : alGet (ks, tb) (infoRun rops.reverse).tables with
        | none =>
          rw [(ihs (ks, tb)).1 hg]
          rfl
        | some c => exact (ihs (ks, tb)).2 c hg
      · have e' : ¬ (ks, tb) = spec := fun x => e x.symm
        simp only [e, if_false, projStep, e']
        exact ihs spec
    | maint kss rm ns rc =>
      have hnd : (kss.map (·.1)).Nodup := hv.2 kss rm ns rc (by simp)
      refine ⟨(refresh_resolves_all hfl kss rm ns rc).2, fun spec => ?_⟩
      rw [hproj spec]
      simp only [infoStep, projStep]
      rw [alGet_maintenance _ kss hnd]
      cases hk : keptBy kss spec
      · simp
      · simp only [if_true, reduceCtorEq, false_imp_iff, true_and, Option.some.injEq]
        intro tbl htbl
        subst htbl
        rw [run_snoc]
        simp only [step]
        -- the table before the step, and the run of its history
        have hcur : ((alGet spec (infoRun rops.reverse).tables).getD Table.empty).tablets
            = (run (proj spec rops.reverse)).tablets ∧
            FlagInv ((alGet spec (infoRun rops.reverse).tables).getD Table.empty) ∧
            ((infoRun rops.reverse).hasUnknown = false →
              AllResolved ((alGet spec (infoRun rops.reverse).tables).getD Table.empty)) := by
          cases hg : alGet spec (infoRun rops.reverse).tables with
          | none =>
            rw [(ihs spec).1 hg]
            exact ⟨rfl, flagInv_empty, fun _ t ht => by simp [Table.empty] at ht⟩
          | some c =>
            exact ⟨(ihs spec).2 c hg, hfl.tables _ (alGet_mem _ _ _ hg), fun hu => hfl.whole hu _ (alGet_mem _ _ _ hg)⟩
        obtain ⟨htab, hflag, hres⟩ := hcur
        have hflagr := flag_run _ (hvh spec)
        have hR : ((run (proj spec rops.reverse)).maintenance rm ns rc).tablets
            = (((alGet spec (infoRun rops.reverse).tables).getD Table.empty).maintenance rm ns rc).tablets := by
          rw [(maintenance_eq_filterMap _ hflagr rm ns rc).1, (maintenance_eq_filterMap _ hflag rm ns rc).1, htab]
        split
        · exact hR.symm
        · rename_i hgate
          simp only [Bool.or_eq_true, Bool.not_eq_true', not_or, Bool.not_eq_false] at hgate
          have hr : rm = [] := List.isEmpty_iff.mp (by simpa using hgate.1.1)
          have hc : rc = [] := List.isEmpty_iff.mp (by simpa using hgate.1.2)
          have hu : (infoRun rops.reverse).hasUnknown = false := by simpa using hgate.2
          subst hr; subst hc
          rw [hR, table_pass_noop _ (hres hu)]

/-- **Projection**: after every sequence of learnt tablets and maintenance steps on the tablet map — tables
dropped with their keyspace, empty entries created, the per-table pass skipped when the gate
`removed ∨ recreated ∨ has_unknown_replicas` is closed — every table of the map holds exactly the tablets of the
table-level run of its own valid sub-history.  Every table-level theorem therefore speaks about every table of
the map (`info_lookup_refines`, `info_dc_restrict`), and the flags are honest. -/
theorem info_projection (ops : List InfoOp) (hv : ValidInfoOps ops) (spec : String × String) (tbl : Table)
    (h : alGet spec (infoRun ops).tables = some tbl) :
    ValidHist (proj spec ops) ∧ tbl.tablets = (run (proj spec ops)).tablets ∧ FlagsHonest (infoRun ops) := by
  have hm := main_projection ops.reverse (by rwa [List.reverse_reverse])
  rw [List.reverse_reverse] at hm
  have hval := proj_valid spec ops.reverse (fun ks tb t hmem => hv.1 ks tb t (List.mem_reverse.mp hmem))
  rw [List.reverse_reverse] at hval
  exact ⟨hval, (hm.2 spec).2 tbl h, hm.1⟩

/-- latest-wins lookup, never stale — for every table of the tablet map -/
theorem info_lookup_refines (ops : List InfoOp) (hv : ValidInfoOps ops) (spec : String × String) (tbl : Table)
    (h : alGet spec (infoRun ops).tables = some tbl) (tok : Int) :
    tabletForToken tbl.tablets tok = lookupSpec (proj spec ops) tok ∧ Inv tbl.tablets := by
  obtain ⟨hvh, htab, _⟩ := info_projection ops hv spec tbl h
  rw [htab]
  exact ⟨lookup_refines _ hvh tok, inv_run _ hvh⟩

/-- per-datacenter replicas are the restriction of the full list — for every table of the tablet map -/
theorem info_dc_restrict (ops : List InfoOp) (hv : ValidInfoOps ops)
    (hdc : ∀ ks tb t, InfoOp.insert ks tb t ∈ ops → DcOk t)
    (spec : String × String) (tbl : Table) (h : alGet spec (infoRun ops).tables = some tbl) (tok : Int) (dc : String) :
    dcReplicasForToken tbl.tablets tok dc =
      (replicasForToken tbl.tablets tok).map (fun all => all.filter (fun p => decide (p.1.dc = some dc))) := by
  obtain ⟨hvh, htab, _⟩ := info_projection ops hv spec tbl h
  rw [htab]
  apply dc_restrict _ hvh
  -- every insert of the projection is an insert of the map's history
  have key : ∀ rops : List InfoOp, (∀ ks tb t, InfoOp.insert ks tb t ∈ rops → DcOk t) →
      ∀ t, Op.insert t ∈ proj spec rops.reverse → DcOk t := by
    intro rops
    induction rops with
    | nil => intro _ t ht; simp [proj] at ht
    | cons op rops ih =>
      intro hd t ht
      have ih' := ih (fun ks tb t hm => hd ks tb t (List.mem_cons_of_mem _ hm))
      simp only [proj, List.reverse_cons, List.foldl_append, List.foldl_cons, List.foldl_nil] at ht
      cases op with
      | insert ks tb u =>
        simp only [projStep] at ht
        split at ht
        · rcases List.mem_append.mp ht with hx | hx
          · exact ih' t hx
          · simp only [List.mem_singleton, Op.insert.injEq] at hx
            subst hx; exact hd ks tb t List.mem_cons_self
        · exact ih' t ht
      | maint kss rm ns rc =>
        simp only [projStep] at ht
        split at ht
        · rcases List.mem_append.mp ht with hx | hx
          · exact ih' t hx
          · simp at hx
        · cases ht
  have := key ops.reverse (fun ks tb t hm => hdc ks tb t (List.mem_reverse.mp hm))
  rwa [List.reverse_reverse] at this

/-! the cluster state's tablet map is the `TabletsInfo` run of the operations the refreshes compute -/

/-- the `TabletsInfo` operation a cluster-state operation amounts to, in the state it is applied to -/
def infoOpOf (cs : CState) : COp → InfoOp
  | .learn ks tb f l raw => .insert ks tb (Tablet.fromRaw f l raw (translator cs.known))
  | .refresh peers kss =>
    .maint kss (removedNodes cs.known (newTopology cs.known cs.gen peers).1)
      (nodesOf (newTopology cs.known cs.gen peers).1) (recreatedNodes cs.known (newTopology cs.known cs.gen peers).1)

def ctrace : List COp → CState → List InfoOp
  | [], _ => []
  | op :: ops, cs => infoOpOf cs op :: ctrace ops (cstep cs op)

theorem crun_info (ops : List COp) : (crun ops).info = infoRun (ctrace ops CState.init) := by
  have key : ∀ (ops : List COp) (cs : CState) (pre : List InfoOp), cs.info = infoRun pre →
      (ops.foldl cstep cs).info = infoRun (pre ++ ctrace ops cs) := by
    intro ops
    induction ops with
    | nil => intro cs pre h; simpa [ctrace] using h
    | cons op ops ih =>
      intro cs pre h
      simp only [List.foldl_cons, ctrace]
      have := ih (cstep cs op) (pre ++ [infoOpOf cs op]) (by
        simp only [infoRun, List.foldl_append, List.foldl_cons, List.foldl_nil]
        rw [← infoRun, ← h]
        cases op <;> rfl)
      simpa [List.append_assoc] using this
  have := key ops CState.init [] rfl
  simpa [crun] using this

/-- **The cluster level**: every table of the cluster state's tablet map, after any history of learnt tablets
(non-empty ranges) and metadata refreshes (distinct keyspace names), answers lookups latest-wins and never stale,
as the table-level specification of its own sub-history says. -/
theorem cluster_lookup_refines (ops : List COp)
    (hv1 : ∀ ks tb f l raw, COp.learn ks tb f l raw ∈ ops → f ≤ l)
    (hv2 : ∀ peers kss, COp.refresh peers kss ∈ ops → (kss.map (·.1)).Nodup)
    (spec : String × String) (tbl : Table) (h : alGet spec (crun ops).info.tables = some tbl) (tok : Int) :
    tabletForToken tbl.tablets tok = lookupSpec (proj spec (ctrace ops CState.init)) tok ∧ Inv tbl.tablets := by
  rw [crun_info] at h
  refine info_lookup_refines _ ?_ spec tbl h tok
  have key : ∀ (ops : List COp) (cs : CState),
      (∀ ks tb f l raw, COp.learn ks tb f l raw ∈ ops → f ≤ l) →
      (∀ peers kss, COp.refresh peers kss ∈ ops → (kss.map (·.1)).Nodup) → ValidInfoOps (ctrace ops cs) := by
    intro ops
    induction ops with
    | nil =>
      intro cs _ _
      constructor
      · intro ks tb t hm; simp [ctrace] at hm
      · intro kss rm ns rc hm; simp [ctrace] at hm
    | cons op ops ih =>
      intro cs h1 h2
      obtain ⟨i1, i2⟩ := ih (cstep cs op) (fun ks tb f l raw hm => h1 ks tb f l raw (List.mem_cons_of_mem _ hm))
        (fun peers kss hm => h2 peers kss (List.mem_cons_of_mem _ hm))
      constructor
      · intro ks tb t hm
        simp only [ctrace] at hm
        rcases List.mem_cons.mp hm with e | hm
        · cases op with
          | learn ks' tb' f l raw =>
            simp only [infoOpOf, InfoOp.insert.injEq] at e
            obtain ⟨_, _, rfl⟩ := e
            exact h1 ks' tb' f l raw List.mem_cons_self
          | refresh peers kss => simp [infoOpOf] at e
        · exact i1 ks tb t hm
      · intro kss rm ns rc hm
        simp only [ctrace] at hm
        rcases List.mem_cons.mp hm with e | hm
        · cases op with
          | learn ks' tb' f l raw => simp [infoOpOf] at e
          | refresh peers kss' =>
            simp only [infoOpOf, InfoOp.maint.injEq] at e
            obtain ⟨rfl, _⟩ := e
            exact h2 peers kss List.mem_cons_self
        · exact i2 kss rm ns rc hm
  exact key ops CState.init hv1 hv2

end Lift

/-! ### the specification in flat form: latest wins -/

/-- what one later operation does to a learnt tablet: an overlapping insert kills it, maintenance keeps
(and transforms) or discards it -/
def survStep (op : Op) (t : Tablet) : Option Tablet :=
  match op with
  | .insert u => if overlaps t u then none else some t
  | .maint rm ns rc => maintTablet rm ns rc t

def survive (t : Tablet) (later : List Op) : Option Tablet :=
  later.foldl (fun o op => o.bind (survStep op)) (some t)

/-- **Latest wins, positively**: if `insert t` occurs in the history, `t` covers the token, no later insert
overlaps it and every later maintenance step keeps it (`survive t later = some t'`, `t'` = `t` as maintained),
then the specification — hence, by `lookup_refines`, the lookup — answers `t'`. -/
theorem lookupSpec_latest_wins (older later : List Op) (t t' : Tablet) (tok : Int) (hc : covers tok t = true)
    (hs : survive t later = some t') : lookupSpec (older ++ .insert t :: later) tok = some t' := by
  have key : ∀ (rl : List Op) (t' : Tablet), survive t rl.reverse = some t' →
      (t'.first = t.first ∧ t'.last = t.last) ∧ lookupSpecRev (rl ++ .insert t :: older.reverse) tok = some t' := by
    intro rl
    induction rl with
    | nil =>
      intro t' h
      simp only [survive, List.reverse_nil, List.foldl_nil, Option.some.injEq] at h
      subst h
      exact ⟨⟨rfl, rfl⟩, by simp [lookupSpecRev, hc]⟩
    | cons op rl ih =>
      intro t' h
      simp only [survive, List.reverse_cons, List.foldl_append, List.foldl_cons, List.foldl_nil,
        Option.bind_eq_some_iff] at h
      obtain ⟨t1, h1, h2⟩ := h
      obtain ⟨hr, hl⟩ := ih t1 h1
      cases op with
      | insert u =>
        simp only [survStep] at h2
        split at h2
        · cases h2
        · rename_i hno
          simp only [Option.some.injEq] at h2
          subst h2
          refine ⟨hr, ?_⟩
          have hcu : covers tok u = false := by
            cases hx : covers tok u
            · rfl
            · exfalso
              apply hno
              simp only [covers, Bool.and_eq_true, decide_eq_true_eq] at hc hx
              simp only [overlaps, Bool.and_eq_true, decide_eq_true_eq]
              omega
          have hno' : overlaps t1 u = false := by simpa using hno
          simp [lookupSpecRev, hcu, hl, hno']
      | maint rm ns rc =>
        simp only [survStep] at h2
        have := maintTablet_range h2
        refine ⟨⟨by omega, by omega⟩, ?_⟩
        simp [lookupSpecRev, hl, h2]
  have := (key later.reverse t' (by rwa [List.reverse_reverse])).2
  simpa [lookupSpec] using this

/-- the same for the implementation's lookup -/
theorem lookup_latest_wins (older later : List Op) (t t' : Tablet) (tok : Int)
    (hv : ValidHist (older ++ .insert t :: later)) (hc : covers tok t = true) (hs : survive t later = some t') :
    tabletForToken (run (older ++ .insert t :: later)).tablets tok = some t' := by
  rw [lookup_refines _ hv]
  exact lookupSpec_latest_wins older later t t' tok hc hs

example : survive (tr 4 6 [1]) [.insert (tr 7 8 [2]), .maint [2] [(1, nd 1)] []] = some (tr 4 6 [1]) ∧
    survive (tr 6 9 [2]) [.insert (tr 4 6 [1])] = none := by decide

/-! ### one `update_tablets` call with a whole batch -/

section Batch
open ScyllaVerif.TabletsRefresh

/-- the single-tablet learn a batch item amounts to -/
def learnOf (it : RawItem) : COp := .learn it.1.1 it.1.2 it.2.1 it.2.2.1 it.2.2.2

/-- Unfolding of the model's `learnBatch` (a restatement of its definition, not a fact about the Rust): the
model of `update_tablets` is the fold of single learns over the batch, in order, with one translator — learning
does not touch `known_nodes`.  That the Rust loop really processes every item, in order, without skipping
repeated keys is what the `B` cases of the differential run check; what this buys is that every theorem about
histories of single learns speaks about batches (`brun_eq_crun`). -/
theorem learn_batch_eq_foldl (cs : CState) (batch : List RawItem) :
    (learnBatch cs batch).1 = batch.foldl (fun cs it => (learn cs it.1 it.2.1 it.2.2.1 it.2.2.2).1) cs := by
  obtain ⟨known, info, gen⟩ := cs
  have key : ∀ (batch : List RawItem) (inf : Info) (ok : Bool),
      (⟨known, (batch.foldl (learnItem (translator known)) (inf, ok)).1, gen⟩ : CState)
        = batch.foldl (fun cs it => (learn cs it.1 it.2.1 it.2.2.1 it.2.2.2).1) ⟨known, inf, gen⟩ := by
    intro batch
    induction batch with
    | nil => intro inf ok; rfl
    | cons it batch ih =>
      intro inf ok
      simp only [List.foldl_cons]
      have e1 : learnItem (translator known) (inf, ok) it =
          ((inf.addTablet it.1 (Tablet.fromRaw it.2.1 it.2.2.1 it.2.2.2 (translator known))).1,
            ok && (inf.addTablet it.1 (Tablet.fromRaw it.2.1 it.2.2.1 it.2.2.2 (translator known))).2) := rfl
      rw [e1, ih]
      rfl
  exact key batch info true

inductive BOp where
  /-- one `update_tablets` call -/
  | batch (items : List RawItem)
  | refresh (peers : List Peer) (keyspaces : List (String × Bool × List String))

def bstep (cs : CState) : BOp → CState
  | .batch items => (learnBatch cs items).1
  | .refresh peers kss => refresh cs peers kss

def brun (ops : List BOp) : CState := ops.foldl bstep CState.init

def flatten : List BOp → List COp
  | [] => []
  | .batch items :: rest => items.map learnOf ++ flatten rest
  | .refresh peers kss :: rest => .refresh peers kss :: flatten rest

/-- histories with batches are histories of single learns: every theorem about `crun` (`stateOk_run`,
`refresh_lookups_current`, `cluster_lookup_refines`, …) speaks about them -/
theorem brun_eq_crun (ops : List BOp) : brun ops = crun (flatten ops) := by
  have key : ∀ (ops : List BOp) (cs : CState), ops.foldl bstep cs = (flatten ops).foldl cstep cs := by
    intro ops
    induction ops with
    | nil => intro cs; rfl
    | cons op ops ih =>
      intro cs
      cases op with
      | batch items =>
        simp only [List.foldl_cons, flatten, List.foldl_append, List.foldl_map, bstep]
        rw [ih, learn_batch_eq_foldl]
        rfl
      | refresh peers kss =>
        simp only [List.foldl_cons, flatten, bstep]
        rw [ih]
        rfl
  exact key ops CState.init

private theorem flatten_learn_valid (ops : List BOp)
    (hv1 : ∀ items, BOp.batch items ∈ ops → ∀ it ∈ items, it.2.1 ≤ it.2.2.1) :
    ∀ ks tb f l raw, COp.learn ks tb f l raw ∈ flatten ops → f ≤ l := by
  induction ops with
  | nil => intro ks tb f l raw hm; simp [flatten] at hm
  | cons op ops ih =>
    have ih' := ih (fun items hmem => hv1 items (List.mem_cons_of_mem _ hmem))
    intro ks tb f l raw hm
    cases op with
    | batch items =>
      simp only [flatten, List.mem_append, List.mem_map] at hm
      rcases hm with ⟨it, hit, e⟩ | hm
      · simp only [learnOf, COp.learn.injEq] at e
        obtain ⟨_, _, rfl, rfl, _⟩ := e
        exact hv1 items List.mem_cons_self it hit
      · exact ih' ks tb f l raw hm
    | refresh peers kss =>
      simp only [flatten, List.mem_cons, reduceCtorEq, false_or] at hm
      exact ih' ks tb f l raw hm

private theorem flatten_refresh_valid (ops : List BOp)
    (hv2 : ∀ peers kss, BOp.refresh peers kss ∈ ops → (kss.map (·.1)).Nodup) :
    ∀ peers kss, COp.refresh peers kss ∈ flatten ops → (kss.map (·.1)).Nodup := by
  induction ops with
  | nil => intro peers kss hm; simp [flatten] at hm
  | cons op ops ih =>
    have ih' := ih (fun p k hmem => hv2 p k (List.mem_cons_of_mem _ hmem))
    intro peers kss hm
    cases op with
    | batch items =>
      simp only [flatten, List.mem_append, List.mem_map] at hm
      rcases hm with ⟨it, _, e⟩ | hm
      · simp [learnOf] at e
      · exact ih' peers kss hm
    | refresh peers' kss' =>
      simp only [flatten, List.mem_cons, COp.refresh.injEq] at hm
      rcases hm with ⟨rfl, rfl⟩ | hm
      · exact hv2 peers kss List.mem_cons_self
      · exact ih' peers kss hm

/-- latest wins, never stale — after every history of batches and refreshes, for every table -/
theorem batch_lookup_refines (ops : List BOp)
    (hv1 : ∀ items, BOp.batch items ∈ ops → ∀ it ∈ items, it.2.1 ≤ it.2.2.1)
    (hv2 : ∀ peers kss, BOp.refresh peers kss ∈ ops → (kss.map (·.1)).Nodup)
    (spec : String × String) (tbl : Table) (h : alGet spec (brun ops).info.tables = some tbl) (tok : Int) :
    tabletForToken tbl.tablets tok = lookupSpec (proj spec (ctrace (flatten ops) CState.init)) tok ∧ Inv tbl.tablets := by
  rw [brun_eq_crun] at h
  exact cluster_lookup_refines (flatten ops) (flatten_learn_valid ops hv1) (flatten_refresh_valid ops hv2) spec tbl h tok

-- non-vacuity: the same range twice in one batch (the later replica list wins), and A, B, A in one batch
private def bcs : CState := brun [.refresh [pr 1 "dc1" 0, pr 2 "dc1" 1, pr 3 "dc2" 2] [("k0", true, ["t0"])]]
private def sig (cs : CState) := cs.info.tables.map fun e =>
  e.2.tablets.map fun t => (t.first, t.last, t.replicas.all.map fun p => (p.1.hostId, p.2))
example : sig (learnBatch bcs [(("k0", "t0"), 0, 5, [(1, 0)]), (("k0", "t0"), 0, 5, [(2, 1)])]).1 = [[(0, 5, [(2, 1)])]] := by
  decide
example : sig (learnBatch bcs [(("k0", "t0"), 0, 5, [(1, 0)]), (("k0", "t0"), 3, 8, [(2, 0)]), (("k0", "t0"), 0, 5, [(1, 0)])]).1
    = [[(0, 5, [(1, 0)])]] := by decide

end Batch

/-! ### never stale, exactly -/

/-- **The specification in flat form, both directions**: if `insert t` covers the token and no later insert
covers it, the answer is `t` as the later operations left it (`survive`): `t` with its replicas as maintained,
or nothing if a later insert overlapped it or maintenance discarded it. -/
theorem lookupSpec_eq_survive (older later : List Op) (t : Tablet) (tok : Int) (hc : covers tok t = true)
    (hno : ∀ u, Op.insert u ∈ later → covers tok u = false) :
    lookupSpec (older ++ .insert t :: later) tok = survive t later := by
  have key : ∀ (rl : List Op), (∀ u, Op.insert u ∈ rl → covers tok u = false) →
      lookupSpecRev (rl ++ .insert t :: older.reverse) tok = survive t rl.reverse := by
    intro rl
    induction rl with
    | nil => intro _; simp [lookupSpecRev, hc, survive]
    | cons op rl ih =>
      intro h
      have ih' := ih (fun u hu => h u (List.mem_cons_of_mem _ hu))
      simp only [survive, List.reverse_cons, List.foldl_append, List.foldl_cons, List.foldl_nil] at ih' ⊢
      cases op with
      | insert u =>
        have hcu := h u List.mem_cons_self
        simp only [List.cons_append, lookupSpecRev, hcu, Bool.false_eq_true, if_false, ih']
        cases hs : List.foldl (fun o op => o.bind (survStep op)) (some t) rl.reverse with
        | none => simp
        | some v => simp [survStep]
      | maint rm ns rc =>
        simp only [List.cons_append, lookupSpecRev, ih']
        cases hs : List.foldl (fun o op => o.bind (survStep op)) (some t) rl.reverse with
        | none => simp
        | some v => simp [survStep]
  have := key later.reverse (fun u hu => hno u (List.mem_reverse.mp hu))
  simpa [lookupSpec] using this

/-- the same for the implementation's lookup -/
theorem lookup_eq_survive (older later : List Op) (t : Tablet) (tok : Int)
    (hv : ValidHist (older ++ .insert t :: later)) (hc : covers tok t = true)
    (hno : ∀ u, Op.insert u ∈ later → covers tok u = false) :
    tabletForToken (run (older ++ .insert t :: later)).tablets tok = survive t later := by
  rw [lookup_refines _ hv]
  exact lookupSpec_eq_survive older later t tok hc hno

private theorem exists_latest_cover (tok : Int) : ∀ (hist : List Op),
    (∃ t, Op.insert t ∈ hist ∧ covers tok t = true) →
    ∃ older t later, hist = older ++ .insert t :: later ∧ covers tok t = true ∧
      ∀ u, Op.insert u ∈ later → covers tok u = false := by
  intro hist
  induction hist with
  | nil => rintro ⟨t, ht, _⟩; cases ht
  | cons op rest ih =>
    intro h
    by_cases hr : ∃ t, Op.insert t ∈ rest ∧ covers tok t = true
    · obtain ⟨older, t, later, e, hc, hno⟩ := ih hr
      exact ⟨op :: older, t, later, by rw [e]; rfl, hc, hno⟩
    · obtain ⟨t, ht, hc⟩ := h
      rcases List.mem_cons.mp ht with e | ht'
      · refine ⟨[], t, rest, by rw [← e]; rfl, hc, ?_⟩
        intro u hu
        cases hx : covers tok u
        · rfl
        · exact absurd ⟨u, hu, hx⟩ hr
      · exact absurd ⟨t, ht', hc⟩ hr

/-- **Never stale, exactly**: whatever `tablet_for_token` answers after a valid history IS the latest insert
covering the token, as the later operations maintained it — same range, and its replicas are those of that
latest insert as re-resolved / swapped by the later maintenance steps (never those of an older insert of the same
range, never those of a tablet a later insert overlapped). -/
theorem lookup_answer_is_latest (hist : List Op) (hv : ValidHist hist) (tok : Int) (u : Tablet)
    (h : tabletForToken (run hist).tablets tok = some u) :
    ∃ older t later, hist = older ++ .insert t :: later ∧ covers tok t = true ∧
      (∀ w, Op.insert w ∈ later → covers tok w = false) ∧ survive t later = some u := by
  obtain ⟨h1, h2, t0, ht0, e1, e2⟩ := lookup_never_stale hist hv tok u h
  have hc0 : covers tok t0 = true := by simp [covers]; omega
  obtain ⟨older, t, later, e, hc, hno⟩ := exists_latest_cover tok hist ⟨t0, ht0, hc0⟩
  refine ⟨older, t, later, e, hc, hno, ?_⟩
  subst e
  rw [← lookup_eq_survive older later t tok hv hc hno]
  exact h

-- non-vacuity (the auditor's shape): the same range learnt twice with other replicas - the answer is the later one
example : tabletForToken (run [.insert (tr 0 9 [1]), .insert (tr 0 9 [2])]).tablets 5 = some (tr 0 9 [2]) ∧
    survive (tr 0 9 [2]) [] = some (tr 0 9 [2]) ∧ survive (tr 0 9 [1]) [.insert (tr 0 9 [2])] = none := by decide

/-! ### views, batches that cannot panic, and the cluster-level datacenter restriction -/

section Round2
open ScyllaVerif.TabletsRefresh

/-- **Materialized views are kept like tables**: after `perform_maintenance`, a table OR a view of a tablet-based
keyspace has an entry in the tablet map (its old tablets, maintained, or an empty entry) and everything else
has none. -/
theorem maintenanceKs_entry_iff (inf : Info) (kss : List KsMeta) (hnd : (kss.map (·.name)).Nodup)
    (rm : List Nat) (ns rc : List (Nat × Node)) (ks : KsMeta) (hks : ks ∈ kss) (name : String) :
    (alGet (ks.name, name) (inf.maintenanceKs kss rm ns rc).tables).isSome =
      (ks.tabletBased && (ks.tables.contains name || ks.views.contains name)) := by
  have hnd' : ((kss.map KsMeta.entry).map (·.1)).Nodup := by
    simpa [List.map_map, Function.comp_def, KsMeta.entry] using hnd
  have hget : alGet ks.name (kss.map KsMeta.entry) = some (ks.tabletBased, ks.tables ++ ks.views) := by
    clear hnd'
    induction kss with
    | nil => cases hks
    | cons k kss ih =>
      simp only [List.map_cons, List.nodup_cons] at hnd
      rcases List.mem_cons.mp hks with rfl | hm
      · simp [alGet, KsMeta.entry]
      · have hne : ¬ k.name = ks.name := by
          intro e
          apply hnd.1
          rw [e]
          exact List.mem_map.mpr ⟨ks, hm, rfl⟩
        simp only [List.map_cons, alGet, KsMeta.entry, hne, if_false]
        exact ih hnd.2 hm
  unfold Info.maintenanceKs
  rw [alGet_maintenance _ _ hnd']
  have hk : keptBy (kss.map KsMeta.entry) (ks.name, name)
      = (ks.tabletBased && (ks.tables.contains name || ks.views.contains name)) := by
    simp [keptBy, hget, List.contains_eq_mem, List.mem_append]
  rw [hk]
  cases (ks.tabletBased && (ks.tables.contains name || ks.views.contains name)) <;> simp

example : ((Info.empty.addTablet ("ks", "v") (tb 1 5)).1.maintenanceKs [⟨"ks", true, ["t"], ["v"]⟩] [] [] []).tables
    = [(("ks", "v"), ⟨[tb 1 5], false⟩), (("ks", "t"), Table.empty)] ∧
    ((Info.empty.addTablet ("ks", "v") (tb 1 5)).1.maintenanceKs [⟨"ks", true, ["t"], []⟩] [] [] []).tables
    = [(("ks", "t"), Table.empty)] := by decide

/-- What one maintenance pass leaves under `(ks.name, name)`, as a function of the NAME only: kept (and maintained
behind the gate) iff a table or a view of that name exists in the tablet-based keyspace of the schema the pass sees. -/
private theorem maintenanceKs_get (inf : Info) (kss : List KsMeta) (hnd : (kss.map (·.name)).Nodup)
    (rm : List Nat) (ns rc : List (Nat × Node)) (ks : KsMeta) (hks : ks ∈ kss) (name : String) :
    alGet (ks.name, name) (inf.maintenanceKs kss rm ns rc).tables =
      if (ks.tabletBased && (ks.tables.contains name || ks.views.contains name)) then
        some (if !rm.isEmpty || !rc.isEmpty || inf.hasUnknown
          then ((alGet (ks.name, name) inf.tables).getD Table.empty).maintenance rm ns rc
          else (alGet (ks.name, name) inf.tables).getD Table.empty)
      else none := by
  have hnd' : ((kss.map KsMeta.entry).map (·.1)).Nodup := by
    simpa [List.map_map, Function.comp_def, KsMeta.entry] using hnd
  have hget : alGet ks.name (kss.map KsMeta.entry) = some (ks.tabletBased, ks.tables ++ ks.views) := by
    clear hnd'
    induction kss with
    | nil => cases hks
    | cons k kss ih =>
      simp only [List.map_cons, List.nodup_cons] at hnd
      rcases List.mem_cons.mp hks with rfl | hm
      · simp [alGet, KsMeta.entry]
      · have hne : ¬ k.name = ks.name := by
          intro e
          apply hnd.1
          rw [e]
          exact List.mem_map.mpr ⟨ks, hm, rfl⟩
        simp only [List.map_cons, alGet, KsMeta.entry, hne, if_false]
        exact ih hnd.2 hm
  unfold Info.maintenanceKs
  rw [alGet_maintenance _ _ hnd']
  have hk : keptBy (kss.map KsMeta.entry) (ks.name, name)
      = (ks.tabletBased && (ks.tables.contains name || ks.views.contains name)) := by
    simp [keptBy, hget, List.contains_eq_mem, List.mem_append]
  rw [hk]

/-- **Table identity is the NAME (the limitation, made precise).** A table - or a materialized view - that is dropped
and re-created under the same name between two refreshes is seen by both refreshes as "a table / view of that name
exists" (`tablets.rs:617-629`; the code's own note at 605-607 concedes it for keyspaces): whatever the two schemas
`kss₁`, `kss₂` otherwise are, and whether the name is a table in one and a view in the other, every tablet learnt for
the OLD table survives both maintenance passes unchanged (no topology change), i.e. the new table answers with its
predecessor's tablets. The property's "nothing rather than stale data" therefore holds only for drops a refresh
observes (`dropped_table_seen_by_a_refresh_loses_tablets`). -/
theorem recreated_table_keeps_tablets (inf : Info) (hu : inf.hasUnknown = false)
    (kss₁ kss₂ : List KsMeta) (hnd₁ : (kss₁.map (·.name)).Nodup) (hnd₂ : (kss₂.map (·.name)).Nodup)
    (ns₁ ns₂ : List (Nat × Node)) (ks₁ ks₂ : KsMeta) (h₁ : ks₁ ∈ kss₁) (h₂ : ks₂ ∈ kss₂)
    (hname : ks₂.name = ks₁.name) (ht₁ : ks₁.tabletBased = true) (ht₂ : ks₂.tabletBased = true)
    (name : String) (hin₁ : name ∈ ks₁.tables ∨ name ∈ ks₁.views) (hin₂ : name ∈ ks₂.tables ∨ name ∈ ks₂.views)
    (old : Table) (hold : alGet (ks₁.name, name) inf.tables = some old) :
    alGet (ks₁.name, name) (inf.maintenanceKs kss₁ [] ns₁ []).tables = some old ∧
    alGet (ks₁.name, name) ((inf.maintenanceKs kss₁ [] ns₁ []).maintenanceKs kss₂ [] ns₂ []).tables = some old := by
  have e₁ : (ks₁.tabletBased && (ks₁.tables.contains name || ks₁.views.contains name)) = true := by
    rcases hin₁ with h | h <;> simp [ht₁, List.contains_eq_mem, h]
  have e₂ : (ks₂.tabletBased && (ks₂.tables.contains name || ks₂.views.contains name)) = true := by
    rcases hin₂ with h | h <;> simp [ht₂, List.contains_eq_mem, h]
  have s₁ : alGet (ks₁.name, name) (inf.maintenanceKs kss₁ [] ns₁ []).tables = some old := by
    rw [maintenanceKs_get inf kss₁ hnd₁ [] ns₁ [] ks₁ h₁ name, e₁, hold]
    simp [hu]
  refine ⟨s₁, ?_⟩
  have hu' : (inf.maintenanceKs kss₁ [] ns₁ []).hasUnknown = false := rfl
  rw [← hname, maintenanceKs_get _ kss₂ hnd₂ [] ns₂ [] ks₂ h₂ name, e₂, hname, s₁]
  simp [hu']

/-- **A drop that a refresh observes loses the tablets** (the positive twin): a refresh whose schema has the keyspace
but neither a table nor a view of that name removes the entry whatever it held, and a later refresh that sees the name
again (any topology change) starts it from the EMPTY table - nothing of the old table is ever answered again. -/
theorem dropped_table_seen_by_a_refresh_loses_tablets (inf : Info)
    (kss₁ kss₂ : List KsMeta) (hnd₁ : (kss₁.map (·.name)).Nodup) (hnd₂ : (kss₂.map (·.name)).Nodup)
    (rm₁ rm₂ : List Nat) (ns₁ rc₁ ns₂ rc₂ : List (Nat × Node)) (ks₁ ks₂ : KsMeta) (h₁ : ks₁ ∈ kss₁) (h₂ : ks₂ ∈ kss₂)
    (hname : ks₂.name = ks₁.name) (ht₂ : ks₂.tabletBased = true)
    (name : String) (hout : name ∉ ks₁.tables ∧ name ∉ ks₁.views) (hin₂ : name ∈ ks₂.tables ∨ name ∈ ks₂.views) :
    alGet (ks₁.name, name) (inf.maintenanceKs kss₁ rm₁ ns₁ rc₁).tables = none ∧
    alGet (ks₁.name, name) ((inf.maintenanceKs kss₁ rm₁ ns₁ rc₁).maintenanceKs kss₂ rm₂ ns₂ rc₂).tables
      = some Table.empty := by
  have e₁ : (ks₁.tabletBased && (ks₁.tables.contains name || ks₁.views.contains name)) = false := by
    simp [List.contains_eq_mem, hout.1, hout.2]
  have e₂ : (ks₂.tabletBased && (ks₂.tables.contains name || ks₂.views.contains name)) = true := by
    rcases hin₂ with h | h <;> simp [ht₂, List.contains_eq_mem, h]
  have s₁ : alGet (ks₁.name, name) (inf.maintenanceKs kss₁ rm₁ ns₁ rc₁).tables = none := by
    rw [maintenanceKs_get inf kss₁ hnd₁ rm₁ ns₁ rc₁ ks₁ h₁ name, e₁]
    simp
  refine ⟨s₁, ?_⟩
  have hempty : Table.empty.maintenance rm₂ ns₂ rc₂ = Table.empty := by
    simp [Table.maintenance, Table.empty]
  rw [← hname, maintenanceKs_get _ kss₂ hnd₂ rm₂ ns₂ rc₂ ks₂ h₂ name, e₂, hname, s₁]
  simp only [if_true, Option.getD_none, hempty, ite_self]

-- non-vacuity: `t` dropped and re-created as a table, `v` dropped as a view and re-created as a TABLE, both unseen:
-- the old tablets are still there; seen by a refresh (schema without the name): gone, and empty when the name returns
example :
    let inf := ((Info.empty.addTablet ("ks", "t") (tb 1 5)).1.addTablet ("ks", "v") (tb 7 9)).1
    ((inf.maintenanceKs [⟨"ks", true, ["t"], ["v"]⟩] [] [] []).maintenanceKs [⟨"ks", true, ["t", "v"], []⟩] [] [] []).tables
      = [(("ks", "t"), ⟨[tb 1 5], false⟩), (("ks", "v"), ⟨[tb 7 9], false⟩)] ∧
    ((inf.maintenanceKs [⟨"ks", true, ["t"], []⟩] [] [] []).maintenanceKs [⟨"ks", true, ["t"], ["v"]⟩] [] [] []).tables
      = [(("ks", "t"), ⟨[tb 1 5], false⟩), (("ks", "v"), Table.empty)] := by decide

/-- **No item of a batch panics** on a well-formed tablet map when every item is a non-empty range — so the
model's fold (which would go on after a panic) and the Rust loop (which is unwound by it) never differ on what
`from_custom_payload` can produce. -/
theorem learnBatch_no_panic (cs : CState) (h : InfoInv cs.info) (batch : List RawItem)
    (hv : ∀ it ∈ batch, it.2.1 ≤ it.2.2.1) :
    (learnBatch cs batch).2 = true ∧ InfoInv (learnBatch cs batch).1.info := by
  have key : ∀ (batch : List RawItem) (inf : Info), InfoInv inf → (∀ it ∈ batch, it.2.1 ≤ it.2.2.1) →
      (batch.foldl (learnItem (translator cs.known)) (inf, true)).2 = true ∧
      InfoInv (batch.foldl (learnItem (translator cs.known)) (inf, true)).1 := by
    intro batch
    induction batch with
    | nil => intro inf hi _; exact ⟨rfl, hi⟩
    | cons it batch ih =>
      intro inf hi hv
      simp only [List.foldl_cons]
      have hit : (Tablet.fromRaw it.2.1 it.2.2.1 it.2.2.2 (translator cs.known)).first
          ≤ (Tablet.fromRaw it.2.1 it.2.2.1 it.2.2.2 (translator cs.known)).last := hv it List.mem_cons_self
      obtain ⟨a, b⟩ := info_inv_add inf hi it.1.1 it.1.2 _ hit
      have e1 : learnItem (translator cs.known) (inf, true) it =
          ((inf.addTablet it.1 (Tablet.fromRaw it.2.1 it.2.2.1 it.2.2.2 (translator cs.known))).1, true) := by
        simp only [learnItem, Bool.true_and]
        rw [show ((it.1.1, it.1.2) : String × String) = it.1 from rfl] at b
        rw [b]
      rw [e1]
      exact ih _ a (fun x hx => hv x (List.mem_cons_of_mem _ hx))
  exact key batch cs.info h hv

/-- the tablet map of every state reached by batches and refreshes is well-formed (so `learnBatch_no_panic` applies
to every `update_tablets` call of a history of non-empty ranges) -/
theorem infoInv_brun (ops : List BOp) (hv : ∀ items, BOp.batch items ∈ ops → ∀ it ∈ items, it.2.1 ≤ it.2.2.1) :
    InfoInv (brun ops).info := by
  have key : ∀ (ops : List BOp) (cs : CState), InfoInv cs.info →
      (∀ items, BOp.batch items ∈ ops → ∀ it ∈ items, it.2.1 ≤ it.2.2.1) → InfoInv (ops.foldl bstep cs).info := by
    intro ops
    induction ops with
    | nil => intro cs h _; exact h
    | cons op ops ih =>
      intro cs h hv
      simp only [List.foldl_cons]
      apply ih
      · cases op with
        | batch items => exact (learnBatch_no_panic cs h items (hv items List.mem_cons_self)).2
        | refresh peers kss => exact info_inv_maint cs.info h kss _ _ _
      · exact fun items hm => hv items (List.mem_cons_of_mem _ hm)
  exact key ops CState.init (by intro e he; simp [CState.init, Info.empty] at he) hv

/-- **Datacenter restriction at the cluster level**, as an equality: for every table of the tablet map of every
state reached by learns and refreshes. -/
theorem cluster_dc_restrict (ops : List COp) (spec : String × String) (tbl : Table)
    (hm : (spec, tbl) ∈ (crun ops).info.tables) (tok : Int) (dc : String) :
    dcReplicasForToken tbl.tablets tok dc =
      (replicasForToken tbl.tablets tok).map (fun all => all.filter (fun p => decide (p.1.dc = some dc))) := by
  have hs := (stateOk_run ops).2 (spec, tbl) hm
  unfold dcReplicasForToken replicasForToken
  cases h : tabletForToken tbl.tablets tok with
  | none => rfl
  | some t =>
    simp only [Option.map_some]
    rw [(hs t (lookup_mem h)).2 dc]

/-- the same through the locator's tablet branch (`replicas_for_token` of `locator/mod.rs`) -/
theorem locator_dc_restrict (ops : List COp) (spec : String × String) (tok : Int) (dc : String) :
    locatorTabletReplicas (crun ops).info spec tok (some dc) =
      (locatorTabletReplicas (crun ops).info spec tok none).map
        (fun all => all.filter (fun p => decide (p.1.dc = some dc))) := by
  unfold locatorTabletReplicas
  cases hg : alGet spec (crun ops).info.tables with
  | none => rfl
  | some tbl =>
    simp only [Option.map_some]
    rw [cluster_dc_restrict ops spec tbl (alGet_mem _ _ _ hg) tok dc]
    cases replicasForToken tbl.tablets tok <;> simp

end Round2

/-! ### keyspaces whose fetch failed (`resolve_metadata_keyspaces`) -/

section Resolve
open ScyllaVerif.TabletsRefresh

/-- the fetch result is a map by keyspace name, and a fetched keyspace carries its own name -/
def WfFetched (fetched : List (String × Option KsMeta)) : Prop :=
  (fetched.map (·.1)).Nodup ∧ ∀ e ∈ fetched, ∀ k, e.2 = some k → k.name = e.1

private theorem mem_resolve {fetched : List (String × Option KsMeta)} {old : List KsMeta} {k : KsMeta}
    (h : k ∈ resolveKeyspaces fetched old) :
    ∃ e ∈ fetched, e.2 = some k ∨ (e.2 = none ∧ old.find? (fun x => x.name == e.1) = some k) := by
  simp only [resolveKeyspaces, List.mem_filterMap] at h
  obtain ⟨e, he, hk⟩ := h
  refine ⟨e, he, ?_⟩
  unfold resolveOne at hk
  cases h2 : e.2 with
  | none => rw [h2] at hk; exact Or.inr ⟨rfl, hk⟩
  | some x => rw [h2] at hk; simp only [Option.some.injEq] at hk; subst hk; exact Or.inl rfl

private theorem resolve_name {fetched : List (String × Option KsMeta)} (hw : WfFetched fetched) {old : List KsMeta}
    {k : KsMeta} (h : k ∈ resolveKeyspaces fetched old) : ∃ e ∈ fetched, k.name = e.1 := by
  obtain ⟨e, he, h1 | ⟨_, h2⟩⟩ := mem_resolve h
  · exact ⟨e, he, hw.2 e he k h1⟩
  · have := List.find?_some h2
    exact ⟨e, he, by simpa using this⟩

private theorem nodup_key_unique {α β : Type} (l : List (α × β)) (hnd : (l.map (·.1)).Nodup) (a b : α × β)
    (ha : a ∈ l) (hb : b ∈ l) (hk : a.1 = b.1) : a = b := by
  induction l with
  | nil => cases ha
  | cons x rest ih =>
    simp only [List.map_cons, List.nodup_cons] at hnd
    rcases List.mem_cons.mp ha with rfl | ha' <;> rcases List.mem_cons.mp hb with rfl | hb'
    · rfl
    · exact absurd (List.mem_map.mpr ⟨b, hb', hk.symm⟩) hnd.1
    · exact absurd (List.mem_map.mpr ⟨a, ha', hk⟩) hnd.1
    · exact ih hnd.2 ha' hb'

/-- the resolved keyspaces are again a map by name -/
theorem resolve_nodup (fetched : List (String × Option KsMeta)) (hw : WfFetched fetched) (old : List KsMeta) :
    ((resolveKeyspaces fetched old).map (·.name)).Nodup := by
  induction fetched with
  | nil => simp [resolveKeyspaces]
  | cons e rest ih =>
    obtain ⟨hnd, hwf⟩ := hw
    simp only [List.map_cons, List.nodup_cons] at hnd
    have hw' : WfFetched rest := ⟨hnd.2, fun x hx => hwf x (List.mem_cons_of_mem _ hx)⟩
    have ih' := ih hw'
    cases hg : resolveOne old e with
    | none =>
      have : resolveKeyspaces (e :: rest) old = resolveKeyspaces rest old := by
        simp only [resolveKeyspaces, List.filterMap_cons, hg]
      rw [this]; exact ih'
    | some k =>
      have hc : resolveKeyspaces (e :: rest) old = k :: resolveKeyspaces rest old := by
        simp only [resolveKeyspaces, List.filterMap_cons, hg]
      rw [hc]
      have hname : k.name = e.1 := by
        unfold resolveOne at hg
        cases h2 : e.2 with
        | some x =>
          rw [h2] at hg; simp only [Option.some.injEq] at hg; subst hg
          exact hwf e List.mem_cons_self x h2
        | none =>
          rw [h2] at hg
          simpa using List.find?_some hg
      simp only [List.map_cons, List.nodup_cons]
      refine ⟨?_, ih'⟩
      intro hmem
      obtain ⟨k', hk', e1⟩ := List.mem_map.mp hmem
      obtain ⟨e', he', e2⟩ := resolve_name hw' hk'
      apply hnd.1
      rw [← hname, ← e1, e2]
      exact List.mem_map.mpr ⟨e', he', rfl⟩

/-- what a refresh leaves in the tablet map is decided by the resolved keyspaces: a table or view of a resolved
tablet-based keyspace has an entry … -/
theorem refreshFetched_entry_iff (cs : CState) (peers : List Peer) (fetched : List (String × Option KsMeta))
    (hw : WfFetched fetched) (old : List KsMeta) (k : KsMeta) (hk : k ∈ resolveKeyspaces fetched old) (name : String) :
    (alGet (k.name, name) (refreshFetched cs peers fetched old).info.tables).isSome =
      (k.tabletBased && (k.tables.contains name || k.views.contains name)) :=
  maintenanceKs_entry_iff cs.info _ (resolve_nodup fetched hw old) _ _ _ k hk name

/-- … and a keyspace that is not among the resolved ones has none of its tables in the tablet map -/
theorem refreshFetched_absent (cs : CState) (peers : List Peer) (fetched : List (String × Option KsMeta))
    (hw : WfFetched fetched) (old : List KsMeta) (n : String)
    (h : ∀ k ∈ resolveKeyspaces fetched old, k.name ≠ n) (tb : String) :
    alGet (n, tb) (refreshFetched cs peers fetched old).info.tables = none := by
  have hnd' : (((resolveKeyspaces fetched old).map KsMeta.entry).map (·.1)).Nodup := by
    simpa [List.map_map, Function.comp_def, KsMeta.entry] using resolve_nodup fetched hw old
  have hget : alGet n ((resolveKeyspaces fetched old).map KsMeta.entry) = none := by
    generalize resolveKeyspaces fetched old = R at h
    induction R with
    | nil => rfl
    | cons k R ih =>
      have h1 := h k List.mem_cons_self
      simp only [List.map_cons, alGet, KsMeta.entry, h1, if_false]
      exact ih (fun x hx => h x (List.mem_cons_of_mem _ hx))
  show alGet (n, tb) (cs.info.maintenance _ _ _ _).tables = none
  rw [alGet_maintenance _ _ hnd']
  simp [keptBy, hget]

/-- **Fetch succeeded**: the keyspace is judged by what was fetched. -/
theorem refresh_fetch_ok (fetched : List (String × Option KsMeta)) (old : List KsMeta) (n : String) (k : KsMeta)
    (h : (n, some k) ∈ fetched) : k ∈ resolveKeyspaces fetched old := by
  simp only [resolveKeyspaces, List.mem_filterMap]
  exact ⟨(n, some k), h, rfl⟩

/-- **Fetch failed, an older version exists**: the keyspace is judged by the OLD version — its tables and views
keep their tablets (maintained), exactly as if nothing about the schema had changed. -/
theorem refresh_fetch_failed_old (fetched : List (String × Option KsMeta)) (old : List KsMeta)
    (hold : (old.map (·.name)).Nodup) (n : String) (k : KsMeta) (h : (n, none) ∈ fetched) (hk : k ∈ old)
    (hn : k.name = n) : k ∈ resolveKeyspaces fetched old := by
  simp only [resolveKeyspaces, List.mem_filterMap]
  refine ⟨(n, none), h, ?_⟩
  show old.find? (fun x => x.name == n) = some k
  -- `find?` returns the one keyspace of that name
  clear h
  induction old with
  | nil => cases hk
  | cons x old ih =>
    simp only [List.map_cons, List.nodup_cons] at hold
    rcases List.mem_cons.mp hk with rfl | hm
    · simp [hn]
    · have hne : ¬ x.name = n := by
        intro e
        apply hold.1
        rw [e, ← hn]
        exact List.mem_map.mpr ⟨k, hm, rfl⟩
      have hb : (x.name == n) = false := by simpa using hne
      simp only [List.find?_cons, hb]
      exact ih hold.2 hm

/-- **Fetch failed, no older version**: the keyspace is absent after the refresh and `perform_maintenance` discards
every tablet of every one of its tables (they are learnt again from the servers' feedback later). -/
theorem refresh_fetch_failed_no_old (cs : CState) (peers : List Peer) (fetched : List (String × Option KsMeta))
    (hw : WfFetched fetched) (old : List KsMeta) (n : String) (h : (n, none) ∈ fetched)
    (hno : ∀ k ∈ old, k.name ≠ n) (tb : String) :
    alGet (n, tb) (refreshFetched cs peers fetched old).info.tables = none := by
  apply refreshFetched_absent cs peers fetched hw old n
  intro k hk hname
  obtain ⟨e, he, h1 | ⟨h2, h3⟩⟩ := mem_resolve hk
  · -- a fetched keyspace of that name would be a second entry with key `n`
    have hke := hw.2 e he k h1
    have hkey : e.1 = n := by rw [← hke, hname]
    have : e = (n, none) := nodup_key_unique fetched hw.1 e (n, none) he h hkey
    rw [this] at h1
    cases h1
  · have hmem := List.mem_of_find?_eq_some h3
    have := List.find?_some h3
    have hke : k.name = e.1 := by simpa using this
    exact hno k hmem hname

-- non-vacuity: the fetch of `ks` fails; with an older version its tablets stay, without one they are discarded
private def csr : CState := crun [.refresh [pr 1 "dc1" 0] [("ks", true, ["t"])], .learn "ks" "t" 0 5 [(1, 0)]]
example : sig (refreshFetched csr [pr 1 "dc1" 0] [("ks", none)] [⟨"ks", true, ["t"], []⟩]) = [[(0, 5, [(1, 0)])]] := by decide
example : sig (refreshFetched csr [pr 1 "dc1" 0] [("ks", none)] []) = [] := by decide
example : sig (refreshFetched csr [pr 1 "dc1" 0] [("ks", some ⟨"ks", true, [], ["t"]⟩)] []) = [[(0, 5, [(1, 0)])]] := by decide

end Resolve

/-! ### histories on the cluster state with its keyspaces: what a refresh keeps -/

section KHistory
open ScyllaVerif.TabletsRefresh

/-- a tablet that is resolved, has no replica on a removed host and no replica whose `Node` was re-created is
left exactly as it is -/
theorem maintTablet_untouched (rm : List Nat) (ns rc : List (Nat × Node)) (t : Tablet) (hres : t.failed = none)
    (hrm : touchesRemoved rm t = false)
    (hrc : ∀ p ∈ t.replicas.all, ∀ n, alGet p.1.hostId rc = some n → n = p.1) :
    maintTablet rm ns rc t = some t := by
  simp [maintTablet, reResolve, hres, hrm, updateStale_eq_self rc t hrc]

private theorem flagsHonest_learnBatch (cs : CState) (h : FlagsHonest cs.info) (batch : List RawItem) :
    FlagsHonest (learnBatch cs batch).1.info := by
  have key : ∀ (batch : List RawItem) (inf : Info) (ok : Bool), FlagsHonest inf →
      FlagsHonest (batch.foldl (learnItem (translator cs.known)) (inf, ok)).1 := by
    intro batch
    induction batch with
    | nil => intro inf ok hi; exact hi
    | cons it batch ih =>
      intro inf ok hi
      simp only [List.foldl_cons]
      exact ih _ _ (learn_keeps_flags_honest hi it.1 _)
  exact key batch cs.info true h

private theorem stateOk_learnBatch (cs : CState) (h : StateOk cs) (batch : List RawItem) :
    StateOk (learnBatch cs batch).1 := by
  rw [learn_batch_eq_foldl]
  have key : ∀ (batch : List RawItem) (cs : CState), StateOk cs →
      StateOk (batch.foldl (fun cs it => (learn cs it.1 it.2.1 it.2.2.1 it.2.2.2).1) cs) := by
    intro batch
    induction batch with
    | nil => intro cs h; exact h
    | cons it batch ih => intro cs h; exact ih _ (stateOk_learn cs h it.1 _ _ _)
  exact key batch cs h

/-- the state invariants hold along every history of batches, refreshes (with failed fetches) and topology-only
refreshes, with the keyspaces threaded by the model's own step -/
theorem krun_ok (ops : List KOp) : StateOk (krun ops).cs ∧ FlagsHonest (krun ops).cs.info := by
  have key : ∀ (ops : List KOp) (st : KState), StateOk st.cs ∧ FlagsHonest st.cs.info →
      StateOk (ops.foldl kstep st).cs ∧ FlagsHonest (ops.foldl kstep st).cs.info := by
    intro ops
    induction ops with
    | nil => intro st h; exact h
    | cons op ops ih =>
      intro st h
      simp only [List.foldl_cons]
      apply ih
      cases op with
      | batch items => exact ⟨stateOk_learnBatch st.cs h.1 items, flagsHonest_learnBatch st.cs h.2 items⟩
      | refresh peers fetched =>
        exact ⟨stateOk_refresh st.cs h.1 peers _, (refresh_resolves_all h.2 _ _ _ _).2⟩
      | topology peers =>
        exact ⟨stateOk_refresh st.cs h.1 peers _, (refresh_resolves_all h.2 _ _ _ _).2⟩
  exact key ops KState.init ⟨stateOk_init, flags_honest_empty⟩

/-- **What a refresh does to one table, exactly.**  `kss` = the keyspaces the refresh runs with (a map by name),
`k` one of them, tablet-based, `name` one of its tables or views: after the refresh the table's tablets are the old
ones passed through the per-tablet maintenance (`maintTablet`: re-resolved or dropped if a replica was unknown,
dropped if a replica's host left, re-created `Node` objects swapped in) — nothing else is lost or added, whether the
gate of `perform_maintenance` was open or closed. -/
theorem refresh_table_tablets (cs : CState) (hf : FlagsHonest cs.info) (peers : List Peer) (kss : List KsMeta)
    (hnd : (kss.map (·.name)).Nodup) (k : KsMeta) (hk : k ∈ kss) (htb : k.tabletBased = true) (name : String)
    (hname : (k.tables.contains name || k.views.contains name) = true) :
    ∃ tbl', alGet (k.name, name) (refreshKs cs peers kss).info.tables = some tbl' ∧
      tbl'.tablets = ((alGet (k.name, name) cs.info.tables).getD Table.empty).tablets.filterMap
        (maintTablet (removedNodes cs.known (newTopology cs.known cs.gen peers).1)
          (nodesOf (newTopology cs.known cs.gen peers).1) (recreatedNodes cs.known (newTopology cs.known cs.gen peers).1)) := by
  have hnd' : ((kss.map KsMeta.entry).map (·.1)).Nodup := by
    simpa [List.map_map, Function.comp_def, KsMeta.entry] using hnd
  have hget : alGet k.name (kss.map KsMeta.entry) = some (k.tabletBased, k.tables ++ k.views) := by
    clear hnd'
    induction kss with
    | nil => cases hk
    | cons x kss ih =>
      simp only [List.map_cons, List.nodup_cons] at hnd
      rcases List.mem_cons.mp hk with rfl | hm
      · simp [alGet, KsMeta.entry]
      · have hne : ¬ x.name = k.name := by
          intro e
          apply hnd.1
          rw [e]
          exact List.mem_map.mpr ⟨k, hm, rfl⟩
        simp only [List.map_cons, alGet, KsMeta.entry, hne, if_false]
        exact ih hnd.2 hm
  have hkept : keptBy (kss.map KsMeta.entry) (k.name, name) = true := by
    have hor : name ∈ k.tables ∨ name ∈ k.views := by simpa using hname
    simp [keptBy, hget, htb, hor]
  have hcur : FlagInv ((alGet (k.name, name) cs.info.tables).getD Table.empty) ∧
      (cs.info.hasUnknown = false → AllResolved ((alGet (k.name, name) cs.info.tables).getD Table.empty)) := by
    cases hg : alGet (k.name, name) cs.info.tables with
    | none => exact ⟨flagInv_empty, fun _ t ht => by simp [Table.empty] at ht⟩
    | some c => exact ⟨hf.tables _ (alGet_mem _ _ _ hg), fun hu => hf.whole hu _ (alGet_mem _ _ _ hg)⟩
  show ∃ tbl', alGet (k.name, name) (cs.info.maintenance (kss.map KsMeta.entry) _ _ _).tables = some tbl' ∧ _
  rw [alGet_maintenance _ _ hnd', hkept]
  simp only [if_true]
  refine ⟨_, rfl, ?_⟩
  split
  · exact (maintenance_eq_filterMap _ hcur.1 _ _ _).1
  · rename_i hgate
    simp only [Bool.or_eq_true, Bool.not_eq_true', not_or, Bool.not_eq_false] at hgate
    have hr : removedNodes cs.known (newTopology cs.known cs.gen peers).1 = [] :=
      List.isEmpty_iff.mp (by simpa using hgate.1.1)
    have hc : recreatedNodes cs.known (newTopology cs.known cs.gen peers).1 = [] :=
      List.isEmpty_iff.mp (by simpa using hgate.1.2)
    have hu : cs.info.hasUnknown = false := by simpa using hgate.2
    rw [hr, hc]
    have h1 := table_pass_noop _ (hcur.2 hu) (nodesOf (newTopology cs.known cs.gen peers).1)
    rw [(maintenance_eq_filterMap _ hcur.1 [] _ []).1] at h1
    exact h1.symm

/-- **A refresh whose fetch of a keyspace FAILED, an older version of it being held**: every table and view of the
old version keeps its tablets, each passed through the per-tablet maintenance only (a resolved tablet without a
removed / re-created replica is left exactly as it is: `maintTablet_untouched`) — the tablet map restricted to that
keyspace is unchanged except for what the topology change requires. -/
theorem refresh_failed_fetch_keeps_tablets (st : KState) (hf : FlagsHonest st.cs.info) (peers : List Peer)
    (fetched : List (String × Option KsMeta)) (hw : WfFetched fetched) (hold : (st.kss.map (·.name)).Nodup)
    (n : String) (hfail : (n, none) ∈ fetched) (k : KsMeta) (hk : k ∈ st.kss) (hn : k.name = n)
    (htb : k.tabletBased = true) (name : String) (hname : (k.tables.contains name || k.views.contains name) = true) :
    k ∈ (kstep st (.refresh peers fetched)).kss ∧
    ∃ tbl', alGet (n, name) (kstep st (.refresh peers fetched)).cs.info.tables = some tbl' ∧
      tbl'.tablets = ((alGet (n, name) st.cs.info.tables).getD Table.empty).tablets.filterMap
        (maintTablet (removedNodes st.cs.known (newTopology st.cs.known st.cs.gen peers).1)
          (nodesOf (newTopology st.cs.known st.cs.gen peers).1)
          (recreatedNodes st.cs.known (newTopology st.cs.known st.cs.gen peers).1)) := by
  have hmem := refresh_fetch_failed_old fetched st.kss hold n k hfail hk hn
  refine ⟨hmem, ?_⟩
  have := refresh_table_tablets st.cs hf peers _ (resolve_nodup fetched hw st.kss) k hmem htb name hname
  rw [hn] at this
  exact this

/-- **A refresh whose fetch of a keyspace SUCCEEDED**: exactly the tables and views the fetched keyspace still has,
if it is tablet-based, are in the tablet map afterwards — with their old tablets passed through the per-tablet
maintenance; every other table of that keyspace is gone. -/
theorem refresh_ok_fetch_keeps_exactly (st : KState) (hf : FlagsHonest st.cs.info) (peers : List Peer)
    (fetched : List (String × Option KsMeta)) (hw : WfFetched fetched) (n : String) (k : KsMeta)
    (hok : (n, some k) ∈ fetched) (name : String) :
    (k.tabletBased && (k.tables.contains name || k.views.contains name)) = true →
      ∃ tbl', alGet (n, name) (kstep st (.refresh peers fetched)).cs.info.tables = some tbl' ∧
        tbl'.tablets = ((alGet (n, name) st.cs.info.tables).getD Table.empty).tablets.filterMap
          (maintTablet (removedNodes st.cs.known (newTopology st.cs.known st.cs.gen peers).1)
            (nodesOf (newTopology st.cs.known st.cs.gen peers).1)
            (recreatedNodes st.cs.known (newTopology st.cs.known st.cs.gen peers).1)) := by
  intro hcond
  have hmem := refresh_fetch_ok fetched st.kss n k hok
  have hn : k.name = n := hw.2 _ hok k rfl
  simp only [Bool.and_eq_true] at hcond
  have := refresh_table_tablets st.cs hf peers _ (resolve_nodup fetched hw st.kss) k hmem hcond.1 name hcond.2
  rw [hn] at this
  exact this

theorem refresh_ok_fetch_drops_others (st : KState) (peers : List Peer)
    (fetched : List (String × Option KsMeta)) (hw : WfFetched fetched) (n : String) (k : KsMeta)
    (hok : (n, some k) ∈ fetched) (name : String)
    (hcond : (k.tabletBased && (k.tables.contains name || k.views.contains name)) = false) :
    alGet (n, name) (kstep st (.refresh peers fetched)).cs.info.tables = none := by
  have hmem := refresh_fetch_ok fetched st.kss n k hok
  have hn : k.name = n := hw.2 _ hok k rfl
  have := refreshFetched_entry_iff st.cs peers fetched hw st.kss k hmem name
  rw [hcond, hn] at this
  cases hg : alGet (n, name) (refreshFetched st.cs peers fetched st.kss).info.tables with
  | none => exact hg
  | some x => rw [hg] at this; cases this

/-- **Observation (schema fetching disabled / keyspace not among `keyspaces_to_fetch`)**: a refresh that comes with
no keyspace at all — `SchemaMetadataFetchMode::Disabled` returns an empty map (`metadata/fetching.rs:686`) — empties the
tablet map: every learnt tablet of every table is discarded at every such refresh (lookups are then answered by
nothing, i.e. the driver falls back to the token ring until the tablets are learnt again). -/
theorem refresh_without_schema_drops_all (st : KState) (peers : List Peer) :
    (kstep st (.refresh peers [])).cs.info.tables = [] := by
  show (st.cs.info.maintenance [] _ _ _).tables = []
  rw [maintenance_unfold]
  simp [keptBy, alGet]
  split <;> simp

-- non-vacuity: two keyspaces, the fetch of one fails; its tablets stay while the other keyspace follows its new schema
private def kA : KsMeta := ⟨"ka", true, ["t"], []⟩
private def kB : KsMeta := ⟨"kb", true, ["t", "u"], []⟩
private def kst : KState := krun [.refresh [pr 1 "dc1" 0, pr 2 "dc1" 1] [("ka", some kA), ("kb", some kB)],
  .batch [(("ka", "t"), 0, 5, [(1, 0)]), (("kb", "t"), 0, 5, [(2, 0)]), (("kb", "u"), 0, 5, [(1, 1)])]]
private def kst' : KState :=
  kstep kst (.refresh [pr 1 "dc1" 0, pr 2 "dc1" 1] [("ka", none), ("kb", some ⟨"kb", true, ["u"], []⟩)])
example : sig kst'.cs = [[(0, 5, [(1, 0)])], [(0, 5, [(1, 1)])]] := by decide
example : kst'.kss.map (·.name) = ["ka", "kb"] := by decide
example : sig (kstep kst (.refresh [pr 1 "dc1" 0, pr 2 "dc1" 1] [])).cs = [] := by decide

/-! the connection's learning glue -/

/-- **What one response teaches**: at most one tablet; it is filed under the table of the prepared STATEMENT
(never under anything read from the response), its range is a non-empty range inside `(i64::MIN, i64::MAX]`, and
it is exactly what `from_custom_payload` made of the cell. -/
theorem tabletFromResponse_some (table : Option (String × String)) (sender : Bool) (cell : Option (List UInt8))
    (it : RawItem) (w : Bool) (h : tabletFromResponse table sender cell = (some it, w)) :
    table = some it.1 ∧ sender = true ∧ w = false ∧
      (∃ bs, cell = some bs ∧ parsePayload bs = .ok (it.2.1, it.2.2.1, it.2.2.2)) ∧
      i64Min < it.2.1 ∧ it.2.1 ≤ it.2.2.1 ∧ it.2.2.1 ≤ i64Max := by
  unfold tabletFromResponse at h
  split at h
  · rename_i spec bs
    cases hp : parsePayload bs with
    | error e => rw [hp] at h; simp at h
    | ok v =>
      obtain ⟨f, l, r⟩ := v
      rw [hp] at h
      simp only [Prod.mk.injEq, Option.some.injEq] at h
      obtain ⟨rfl, rfl⟩ := h
      have := payload_bytes_valid bs f l r hp
      exact ⟨rfl, rfl, rfl, ⟨bs, rfl, hp⟩, this⟩
  · simp at h

/-- a malformed payload teaches nothing and only logs a warning; without a table, a channel or a payload
nothing happens at all -/
theorem tabletFromResponse_malformed (spec : String × String) (bs : List UInt8) (e : PayloadErr)
    (h : parsePayload bs = .error e) : tabletFromResponse (some spec) true (some bs) = (none, true) := by
  simp [tabletFromResponse, h]

theorem tabletFromResponse_nothing (table : Option (String × String)) (sender : Bool) (cell : Option (List UInt8))
    (h : table = none ∨ sender = false ∨ cell = none) : tabletFromResponse table sender cell = (none, false) := by
  unfold tabletFromResponse
  split
  · rcases h with h | h | h <;> simp at h
  · rfl

end KHistory

/-! ### the failed-fetch theorem over reachable states -/

section Reachable
open ScyllaVerif.TabletsRefresh

/-- every fetch result of the history is a map by keyspace name whose entries carry their own name -/
def WfHistory (ops : List KOp) : Prop := ∀ o ∈ ops, ∀ p f, o = KOp.refresh p f → WfFetched f

/-- the keyspaces a reachable state holds are a map by name -/
theorem krun_kss_nodup (ops : List KOp) (hw : WfHistory ops) : ((krun ops).kss.map (·.name)).Nodup := by
  unfold krun
  suffices h : ∀ (ops : List KOp) (st : KState), WfHistory ops →
      (st.kss.map (·.name)).Nodup → ((ops.foldl kstep st).kss.map (·.name)).Nodup from
    h ops _ hw (by simp [KState.init])
  intro ops
  induction ops with
  | nil => intro st _ h; exact h
  | cons o rest ih =>
    intro st hw h
    apply ih _ (fun o' ho' => hw o' (List.mem_cons_of_mem _ ho'))
    cases o with
    | batch items => exact h
    | refresh p f => exact resolve_nodup f (hw _ (List.mem_cons_self) p f rfl) st.kss
    | topology p => exact h

/-- **After every history** of batches, refreshes and topology-only refreshes: if the next refresh's fetch of keyspace
`n` FAILS and the state holds a tablet-based older version `k` of it, then `k` stays the state's version and every
table and view of `k` keeps its tablets, each passed through the per-tablet maintenance only.  No hypothesis on
the state is left: `FlagsHonest` and the keyspace map's well-formedness come from reachability. -/
theorem krun_failed_fetch_keeps_tablets (ops : List KOp) (hwh : WfHistory ops) (peers : List Peer)
    (fetched : List (String × Option KsMeta)) (hw : WfFetched fetched)
    (n : String) (hfail : (n, none) ∈ fetched) (k : KsMeta) (hk : k ∈ (krun ops).kss) (hn : k.name = n)
    (htb : k.tabletBased = true) (name : String) (hname : (k.tables.contains name || k.views.contains name) = true) :
    k ∈ (krun (ops ++ [.refresh peers fetched])).kss ∧
    ∃ tbl', alGet (n, name) (krun (ops ++ [.refresh peers fetched])).cs.info.tables = some tbl' ∧
      tbl'.tablets = ((alGet (n, name) (krun ops).cs.info.tables).getD Table.empty).tablets.filterMap
        (maintTablet (removedNodes (krun ops).cs.known (newTopology (krun ops).cs.known (krun ops).cs.gen peers).1)
          (nodesOf (newTopology (krun ops).cs.known (krun ops).cs.gen peers).1)
          (recreatedNodes (krun ops).cs.known (newTopology (krun ops).cs.known (krun ops).cs.gen peers).1)) := by
  have hstep : krun (ops ++ [.refresh peers fetched]) = kstep (krun ops) (.refresh peers fetched) := by
    simp [krun, List.foldl_append]
  rw [hstep]
  exact refresh_failed_fetch_keeps_tablets (krun ops) (krun_ok ops).2 peers fetched hw (krun_kss_nodup ops hwh)
    n hfail k hk hn htb name hname

end Reachable

end ScyllaVerif.Props.C15
